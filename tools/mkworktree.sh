#!/bin/bash
# mkworktree.sh <dir> : scratch git worktree of /repo's HEAD at <dir>, made
# buildable offline by copying the generated autotools files (which are
# git-ignored) from /repo, then configured and built.
set -e
D=$1
git -C /repo worktree add --detach -f "$D" HEAD >/dev/null 2>&1
cd /repo
# generated build infrastructure only (no objects, no libs, no test results)
rsync -a --exclude='.git' --include='*/' \
  --include='configure' --include='Makefile.in' --include='aclocal.m4' \
  --include='config.h.in' --include='config.guess' --include='config.sub' \
  --include='install-sh' --include='ltmain.sh' --include='missing' \
  --include='depcomp' --include='compile' --include='ar-lib' \
  --include='test-driver' --include='m4/***' \
  --exclude='*' ./ "$D"/
cd "$D"
./configure -q >/dev/null 2>&1
make -j16 -s >/dev/null 2>&1 || { echo "build failed in $D"; exit 1; }
echo "ready: $D"
