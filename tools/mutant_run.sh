#!/bin/bash
# usage: mutant_run.sh <patch-file | -e 'sed-expr' file> -- <check command...>
# Applies a change to a scratch copy of /repo under /dev/shm, runs the check
# with VERIF_REPO pointing at the copy, then removes the copy and its build.
set -u
SCR=/dev/shm/mut-$$
mkdir -p $SCR
rsync -a --exclude '.git' --exclude '*.o' --exclude '*.lo' --exclude '.libs' --exclude 'src/tests/test-*' /repo/ $SCR/repo/
if [ "$1" = "-e" ]; then
  sed -i -e "$2" "$SCR/repo/$3" || exit 2
  shift 3
else
  ( cd $SCR/repo && patch -p1 -s < "$1" ) || { echo "patch failed"; rm -rf $SCR; exit 2; }
  shift 1
fi
[ "$1" = "--" ] && shift
# what a run on a changed tree observes is not evidence about /repo
VERIF_EVIDENCE_DIR=${VERIF_EVIDENCE_DIR:-/dev/shm/verif-mutant-evidence} VERIF_REPO=$SCR/repo "$@"
rc=$?
tag=$(python3 -c "import hashlib,os;print(hashlib.sha1(os.path.realpath('$SCR/repo').encode()).hexdigest()[:10])")
rm -rf $SCR /verif/build/*-$tag
exit $rc
