#!/usr/bin/env python3-vt
"""minimize.py <witness.script> [<key-substring>]  — delta-debug a witness:
remove script lines while a sanitizer/crash report whose key contains the
substring (default: any report) still occurs.  Prints the reduced script."""
import os
import shutil
import sys

sys.path.insert(0, os.path.join(os.path.dirname(os.path.abspath(__file__)),
                                "..", "pylib"))
import build  # noqa: E402
import runner as R  # noqa: E402


def fires(binary, lines, want, wd):
    text = "\n".join(lines) + "\n"
    res = R.run_cases(binary, [("m", text)], wd, timeout=120)["m"]
    v, _ = R.standard_violations(res, text, "X")
    keys = [x["key"] for x in v]
    if want:
        return any(want in k for k in keys), keys
    return bool(keys), keys


def main():
    path = sys.argv[1]
    want = sys.argv[2] if len(sys.argv) > 2 else ""
    variant = os.environ.get("VARIANT", "asan")
    binary = build.build(variant)
    lines = [ln for ln in open(path).read().split("\n")
             if ln.strip() and not ln.startswith("#")]
    wd = os.path.join(R.scratch_root(), "min-%d" % os.getpid())
    ok, keys = fires(binary, lines, want, wd)
    if not ok:
        print("does not reproduce; keys:", keys)
        sys.exit(1)
    n = 2
    while len(lines) >= 2:
        chunk = max(1, len(lines) // n)
        reduced = False
        for i in range(0, len(lines), chunk):
            cand = lines[:i] + lines[i + chunk:]
            if not cand:
                continue
            ok, _ = fires(binary, cand, want, wd)
            if ok:
                lines = cand
                n = max(n - 1, 2)
                reduced = True
                break
        if not reduced:
            if chunk == 1:
                break
            n = min(len(lines), n * 2)
    ok, keys = fires(binary, lines, want, wd)
    shutil.rmtree(wd, ignore_errors=True)
    print("# keys:", keys)
    print("\n".join(lines))


if __name__ == "__main__":
    main()
