#!/usr/bin/env python3
"""Regenerates /verif/MANIFEST.json from the table below (kept valid at all
times: a property without a working check is listed under not_applicable)."""
import json
import os
import subprocess

VERIF = os.path.dirname(os.path.dirname(os.path.abspath(__file__)))

HOOK_COMMITS = []  # filled when source hooks are committed to /repo

CHECKS = {
    "C01": dict(
        technique="runtime monitoring: sanitized library driven by scenarios "
                  "from an independent physical (E-term) VNA model; offline "
                  "oracle compares applied S-parameters with the device",
        text="Random error networks of every type (1x1..4x4, 1x2, 2x1), "
             "sufficient standard sets verified by an independent "
             "identifiability test, entered through random add_* entry "
             "points (full/abbreviated matrices, port maps, m and a/b, "
             "const/scalar/vector parameters, sparse and one-way multi-port "
             "standards, partly specified S matrices, arbitrary path "
             "phases, receiver gains and reference-wave scales of "
             "1e-7..1e4); solve + apply must return the device within "
             "1e-11(1+kappa). Observed executions only.",
        note="trusted: numpy/LAPACK, the E-term signal-flow model; "
             "ill-conditioned scenarios (kappa>1e4) regenerated/skipped and "
             "counted",
        design_ref="DESIGN.md section 2, C01"),
    "C03": dict(
        technique="runtime monitoring: clang ASan + UBSan + LeakSanitizer "
                  "(queried per history), gcc ASan/UBSan as second opinion and "
                  "valgrind memcheck on a sample, over generated API call "
                  "histories with valid/boundary/invalid arguments; "
                  "persistent stdio faults (write/read/close/open) for the "
                  "error paths behind I/O failures",
        text="Generated histories over every object kind and >110 public "
             "functions, arguments from valid, boundary and invalid domains, "
             "buffers always truthful; zero sanitizer reports, no crash/abort/"
             "hang, and calls invalid by a documented rule return the failure "
             "value; every file-writing / -reading function also runs under "
             "a persistent stdio fault (disk full after N bytes, read error, "
             "failing close / open). Executed paths only.",
        note="trusted: clang 14 / gcc 12 sanitizer runtimes, valgrind 3.19; "
             "red-zone tools miss non-adjacent / intra-object overflows; "
             "zero-length VLAs and memcpy(p, NULL, 0) are not treated as "
             "defects (negative VLA bounds are)",
        design_ref="DESIGN.md section 2, C03"),
    "C04": dict(
        technique="runtime monitoring: sanitized library driven by generated "
                  "inputs; offline oracle = defining port relations (numpy)",
        text="Every vnaconv_* function declared in the header is executed "
             "under ASan/UBSan on generated generic networks and judged "
             "against an independent state-basis oracle (value, defining "
             "relation, in-place vs out-of-place bits, inverse round trip, "
             "n-port vs two-port). Held-on-what-was-observed, not a proof.",
        note="trusted: numpy/LAPACK, transcription of the port relations of "
             "vnaconv(3); ill-conditioned inputs (kappa>1e4) are skipped and "
             "counted",
        design_ref="DESIGN.md section 2, C04"),
}

CHECKS["C12"] = dict(
    level="fault_enumeration",
    technique="fault injection: forced-include allocation shim fails the k-th "
              "libvna allocation of scripted histories, every k; differential "
              "comparison with the fault-free run; ASan/UBSan/LSan",
    text="For thirteen scripted histories (parameters, properties, vnadata "
         "incl. save/load in three file types, alias and mode-switch flows, "
         "seven calibration flows, an unknown parameter re-solved with "
         "another point count) and for generated API histories (quick 8, "
         "thorough 96) every allocation index made from libvna source text "
         "is failed once (thorough: all, about 80 000 runs; quick: all of "
         "the scripted histories, every 3rd of the generated ones). "
         "The faulted call must succeed or fail with ENOMEM, nothing may "
         "crash or leak, between a failed call and its retry every live "
         "object is dumped and every parameter handle evaluated (usable "
         "half-way), and after one retry all later events, dumps and "
         "saved bytes equal the fault-free run.",
    note="single fault per run; libyaml/libc allocations are not faulted; "
         "observer ops (dumps) are excluded from injection",
    design_ref="DESIGN.md section 2, C12")

CHECKS["C06"] = dict(
    technique="runtime monitoring: sanitized save/load driven over the "
              "configuration cross-product; offline oracle = independent "
              "Touchstone/NPD reader (pylib/tsnpd.py) + netparams",
    text="Objects over all parameter types, 1..6 ports, four z0 modes, "
         "magnitudes 1e-12..1e12, file types by extension and by "
         "set_filetype, single and multi-parameter format lists and "
         "precisions 1..17/MAX: cksave/save/fsave must agree, the bytes "
         "written are parsed by an independent reader and compared with "
         "values computed from the object's data, and vnadata_load of the "
         "file must reproduce the network.",
    note="trusted: the independent reader written from the Touchstone 1.1/2.0 "
         "specifications and the NPD description of vnadata(3); numpy; forms "
         "undefined for a value (dB of 0 ...) are excluded by the generator",
    design_ref="DESIGN.md section 2, C06")
CHECKS["C08"] = dict(
    technique="runtime monitoring: independent writer produces equivalence "
              "classes of spellings; the real loader's results are compared "
              "with the ground truth offline",
    text="Each class holds >= 4 spellings of one ground truth (units, RI/MA/DB, "
         "S/Z/Y/H/G, option-line order and defaults, v1 1..4 ports incl. the "
         "9-number ambiguity and wrapping, v2 Full/Upper/Lower, both two-port "
         "orders, [Reference], noise blocks, comments, case, spacing, NPD "
         "header order); every member must load to the ground truth.",
    note="trusted: tsnpd.py writer; NPD header lines keep #:ports before "
         "#:z0 because libvna's format defines the other order as an error",
    design_ref="DESIGN.md section 2, C08")

CHECKS["C09"] = dict(
    technique="runtime monitoring: structure-aware mutational fuzzing of all "
              "loaders under ASan/UBSan/LSan with a per-operation watchdog; "
              "offline oracle on the event log",
    text="Seeds of every file kind (written by the library, hand-written "
         "Touchstone 1/2 and YAML, the legacy V2 calibration file) are "
         "mutated structurally (incl. lines spliced in from another seed); "
         "every second vnadata input is loaded into an object that held "
         "other data and must give the object a fresh destination gets; "
         "each input must be rejected with "
         "-1/NULL, EBADMSG/ENOPROTOOPT/system errno and a single-line "
         "message, leaving a usable destination and no leak, or load into a "
         "self-consistent object that saves and re-loads to the same "
         "content. Hangs are watchdog-detected.",
    note="termination is restated as 'returns within 20 s on every generated "
         "input'; memcheck (uninitialised reads) is not part of the quick run",
    design_ref="DESIGN.md section 2, C09")
CHECKS["C15"] = dict(
    technique="runtime monitoring: reference-model monitor (pylib/datamodel.py, "
              "written from vnadata(3)) compared after every operation of "
              "bounded-exhaustive and random histories; ASan/UBSan",
    text="Every 4-operation sequence over a 32-letter alphabet on dimensions "
         "0..3 (thorough: all; quick: seeded 1/40 sample) plus 300-operation "
         "random histories over all 11 types, indices from {-1,0,n-1,n,n+1}; "
         "return value, errno class and full state digest must equal the "
         "array model after every operation, including what resize re-exposes.",
    note="trusted: transcription of vnadata(3) into the model; behaviours the "
         "manual leaves open are accepted either way (listed in evidence)",
    design_ref="DESIGN.md section 2, C15")
CHECKS["C05"] = dict(
    technique="runtime monitoring: sanitized vnadata_convert over the full "
              "type-pair x shape x z0-mode table; offline oracle = netparams "
              "state-basis reference + datamodel",
    text="All 121 (from,to) pairs, 2x2 / NxN / vector shapes, four z0 modes "
         "incl. per-frequency, in place and out of place, F in {0,1,3}: "
         "accepted pairs must equal the independent reference per frequency "
         "with that frequency's z0, chains must agree, rejected pairs must "
         "fail with EINVAL and leave the destination unchanged, and a Zin "
         "result must behave like a fresh 1 x ports object under later "
         "resizes.",
    note="trusted: numpy, netparams.py; ill-conditioned inputs skipped and "
         "counted",
    design_ref="DESIGN.md section 2, C05")

CHECKS["C17"] = dict(
    technique="runtime monitoring: metamorphic twin runs of the real library "
              "on related scenario pairs; offline comparison of applied "
              "S-parameters",
    text="Pairs of calibrations related by one of nine transformations "
         "(entry point, full/abbreviated matrix, order, a/b scaling, "
         "unrelated objects, an earlier calibration through the same "
         "parameter handles, frequencies together vs separately, E12 vs "
         "UE14, port renumbering) must correct the same device measurement "
         "identically within 1e-12(1+kappa); noisy over-determined data are "
         "used where the transformation preserves the least-squares problem.",
    note="trusted: scenario generator and identifiability estimate; exact "
         "data for the two transformations the property restricts to "
         "consistent data",
    design_ref="DESIGN.md section 2, C17")
CHECKS["C20"] = dict(
    technique="runtime monitoring: add-one-standard/solve histories judged "
              "against an independent identifiability classification (numpy "
              "SVD of the documented equations)",
    text="Standards of a sufficient pool are added in random order with a "
         "solve after every addition; under-determined prefixes must fail "
         "with -1/EDOM and one MATH message, the first determining prefix "
         "and all later ones must solve and correct an independent device, "
         "however many failed attempts preceded; half of the 3x3 pools hold "
         "one-way (non-reciprocal) three-port standards and are judged on "
         "the determined side only.",
    note="grey prefixes (enough equations but not determining, or kappa>1e5) "
         "are not asserted, as the property says",
    design_ref="DESIGN.md section 2, C20")

CHECKS["C02"] = dict(
    technique="runtime monitoring: sanitized solver driven by scenarios with "
              "unknown/correlated parameters from the independent E-term "
              "model; watchdog for termination; offline oracle on values",
    text="Analytic TRL (2x2 T8/U8/TE10/UE10) and Levenberg-Marquardt solves "
         "(all types, 1..3 unknowns, tolerances 1e-4..1e-12, iteration "
         "limits 1..100, with/without weighting): every call must return, a "
         "failure must be -1/EDOM with one MATH message, a success must give "
         "the true parameter values and a correct device within 30*tol + "
         "1e-10(1+kappa), also when the same unknown is solved again on "
         "another grid, with the documented default tolerances, with "
         "correlated chains, with arbitrary path phases, and when a second "
         "TRL set reuses the unknown handles of a first one; convergence "
         "floors (aggregate and per error-term type) guard against a solver "
         "that does not converge from inside the basin.",
    note="termination restated as 'returns within the watchdog'; guesses are "
         "generated inside the basin by construction (nearer the true TRL "
         "root; within 0.02..0.1 for LM); square shapes for LM",
    design_ref="DESIGN.md section 2, C02")
CHECKS["C13"] = dict(
    technique="runtime monitoring: reference-model monitor (pylib/docmodel.py "
              "from vnaproperty(3)) compared after every operation of "
              "bounded-exhaustive and random histories; ASan/LSan",
    text="Every sequence of <= 4 operations over a 40-letter alphabet of "
         "(operation, descriptor) pairs from four start trees (thorough; "
         "sampled in quick) plus 200-operation random histories, also "
         "through vnacal_property_* on the global root: return value, errno "
         "class and tree hash must equal the document model after every "
         "operation; quote_key must address exactly its key.",
    note="trusted: the transcription of vnaproperty(3); combinations the "
         "manual leaves open are compared as unspecified; per-calibration "
         "roots are not exercised",
    design_ref="DESIGN.md section 2, C13")
CHECKS["C14"] = dict(
    technique="runtime monitoring: generated trees exported and re-imported "
              "through the real YAML code paths; offline comparison of "
              "public-getter dumps",
    text="Random trees of depth <= 6 with hostile keys and scalars (YAML "
         "look-alikes, control characters, NEL/LS/BOM, long and multi-line "
         "text, UTF-8) are exported and imported from file and string and "
         "through vnacal_save/vnacal_load; the dump after import must equal "
         "the dump before export byte for byte (key order as a set).",
    note="only valid UTF-8 is generated; invalid byte strings belong to C09",
    design_ref="DESIGN.md section 2, C14")
CHECKS["C18"] = dict(
    technique="runtime monitoring: deterministic exact-data twin runs plus "
              "aggregate statistics of accept/reject events under calibrated "
              "Gaussian noise",
    text="Exact over-determined data with m_error enabled must solve and "
         "correct like the unweighted run, and disabling must restore it bit "
         "for bit; with noise of exactly the declared size the rejection "
         "rate per (type, regime) at significance 0.05 must lie in [1 %, "
         "20 %] (widened binomially); a redundant standard displaced by 100 "
         "sigma must be rejected in >= 90 %; the same noise law on its own "
         "grid, and a declaration made after earlier different ones, must "
         "give the calibration of the plain declaration; a two-frequency "
         "regime with noise differing by 10..30x between the frequencies and "
         "exact data with equation weights up to 1e8 apart are included.",
    note="statistical clauses use wide bounds; only gross mis-weighting, "
         "wrong degrees of freedom or a broken p-value are detectable",
    design_ref="DESIGN.md section 2, C18")

CHECKS["C11"] = dict(
    technique="runtime monitoring: offline checker of the recorded event log "
              "against the error contract transcribed from the manuals; "
              "before/after state digests; twin runs",
    text="Every failing event of failure-rich generated histories is checked "
         "against the documented failure value, errno class and error-"
         "function contract (exactly one single-line message, silent "
         "queries silent, nothing on success); calls refused for their "
         "arguments must leave dump digests unchanged (twin run without the "
         "refused calls for the opaque vnacal_new_t); late failures must "
         "leave objects usable (failed solve -> add standards -> solve "
         "corrects the device); every file function runs once under a "
         "persistent stdio fault (disk full, read error, failing close / "
         "open): vnadata_save / vnacal_save must report it as a system "
         "error, and the same call without the fault must then succeed and "
         "write the same bytes as before.",
    note="trusted: pylib/errtable.py transcription of the six manuals; where "
         "the manual or the project's own tests leave errno open (property "
         "queries on a null element) either outcome is accepted",
    design_ref="DESIGN.md section 2, C11")
CHECKS["C16"] = dict(
    technique="runtime monitoring: reference-model monitor (pylib/calmodel.py) "
              "over generated handle/calibration histories; twin runs for "
              "deletion-while-in-use",
    text="Histories of depth ~100 over parameters, several vnacal_new_t, "
         "calibrations (add, replace by name, delete), queries and property "
         "calls are compared with an abstract table model after every "
         "operation; a handle deleted while in use must leave the solve "
         "bit-identical to the twin run without the deletion and be refused "
         "for new use; one noisy calibration with a shared unknown built "
         "under low and under shifted, sparse handle numbers (and with the "
         "unknown's guess / correlate deleted after it was made) must give "
         "the same verdicts, solved values and corrected device.",
    note="the numbering policy of handles and free slots is not asserted",
    design_ref="DESIGN.md section 2, C16")

CHECKS["C07"] = dict(
    technique="runtime monitoring: sanitized save/load/re-save histories of "
              "vnacal_t objects; offline oracle = independent reader of the "
              "saved text (pylib/vcalfile.py) and comparison of applied "
              "probe measurements",
    text="vnacal_t objects with 0..6 calibrations of every type (to 3 ports, "
         "rectangular included), complex z0, property trees and precisions "
         "1..40/MAX, built through add / replace-by-name / delete histories, "
         "are saved, loaded, re-saved and applied; names, order, types, "
         "dimensions, frequencies, z0, properties and error terms must agree "
         "to the stated precision, older-version and re-spelt files must load "
         "to the same content; when the table in memory is not what the "
         "history should have produced it is still compared before save and "
         "after load. Executed histories only.",
    note="trusted: pylib/vcalfile.py (hand-written reader of the documented "
         "file layout), numpy; z0 is accepted at min(fprecision, dprecision) "
         "digits because the manual does not say which applies",
    design_ref="DESIGN.md section 7, C07")
CHECKS["C10"] = dict(
    technique="runtime monitoring: sanitized library queried between and at "
              "grid points; offline oracle = closed-form rational laws and "
              "twin runs",
    text="Vector parameters, calibrations of smooth error networks, vector "
         "standards and noise vectors on their own grids: values at knots "
         "bit-exact, low-order rational data reproduced between knots within "
         "the documented interpolation error, results independent of query "
         "order, and every use outside the covered band (apply, parameter "
         "query, vector standard, correlated sigma grid, noise grid; both "
         "call orders) refused; a straight-line sigma law of a correlated "
         "parameter given per calibration frequency, on the calibration grid "
         "and on its own 2..6-knot grid gives the same weighted solve; an "
         "apply request with the calibration's point count and end points "
         "but other interior points is interpolated. Observed executions "
         "only.",
    note="trusted: numpy; accuracy clauses use smooth laws where any sound "
         "interpolator is accurate, so only gross interpolation defects are "
         "visible between knots",
    design_ref="DESIGN.md section 7, C10")
CHECKS["C19"] = dict(
    technique="runtime monitoring: sanitized library on structured "
              "ill-scaled / singular matrix families; offline oracle = "
              "residual of the documented linear relations, numpy lstsq, "
              "metamorphic row-scaling and permutation twins",
    text="n-port conversions, a/b to m reduction and error-term solves on "
         "badly scaled, permuted, noisy over-determined and exactly singular "
         "inputs: residuals of the defining linear relations must be at "
         "rounding level after row equilibration, least-squares terms must "
         "match numpy.linalg.lstsq, and singular inputs must be reported "
         "(EDOM / non-finite result) rather than answered with plausible "
         "numbers. Observed executions only.",
    note="trusted: numpy/LAPACK; tolerances leave >= 3 decades over the worst "
         "value seen on the repaired tree",
    design_ref="DESIGN.md section 7, C19")

NOT_YET = {}


def main():
    props = [json.loads(l) for l in open(os.path.join(VERIF, "properties.jsonl"))]
    checks = []
    na = []
    for p in props:
        pid = p["id"]
        c = CHECKS.get(pid)
        if c is None:
            na.append(dict(property_id=pid, reason=NOT_YET.get(
                pid, "check not built yet in this round (design exists in "
                     "DESIGN.md section 2); not claimed")))
            continue
        level = c.get("level", "exploration")
        checks.append(dict(
            property_id=pid,
            quick_cmd="python3-vt checks/%s.py --tier quick" % pid,
            thorough_cmd="python3-vt checks/%s.py --tier thorough" % pid,
            evidence_file="evidence/%s.json" % pid,
            replay_cmd_template="build/asan/vnadrv --workdir /dev/shm {path}",
            engine="vnadrv",
            level_claimed=dict(category=level, text=c["text"],
                               design_ref=c["design_ref"]),
            level_note=c["note"],
            technique=c["technique"]))
    man = dict(
        version=1,
        setup_cmd="python3 pylib/build.py asan gasan plain fi",
        hooks=dict(
            guard="LIBVNA_VERIF",
            enable="pylib/build.py compiles every file of libvna_la_SOURCES "
                   "from /repo/src with -DLIBVNA_VERIF=1 plus sanitizers (clang; gcc for the second-opinion and valgrind builds); no "
                   "source hooks are needed so far (allocation faults come "
                   "from a forced-include shim, observation from the scripted "
                   "driver over the public API)",
            baseline_off_cmd="cd /repo && { [ -f Makefile ] || ./configure; } "
                             "&& make -j16 check",
            source_commits=HOOK_COMMITS,
            add_only=True),
        engines=[dict(name="vnadrv", path="harness/vnadrv.c",
                      serves_properties=sorted(CHECKS),
                      kind_free_text="scripted interpreter over the public "
                                     "libvna API, built with ASan+UBSan from "
                                     "/repo's working tree; emits a JSON event "
                                     "log judged offline by Python oracles")],
        checks=checks,
        not_applicable=na,
        notes="Runtime monitoring and sanitizers only; see DESIGN.md.")
    with open(os.path.join(VERIF, "MANIFEST.json"), "w") as f:
        json.dump(man, f, indent=1)
        f.write("\n")
    # validate
    try:
        subprocess.run(["python3-vt", "-c", """
import json, jsonschema
jsonschema.validate(json.load(open('%s/MANIFEST.json')),
                    json.load(open('/root/.vp/MANIFEST.schema.json')))
print('MANIFEST valid')
""" % VERIF], check=True)
    except Exception as e:
        print("validation failed", e)


if __name__ == "__main__":
    main()
