#!/bin/bash
# sweep.sh <seed> [tier]: run every check once, print exit code and wall time
cd "$(dirname "$0")/.."
seed=$1; tier=${2:-quick}
for c in C01 C02 C03 C04 C05 C06 C07 C08 C09 C10 C11 C12 C13 C14 C15 C16 C17 C18 C19 C20; do
  t0=$(date +%s.%N)
  VERIF_EVIDENCE_DIR=${VERIF_EVIDENCE_DIR:-/dev/shm/verif-sweep-evidence} VERIF_SEED=$seed python3-vt checks/$c.py --tier $tier > /dev/shm/verif-sweep-$seed-$c.log 2>&1
  rc=$?
  t1=$(date +%s.%N)
  printf "%s seed=%s rc=%d wall=%.0fs %s\n" $c $seed $rc $(echo "$t1 - $t0" | bc) "$(grep -c '^VIOLATION' /dev/shm/verif-sweep-$seed-$c.log) violations; $(grep -o 'inconclusive.*' /dev/shm/verif-sweep-$seed-$c.log | head -1 | cut -c1-120)"
done
