#!/usr/bin/env python3
"""selftest.py [pattern]: sensitivity self-test of the checks.

For every mutants/<Cxx>-*.patch (and seeded/<id>/patch.diff): apply the patch
to a scratch copy of /repo under /dev/shm, run the owning check's quick command
with VERIF_REPO pointing at the copy, record detected (exit 1) / missed
(exit 0) / stale (patch does not apply) / error, remove the copy and its build.
Writes mutants/SELFTEST.md.  Never touches /repo.
"""
import concurrent.futures as cf
import glob
import json
import os
import re
import shutil
import subprocess
import sys
import hashlib

VERIF = os.path.dirname(os.path.dirname(os.path.abspath(__file__)))


def run_one(item):
    kind, name, patch, props = item
    scr = "/dev/shm/selftest-%s-%d" % (re.sub(r"\W", "_", name), os.getpid())
    shutil.rmtree(scr, ignore_errors=True)
    os.makedirs(scr)
    repo = os.path.join(scr, "repo")
    subprocess.run(["rsync", "-a", "--exclude", ".git", "--exclude", "*.o",
                    "--exclude", "*.lo", "--exclude", ".libs", "--exclude",
                    "src/tests/test-*", "/repo/", repo + "/"], check=True)
    r = subprocess.run(["patch", "-p1", "-s", "--forward", "-i", patch],
                       cwd=repo, stdout=subprocess.PIPE, stderr=subprocess.STDOUT,
                       text=True)
    out = {}
    if r.returncode != 0:
        out = {p: "stale" for p in props}
    else:
        env = dict(os.environ, VERIF_REPO=repo, VERIF_JOBS="6",
                   VERIF_EVIDENCE_DIR="/dev/shm/verif-selftest-evidence",
                   VERIF_SEED=os.environ.get("VERIF_SEED", "1"))
        for p in props:
            rr = subprocess.run(["python3-vt", "checks/%s.py" % p, "--tier",
                                 "quick"], cwd=VERIF, env=env,
                                stdout=subprocess.PIPE, stderr=subprocess.STDOUT,
                                text=True)
            keys = sorted(set(re.findall(r"violation key=(\S+)", rr.stdout)))
            out[p] = {0: "MISSED", 1: "detected"}.get(rr.returncode,
                                                      "error(%d)" % rr.returncode)
            if keys:
                out[p] += " " + ",".join(keys[:3])
    tag = hashlib.sha1(os.path.realpath(repo).encode()).hexdigest()[:10]
    shutil.rmtree(scr, ignore_errors=True)
    for d in glob.glob(os.path.join(VERIF, "build", "*-" + tag)):
        shutil.rmtree(d, ignore_errors=True)
    return kind, name, out


def main():
    pats = sys.argv[1:]

    items = []
    for p in sorted(glob.glob(os.path.join(VERIF, "mutants", "C*.patch"))):
        name = os.path.basename(p)[:-6]
        if pats and not any(p_ in name for p_ in pats):
            continue
        items.append(("mutant", name, p, [name.split("-")[0]]))
    for d in sorted(glob.glob(os.path.join(VERIF, "seeded", "*"))):
        meta = os.path.join(d, "meta.json")
        patch = os.path.join(d, "patch.diff")
        if not os.path.exists(patch):
            continue
        name = "seeded/" + os.path.basename(d)
        if pats and not any(p_ in name for p_ in pats):
            continue
        props = [re.match(r"C\d\d", os.path.basename(d)).group(0)]
        if os.path.exists(meta):
            m = json.load(open(meta))
            props = m.get("run_checks") or [m.get("property", props[0])]
            if m.get("neutralised_by"):
                # a later repair of /repo made the change harmless
                continue
        items.append(("seeded", name, patch, props))
    rows = []
    with cf.ThreadPoolExecutor(max_workers=4) as ex:
        for kind, name, out in ex.map(run_one, items):
            for p, res in out.items():
                rows.append((name, p, res))
                print("%-55s %-4s %s" % (name, p, res), flush=True)
    path = os.path.join(VERIF, "mutants", "SELFTEST.md")
    if pats and os.path.exists(path):
        # a partial run updates its rows and keeps the others (rows of
        # changes that no longer exist are dropped)
        old = []
        for ln in open(path):
            m = re.match(r"\| (\S+) \| (C\d\d) \| (.*) \|$", ln.rstrip("\n"))
            if m:
                old.append((m.group(1), m.group(2), m.group(3)))
        new = {(n, p): r for n, p, r in rows}
        merged = []
        for n, p, r in old:
            f_ = os.path.join(VERIF, n, "patch.diff") if n.startswith(
                "seeded/") else os.path.join(VERIF, "mutants", n + ".patch")
            if not os.path.exists(f_):
                continue
            merged.append((n, p, new.pop((n, p), r)))
        merged += [(n, p, r) for (n, p), r in new.items()]
        rows_out = sorted(merged, key=lambda x: (x[0].startswith("seeded/"),
                                                 x[0], x[1]))
    else:
        rows_out = rows
    with open(path, "w") as f:
        f.write("# Sensitivity self-test (tools/selftest.py)\n\n"
                "| change | check | result |\n|---|---|---|\n")
        for name, p, res in rows_out:
            f.write("| %s | %s | %s |\n" % (name, p, res))
    missed = [r for r in rows if r[2].startswith("MISSED")]
    print("%d changes, %d missed" % (len(rows), len(missed)))


if __name__ == "__main__":
    main()
