#!/bin/bash
# confirm_seeds_in_repo.sh: final confirmation of the seeded changes against
# /repo itself: apply (git -C /repo apply), run the owning check's quick tier,
# undo straight afterwards (git -C /repo checkout -- .).  Evidence of these
# runs goes to a scratch directory.  Nothing else may use /repo meanwhile.
cd /verif
export VERIF_EVIDENCE_DIR=/dev/shm/verif-seed-evidence
out=mutants/SEEDS-IN-REPO.md
echo "# Seeded changes applied to /repo itself (tools/confirm_seeds_in_repo.sh)" > $out
echo >> $out
echo "| change | check | exit | violation keys |" >> $out
echo "|---|---|---|---|" >> $out
if ! git -C /repo diff --quiet; then echo "/repo has uncommitted changes"; exit 2; fi
for d in seeded/*/; do
  id=$(basename $d)
  [ -f $d/patch.diff ] || continue
  chk=$(python3 -c "import json;print(' '.join(json.load(open('$d/meta.json')).get('run_checks',['${id:0:3}'])))")
  if ! git -C /repo apply --check /verif/$d/patch.diff 2>/dev/null; then
    echo "| $id | $chk | - | patch does not apply (stale) |" >> $out; continue
  fi
  git -C /repo apply /verif/$d/patch.diff
  for c in $chk; do
    log=$(python3-vt checks/$c.py --tier quick 2>&1); rc=$?
    keys=$(echo "$log" | grep -o "violation key=[^ ]*" | sed 's/violation key=//' | sort -u | head -3 | tr '\n' ' ')
    echo "| $id | $c | $rc | $keys |" >> $out
    echo "$id $c rc=$rc $keys"
  done
  git -C /repo checkout -- .
done
git -C /repo status --short | grep -v '^??'
python3 pylib/build.py asan gasan fi plain > /dev/null
