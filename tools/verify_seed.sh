#!/bin/bash
# verify_seed.sh <id> [check ...]: confirm a seeded change produced in the
# scratch worktree /tmp/seed/<id>: (1) suite passes with the change, demo
# fails; (2) without the change the demo passes; then copy it to
# /verif/seeded/<id>/ and run the given checks (default: <id>) against a
# scratch copy of /repo with the patch applied.
id=$1; shift
checks=${@:-$id}
W=/tmp/seed/$id
cd $W || exit 2
# normalise: the worktree carries exactly the change in SEED/patch.diff
# (git stash is shared between worktrees, so it is not used here)
git checkout -q -- src && git apply SEED/patch.diff || { echo "patch does not apply"; exit 1; }
make -j16 -s >/dev/null 2>&1 || { echo "BUILD FAILED with change"; exit 1; }
suite=$(make -j16 check 2>&1 | grep -E "^# (PASS|FAIL|ERROR):" | tr -s ' ' | tr '\n' ' ')
build_demo() {
  rm -f SEED/demo demo
  if [ -f SEED/demo.c ]; then
    # use the gcc command documented at the top of demo.c when there is one
    cmd=$(python3 - <<'PY'
import re
t=open('SEED/demo.c').read()[:4000]
t=re.sub(r'\\\n\s*\*?\s*', ' ', t)
m=re.search(r'((?:cd \S+ && )?gcc [^\n]*)', t)
print(m.group(1).strip() if m else '')
PY
)
    if [ -n "$cmd" ]; then ( eval "$cmd" ) >/dev/null 2>&1; fi
    [ -x SEED/demo ] || [ -x demo ] || gcc -I$W/src -I$W -o SEED/demo SEED/demo.c $W/src/.libs/libvna.a -lyaml -lm 2>/dev/null || return 1
    if [ -x SEED/demo ] && grep -q '"SEED/' SEED/demo.c; then ( ./SEED/demo >/dev/null 2>&1 ); return $?; fi
    if [ -x SEED/demo ]; then ( cd SEED && ./demo >/dev/null 2>&1 ); return $?; fi
    ( ./demo >/dev/null 2>&1 ); return $?
  else
    ( cd SEED && bash ./demo.sh >/dev/null 2>&1 ); return $?
  fi
}
build_demo; with=$?
git apply -R SEED/patch.diff
make -j16 -s >/dev/null 2>&1
build_demo; without=$?
git apply SEED/patch.diff
make -j16 -s >/dev/null 2>&1
echo "suite with change: $suite | demo with change exit=$with | demo without change exit=$without"
mkdir -p /verif/seeded/$id
cp SEED/patch.diff SEED/NOTES.md /verif/seeded/$id/ 2>/dev/null
cp SEED/demo.c SEED/demo.sh /verif/seeded/$id/ 2>/dev/null
cd /verif
for c in $checks; do
  out=$(tools/mutant_run.sh /verif/seeded/$id/patch.diff -- python3-vt checks/$c.py --tier quick 2>&1)
  rc=$?
  keys=$(echo "$out" | grep -o "violation key=[^ ]*" | sort -u | head -4 | tr '\n' ' ')
  echo "check $c: exit=$rc $keys"
done
