#!/usr/bin/env python3
"""seedtable.py: markdown table of the independently seeded changes
(seeded/<id>/meta.json) for DESIGN.md section 7.4."""
import glob
import json
import os

VERIF = os.path.dirname(os.path.dirname(os.path.abspath(__file__)))
print("| change | property | what it needs to manifest | caught by | check strengthened |")
print("|---|---|---|---|---|")
for d in sorted(glob.glob(os.path.join(VERIF, "seeded", "*"))):
    mp = os.path.join(d, "meta.json")
    if not os.path.exists(mp):
        continue
    m = json.load(open(mp))
    print("| seeded/%s | %s | %s | %s | %s |" % (
        os.path.basename(d), m.get("property"), m.get("needs", "").replace("|", "/"),
        m.get("detected_by", "").replace("|", "/"),
        ("yes: " + m.get("how_strengthened", "")) if m.get("strengthened") else "no"))
