#!/bin/bash
# coverage.sh [tier] [checks...]: which lines of libvna do the checks reach?
# Builds the driver with gcc --coverage plus the allocation-fault shim (variant
# "cov"), runs the checks with that binary in place of the sanitized ones (their evidence goes to a scratch
# directory: an unsanitized run is not evidence), and writes
# coverage/SUMMARY.md (per source file: lines, executed, %) plus
# coverage/unreached/<file>.txt (the lines never executed).
cd /verif
tier=${1:-quick}; shift
checks=${@:-C01 C02 C03 C04 C05 C06 C07 C08 C09 C10 C11 C12 C13 C14 C15 C16 C17 C18 C19 C20}
rm -rf build/cov/*.gcda
export VERIF_COVERAGE=1 VERIF_EVIDENCE_DIR=/dev/shm/verif-cov-evidence
for c in $checks; do
  python3-vt checks/$c.py --tier $tier > /dev/shm/verif-cov-$c.log 2>&1
  echo "$c exit=$?"
done
unset VERIF_COVERAGE
mkdir -p coverage/unreached
( cd build/cov && for g in lib_*.gcda; do gcov -b -o . "$g" >/dev/null 2>&1; done )
python3 - <<'PY'
import glob, os, re
rows = []
for g in sorted(glob.glob('/verif/build/cov/*.c.gcov')):
    name = os.path.basename(g)[:-5]
    if not os.path.exists('/repo/src/' + name):
        continue
    tot = hit = 0
    miss = []
    for ln in open(g, errors='replace'):
        m = re.match(r'\s*([^:]+):\s*(\d+):(.*)', ln)
        if not m:
            continue
        c, n, txt = m.group(1).strip(), int(m.group(2)), m.group(3)
        if c == '-' or n == 0:
            continue
        tot += 1
        if c.startswith('#') or c.startswith('='):
            miss.append('%5d:%s' % (n, txt))
        else:
            hit += 1
    rows.append((name, tot, hit))
    open('/verif/coverage/unreached/%s.txt' % name, 'w').write('\n'.join(miss) + '\n')
T = sum(r[1] for r in rows); H = sum(r[2] for r in rows)
with open('/verif/coverage/SUMMARY.md', 'w') as f:
    f.write('# Line coverage of libvna by the checks (tools/coverage.sh)\n\n')
    f.write('total: %d of %d lines executed (%.1f %%)\n\n| file | lines | executed | %% |\n|---|---|---|---|\n' % (H, T, 100.0 * H / max(T, 1)))
    for n, t, h in sorted(rows, key=lambda r: r[2] / max(r[1], 1)):
        f.write('| %s | %d | %d | %.1f |\n' % (n, t, h, 100.0 * h / max(t, 1)))
print('total %d/%d = %.1f%%' % (H, T, 100.0 * H / max(T, 1)))
PY
rm -f build/cov/*.gcov
