"""Network-parameter semantics written from the defining port relations of
vnaconv(3).  Nothing here calls libvna.

  a_i = K_i (v_i + Z_i i_i) / 2      b_i = K_i (v_i - conj(Z_i) i_i) / 2
  K_i = 1 / sqrt(|Re Z_i|)

Every parameter type X is a relation  LHS_X(state) = M . RHS_X(state)  between
linear functionals of the port state (V, I).  F_X is the 2n x 2n matrix that
maps [V; I] to [LHS_X; RHS_X].
"""
import numpy as np

TYPES = ["S", "T", "U", "Z", "Y", "H", "G", "A", "B"]
TWO_PORT_ONLY = {"T", "U", "H", "G", "A", "B"}
EPS = np.finfo(float).eps


def _functionals(z0):
    """rows of shape (n, 2n): v, i, a, b as functionals of [V; I]"""
    z0 = np.asarray(z0, dtype=complex)
    n = len(z0)
    I = np.eye(n, dtype=complex)
    O = np.zeros((n, n), dtype=complex)
    v = np.hstack([I, O])
    i = np.hstack([O, I])
    k = 1.0 / np.sqrt(np.abs(z0.real))
    a = 0.5 * k[:, None] * (v + z0[:, None] * i)
    b = 0.5 * k[:, None] * (v - np.conj(z0)[:, None] * i)
    return v, i, a, b


def fmatrix(ptype, z0):
    """F_X: [V; I] -> [LHS; RHS]"""
    v, i, a, b = _functionals(z0)
    n = len(z0)
    if ptype == "S":
        return np.vstack([b, a])
    if ptype == "Z":
        return np.vstack([v, i])
    if ptype == "Y":
        return np.vstack([i, v])
    if n != 2:
        raise ValueError("%s is a two-port type" % ptype)
    if ptype == "T":
        return np.vstack([b[0], a[0], a[1], b[1]])
    if ptype == "U":
        return np.vstack([a[1], b[1], b[0], a[0]])
    if ptype == "H":
        return np.vstack([v[0], i[1], i[0], v[1]])
    if ptype == "G":
        return np.vstack([i[0], v[1], v[0], i[1]])
    if ptype == "A":
        return np.vstack([v[0], i[0], v[1], -i[1]])
    if ptype == "B":
        return np.vstack([v[1], -i[1], v[0], i[0]])
    raise ValueError(ptype)


def state_basis(ptype, m, z0):
    """2n x n matrix whose columns span the states allowed by matrix m"""
    m = np.asarray(m, dtype=complex)
    n = m.shape[0]
    F = fmatrix(ptype, z0)
    rhs = np.vstack([m, np.eye(n, dtype=complex)])
    return np.linalg.solve(F, rhs)


def convert(from_type, to_type, m, z0):
    """reference conversion: M_out = LHS_out . RHS_out^-1 on the state basis"""
    m = np.asarray(m, dtype=complex)
    n = m.shape[0]
    st = state_basis(from_type, m, z0)
    lr = fmatrix(to_type, z0) @ st
    L, R = lr[:n], lr[n:]
    return L @ np.linalg.inv(R)


def relation_residual(from_type, m_in, to_type, m_out, z0):
    """relative residual of LHS_out = M_out RHS_out on the input's states"""
    m_in = np.asarray(m_in, dtype=complex)
    m_out = np.asarray(m_out, dtype=complex)
    n = m_in.shape[0]
    st = state_basis(from_type, m_in, z0)
    # normalise the basis so that the residual is scale free
    lr = fmatrix(to_type, z0) @ st
    L, R = lr[:n], lr[n:]
    res = L - m_out @ R
    scale = np.abs(L) + np.abs(m_out) @ np.abs(R)
    # an entry whose terms are all structural zeros (or their rounding
    # residue) is judged against the size of the whole relation
    top = float(np.max(scale)) if scale.size else 0.0
    scale = np.maximum(scale, 1e-3 * top)
    scale = np.where(scale == 0, 1.0, scale)
    return float(np.max(np.abs(res) / scale))


def zin(from_type, m, z0):
    """input impedance at each port with every other port terminated in its
    reference impedance (a_j = 0 for j != i)"""
    m = np.asarray(m, dtype=complex)
    z0 = np.asarray(z0, dtype=complex)
    n = m.shape[0]
    st = state_basis(from_type, m, z0)
    v, i, a, b = _functionals(z0)
    A = a @ st
    out = np.zeros(n, dtype=complex)
    for p in range(n):
        e = np.zeros(n, dtype=complex)
        e[p] = 1.0
        c = np.linalg.solve(A, e)
        s = st @ c
        out[p] = (v[p] @ s) / (i[p] @ s)
    return out


def sensitivity(fn, x, trials=3, rel=1e-8, rng=None):
    """entrywise absolute sensitivity of fn at x per unit *relative* entrywise
    perturbation of x (max over a few random perturbations)"""
    rng = rng or np.random.default_rng(12345)
    x = np.asarray(x, dtype=complex)
    y0 = np.asarray(fn(x))
    d = np.zeros(y0.shape)
    # entries that are exactly zero get a perturbation of the size of the
    # largest entry instead: elimination with pivoting is backward stable in
    # the norm, not entry by entry, so a structural zero of the input (a
    # lossless network, uncoupled ports) comes back as rounding noise of
    # that size and structural zeros of the result are not preserved
    scale = float(np.max(np.abs(x))) if x.size else 0.0
    zero = (np.abs(x) <= 1e-10 * scale)
    for _ in range(trials):
        p = rng.standard_normal(x.shape) + 1j * rng.standard_normal(x.shape)
        xp = x * (1.0 + rel * p)
        if scale > 0 and np.any(zero):
            q = rng.standard_normal(x.shape) + 1j * rng.standard_normal(x.shape)
            xp = xp + rel * scale * q * zero
        y = np.asarray(fn(xp))
        with np.errstate(invalid="ignore"):
            d = np.maximum(d, np.abs(y - y0) / rel)
    return y0, d


def margin(out, ref, delta):
    """max over entries of |out-ref| / (eps * (|ref| + delta)); a correct
    implementation stays within a modest multiple of 1"""
    out = np.asarray(out, dtype=complex)
    ref = np.asarray(ref, dtype=complex)
    den = EPS * (np.abs(ref) + delta + 1e-300)
    with np.errstate(invalid="ignore", divide="ignore"):
        r = np.abs(out - ref) / den
    if not np.all(np.isfinite(out)):
        return float("inf")
    return float(np.max(r))
