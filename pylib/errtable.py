"""errtable: the error contract of libvna transcribed from the manual pages
(RETURN VALUE / ERRORS sections of vnacal(3), vnacal_new(3),
vnacal_parameter(3), vnadata(3), vnaproperty(3) and vnaerr(3)) -- never from
the implementation.

Per function:
  fail    the documented failure value: INT (-1), PTR (NULL), REAL (HUGE_VAL),
          CPLX (HUGE_VAL in the real part)
  errfn   MUST   the manual says the function reports failures through the
                 user's error function: exactly one call, one line, before
                 the failing return
          NEVER  documented silent query (vnacal(3) RETURN VALUE, 2nd
                 paragraph), or a function that has no error function at all
          EITHER the manual does not say: zero or one call accepted
  errnos  the errno names the manual lists for the family (None = any system
          errno may appear, e.g. functions that open files); ENOMEM is always
          allowed
  amb     the failure value is also a legitimate result (NULL file name of a
          created vnacal_t, NULL subtree of an empty property root, a NULL
          vector of a 0-port object, a stored infinity ...).  Such an event is
          a failure only if errno was set or the error function was called.

vnaerr(3) fixes the relation between the category passed to the error function
and errno (SYSTEM -> system errno, USAGE -> EINVAL, VERSION -> ENOPROTOOPT,
SYNTAX -> EBADMSG, MATH -> EDOM, INTERNAL -> ENOSYS, WARNING -> nothing) and
the shape of a message: one line without newline; USAGE messages begin with
the name of the libvna function followed by a colon.

A WARNING callback never counts as an error report and is allowed on success.
"""
import math
import re

INT, PTR, REAL, CPLX, NONE = "int", "ptr", "real", "cplx", "none"
MUST, NEVER, EITHER = "must", "never", "either"

CAT_ERRNO = {"USAGE": "EINVAL", "VERSION": "ENOPROTOOPT", "SYNTAX": "EBADMSG",
             "MATH": "EDOM", "INTERNAL": "ENOSYS"}
# categories a family may legitimately use
USAGE_ONLY = frozenset(["USAGE"])


class Spec(object):
    __slots__ = ("fail", "errfn", "errnos", "cats", "amb", "family")

    def __init__(self, fail, errfn, errnos, cats, amb=False, family=""):
        self.fail, self.errfn, self.errnos = fail, errfn, errnos
        self.cats, self.amb, self.family = cats, amb, family


TABLE = {}


def _add(family, names, fail, errfn, errnos, cats=(), amb=False):
    for n in names.split():
        TABLE[n] = Spec(fail, errfn,
                        None if errnos is None else frozenset(errnos),
                        frozenset(cats), amb, family)


# ---------------------------------------------------------------- vnacal(3)
# "vnacal_create, vnacal_load, vnacal_save, vnacal_add_calibration,
#  vnacal_apply and vnacal_apply_m call the provided error function with a
#  single line error message before returning failure"
_add("vnacal", "vnacal_create", PTR, MUST, ["ENOMEM"], ["SYSTEM"])
_add("vnacal", "vnacal_load", PTR, MUST, None,
     ["SYSTEM", "SYNTAX", "VERSION", "USAGE"])
_add("vnacal", "vnacal_save", INT, MUST, None, ["SYSTEM", "USAGE"])
_add("vnacal", "vnacal_add_calibration", INT, MUST, ["EINVAL"], ["USAGE"])
_add("vnacal", "vnacal_apply vnacal_apply_m", INT, MUST, ["EINVAL", "EDOM"],
     ["USAGE", "MATH"])
# "vnacal_find_calibration, vnacal_delete_calibration, all the vnacal_get_*
#  functions and the vnacal_property_* functions set errno and return -1,
#  NULL or HUGE_VAL on failure, but don't invoke the error function"
_add("vnacal-silent", "vnacal_find_calibration vnacal_delete_calibration",
     INT, NEVER, ["EINVAL", "ENOENT"])
_add("vnacal-silent", "vnacal_get_type vnacal_get_rows vnacal_get_columns "
     "vnacal_get_frequencies vnacal_get_calibration_end",
     INT, NEVER, ["EINVAL", "ENOENT"])
_add("vnacal-silent", "vnacal_get_name vnacal_get_frequency_vector",
     PTR, NEVER, ["EINVAL", "ENOENT"])
_add("vnacal-silent", "vnacal_get_filename", PTR, NEVER, ["EINVAL"], amb=True)
_add("vnacal-silent", "vnacal_get_fmin vnacal_get_fmax", REAL, NEVER,
     ["EINVAL", "ENOENT"])
_add("vnacal-silent", "vnacal_get_z0", CPLX, NEVER, ["EINVAL", "ENOENT"])
_add("vnacal-silent", "vnacal_property_type vnacal_property_count "
     "vnacal_property_set vnacal_property_delete", INT, NEVER,
     ["EINVAL", "ENOENT"])
_add("vnacal-silent", "vnacal_property_keys vnacal_property_get "
     "vnacal_property_set_subtree", PTR, NEVER, ["EINVAL", "ENOENT"])
_add("vnacal-silent", "vnacal_property_get_subtree", PTR, NEVER,
     ["EINVAL", "ENOENT"], amb=True)
# in neither list of vnacal(3): either behaviour accepted
_add("vnacal-other", "vnacal_set_fprecision vnacal_set_dprecision",
     INT, EITHER, ["EINVAL"], ["USAGE"])
# no vnacal_t: no error function to call; "returns -1" / nothing about errno
_add("vnacal-other", "vnacal_name_to_type", INT, NEVER, None, amb=True)
_add("vnacal-other", "vnacal_type_to_name", PTR, NEVER, None, amb=True)

# ------------------------------------------------------------ vnacal_new(3)
# "On error, these functions invoke the error_fn ... set errno to one of
#  EDOM / ENOMEM / EINVAL and return failure."
_add("vnacal_new", "vnacal_new_alloc", PTR, MUST, ["EINVAL"], ["USAGE"])
_add("vnacal_new", "vnacal_new_set_frequency_vector vnacal_new_set_z0 "
     "vnacal_new_set_m_error vnacal_new_set_p_tolerance "
     "vnacal_new_set_et_tolerance vnacal_new_set_pvalue_limit "
     "vnacal_new_set_iteration_limit", INT, MUST, ["EINVAL"], ["USAGE"])
_add("vnacal_new", " ".join(
    "vnacal_new_add_%s vnacal_new_add_%s_m" % (n, n) for n in
    ("single_reflect", "double_reflect", "through", "line", "mapped_matrix")),
    INT, MUST, ["EINVAL", "EDOM"], ["USAGE", "MATH"])
_add("vnacal_new", "vnacal_new_solve", INT, MUST, ["EINVAL", "EDOM"],
     ["USAGE", "MATH"])

# ------------------------------------------------------ vnacal_parameter(3)
# "On error, these functions invoke the error_fn ..., set errno to EINVAL or
#  ENOMEM and return failure."
_add("vnacal_parameter", "vnacal_make_scalar_parameter "
     "vnacal_make_vector_parameter vnacal_make_unknown_parameter "
     "vnacal_make_correlated_parameter vnacal_delete_parameter",
     INT, MUST, ["EINVAL"], ["USAGE"])
_add("vnacal_parameter", "vnacal_get_parameter_value", CPLX, MUST, ["EINVAL"],
     ["USAGE"], amb=True)

# ---------------------------------------------------------------- vnadata(3)
# RETURN VALUE: int -> -1, pointer -> NULL, double / double complex ->
# HUGE_VAL; ERRORS: "See vnaerr(3)" (the error function given to
# vnadata_alloc reports the message; category <-> errno as in vnaerr(3)).
_add("vnadata", "vnadata_alloc vnadata_alloc_and_init", PTR, EITHER,
     ["EINVAL"], ["USAGE", "SYSTEM"])
_add("vnadata", "vnadata_init vnadata_resize vnadata_set_type "
     "vnadata_set_frequency vnadata_set_frequency_vector "
     "vnadata_add_frequency vnadata_set_cell vnadata_set_matrix "
     "vnadata_get_to_vector vnadata_set_from_vector vnadata_set_z0 "
     "vnadata_set_all_z0 vnadata_set_z0_vector vnadata_set_fz0 "
     "vnadata_set_fz0_vector vnadata_set_filetype vnadata_set_format "
     "vnadata_set_fprecision vnadata_set_dprecision",
     INT, MUST, ["EINVAL"], ["USAGE"])
_add("vnadata", "vnadata_convert", INT, MUST, ["EINVAL", "EDOM"],
     ["USAGE", "MATH"])
_add("vnadata", "vnadata_get_frequency vnadata_get_fmin vnadata_get_fmax",
     REAL, MUST, ["EINVAL"], ["USAGE"], amb=True)
_add("vnadata", "vnadata_get_cell vnadata_get_z0 vnadata_get_fz0",
     CPLX, MUST, ["EINVAL"], ["USAGE"], amb=True)
_add("vnadata", "vnadata_get_matrix vnadata_get_frequency_vector "
     "vnadata_get_z0_vector vnadata_get_fz0_vector vnadata_get_format "
     "vnadata_get_type_name",
     PTR, MUST, ["EINVAL"], ["USAGE"], amb=True)
_add("vnadata-io", "vnadata_load vnadata_fload", INT, MUST, None,
     ["SYSTEM", "SYNTAX", "VERSION", "USAGE"])
_add("vnadata-io", "vnadata_save vnadata_fsave vnadata_cksave", INT, MUST,
     None, ["SYSTEM", "USAGE"])
# getters that cannot fail on a valid object
_add("vnadata", "vnadata_get_frequencies vnadata_get_rows vnadata_get_columns "
     "vnadata_get_type vnadata_get_filetype vnadata_get_fprecision "
     "vnadata_get_dprecision vnadata_has_fz0", NONE, EITHER, ["EINVAL"],
     ["USAGE"])

# ------------------------------------------------------------- vnaproperty(3)
# no error function argument: nothing to call.  ERRORS: EINVAL, ENOENT, ENOMEM
_add("vnaproperty", "vnaproperty_type vnaproperty_count vnaproperty_set "
     "vnaproperty_set_kv vnaproperty_delete vnaproperty_copy", INT, NEVER,
     ["EINVAL", "ENOENT"])
_add("vnaproperty", "vnaproperty_keys vnaproperty_get "
     "vnaproperty_set_subtree vnaproperty_quote_key", PTR, NEVER,
     ["EINVAL", "ENOENT"])
_add("vnaproperty", "vnaproperty_get_subtree", PTR, NEVER,
     ["EINVAL", "ENOENT"], amb=True)
# "errors found in the input document are reported by calling errfn with a
#  single-line string describing the error"
_add("vnaproperty-io", "vnaproperty_import_yaml_from_string "
     "vnaproperty_import_yaml_from_file", INT, MUST, None,
     ["SYNTAX", "SYSTEM"])
_add("vnaproperty-io", "vnaproperty_export_yaml_to_file", INT, EITHER, None,
     ["SYSTEM"])

# functions with no failure mode / void
_add("void", "vnacal_free vnacal_new_free vnadata_free", NONE, NEVER, [])

# driver-only ops: not API calls
DRIVER_OPS = frozenset("""buf set echo fault iofault errno_preset hash_file write_file read_file unlink proot
 prop_autohash dump_vnadata hash_vnadata dump_property hash_property
 dump_vnacal dump_vnacal_property vnacal_get_parameter_values conv""".split())
# observers built from public calls with *valid* arguments only (plus silent
# queries): the error function must stay quiet while they run
QUIET_OBSERVERS = frozenset(["dump_vnadata", "hash_vnadata", "dump_property",
                             "hash_property", "dump_vnacal",
                             "dump_vnacal_property"])

# documented combinations: a report may name the function the call is
# documented to consist of
ALIASES = {"vnadata_alloc_and_init": ("vnadata_init", "vnadata_alloc"),
           "vnaproperty_set_kv": ("vnaproperty_set",)}

_SYSTEM_ERRNOS_NOT_SYSTEM = frozenset(["EINVAL", "EDOM", "EBADMSG",
                                       "ENOPROTOOPT", "ENOSYS"])
_ident = re.compile(r"^(_?vna[a-z0-9_]+): ")


def is_failure_value(fail, ret):
    if fail == INT:
        return ret == -1
    if fail == PTR:
        return ret is None
    if fail == REAL:
        return isinstance(ret, float) and math.isinf(ret) and ret > 0
    if fail == CPLX:
        return isinstance(ret, list) and len(ret) == 2 and \
            isinstance(ret[0], float) and math.isinf(ret[0]) and ret[0] > 0
    return False


def errors_of(ev):
    """error-function invocations other than warnings"""
    return [c for c in ev.get("cb", ()) if c[0] != "WARNING"]


def failed(ev, known_invalid=False):
    """did this API event report failure?  None for non-API ops."""
    spec = TABLE.get(ev.get("op"))
    if spec is None or "ret" not in ev:
        return None
    if not is_failure_value(spec.fail, ev["ret"]):
        return False
    if spec.amb and not known_invalid:
        return ev.get("errno", "0") != "0" or bool(errors_of(ev))
    return True


def check_event(ev, known_invalid=False, usage_refusal=False):
    """contract violations of one event: list of (what, detail).
    `what` is a stable word; the caller builds the key what:function.
    known_invalid: the generator knows the call is invalid by a documented
    rule.  usage_refusal: ... and the rule is about the arguments (then the
    report must be a USAGE/EINVAL one)."""
    op = ev.get("op")
    out = []
    if "ret" not in ev:
        return out
    cbs = ev.get("cb", [])
    if op in QUIET_OBSERVERS:
        if errors_of(ev):
            out.append(("observer-error-callback",
                        "error function called while only valid getters and "
                        "silent queries ran: %r" % (cbs[:3],)))
        return out
    spec = TABLE.get(op)
    if spec is None:
        return out
    for c in cbs:
        msg = c[1]
        if "\n" in msg or "\r" in msg:
            out.append(("message-not-one-line", "message %r" % (msg,)))
        if msg == "":
            out.append(("message-empty", "empty message, category " + c[0]))
        if c[0] == "UNKNOWN":
            out.append(("category-unknown", "message %r" % (msg,)))
    errs = errors_of(ev)
    f = failed(ev, known_invalid)
    errno = ev.get("errno", "0")
    if not f:
        if known_invalid and spec.fail != NONE:
            out.append(("invalid-accepted", "returned %r" % (ev["ret"],)))
        if errs:
            out.append(("error-callback-on-success",
                        "returned %r (success) after %r" % (ev["ret"],
                                                            errs[:3])))
        return out
    # ---- a failing call
    # The property queries report a null element as "no value" (-1 / NULL)
    # without an error: the project's own test suite (test-vnaproperty-list,
    # step 45) requires errno to stay 0 there, and vnaproperty(3) documents
    # the same convention for get_subtree.  So errno 0 is accepted for them.
    null_ok = ev.get("op", "") in (
        "vnaproperty_type", "vnaproperty_count", "vnaproperty_keys",
        "vnaproperty_get", "vnaproperty_get_subtree",
        "vnacal_property_type", "vnacal_property_count",
        "vnacal_property_keys", "vnacal_property_get",
        "vnacal_property_get_subtree")
    if errno == "0" and not null_ok:
        out.append(("errno-not-set", "returned %r with errno 0" % (ev["ret"],)))
    if spec.errfn == NEVER and errs:
        out.append(("silent-function-called-error-fn", "%r" % (errs[:3],)))
    if spec.errfn == MUST and not errs:
        out.append(("no-error-callback",
                    "failed (errno %s) without calling the error function"
                    % errno))
    if len(errs) > 1:
        out.append(("multiple-error-callbacks", "%d calls: %r" % (
            len(errs), errs[:4])))
    for c in errs[:1]:
        cat, msg = c[0], c[1]
        want = CAT_ERRNO.get(cat)
        if cat == "INTERNAL":
            out.append(("internal-error", "%r" % (msg,)))
        elif want is not None and errno != want:
            out.append(("errno-category-mismatch",
                        "category %s but errno %s (%r)" % (cat, errno, msg)))
        elif cat == "SYSTEM":
            if errno in _SYSTEM_ERRNOS_NOT_SYSTEM:
                out.append(("usage-reported-as-system",
                            "category SYSTEM with errno %s: %r" % (errno, msg)))
            elif "SYSTEM" not in spec.cats and errno != "ENOMEM":
                out.append(("unexpected-category",
                            "SYSTEM/%s from a function that makes no system "
                            "call: %r" % (errno, msg)))
        elif spec.cats and cat not in spec.cats:
            out.append(("unexpected-category", "category %s (%r)" % (cat, msg)))
        if cat == "USAGE":
            m = _ident.match(msg)
            if m is None:
                out.append(("usage-message-without-function", "%r" % (msg,)))
            elif m.group(1) != op and m.group(1) not in ALIASES.get(op, ()):
                out.append(("usage-message-names-other-function",
                            "%s reported as %r" % (op, msg)))
    if spec.errnos is not None and errno not in spec.errnos and \
            errno not in ("0", "ENOMEM"):
        out.append(("errno-class", "errno %s not among the documented %s" % (
            errno, sorted(spec.errnos))))
    if usage_refusal and spec.errfn != NEVER and errno not in ("EINVAL", "0"):
        out.append(("usage-errno", "invalid argument reported as %s" % errno))
    return out
