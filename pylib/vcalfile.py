"""Independent reader / writer of libvna calibration files (.vnacal).

Nothing here calls libvna or mirrors its loader: the YAML text is turned into
a node tree (PyYAML's composer when it can be imported, otherwise the small
reader below for the block/flow subset libyaml emits) and the tree is
interpreted from the layout seen in files and documented in
vnacal_layout.h:

    #VNACal 1.0            (older spellings: "#VNACAL 3.0" = same content,
    %YAML 1.1               "#VNACAL 2.0" = E12 only, `sets:` and one `e`
    ---                     matrix per frequency: e[row][column] = [el,er,em])
    properties: <tree>
    calibrations:
    - name, type, rows, columns, frequencies, z0, properties, data:
      - f: <frequency>
        T8/TE10  ts[r] ti[r] tx[c] tm[c]            (+ el r x c, ~ diagonal)
        U8/UE10  um[r] ui[c] ux[r] us[c]            (+ el r x c, ~ diagonal)
        T16      ts r x p, ti r x p, tx c x p, tm c x p        p = max(r, c)
        U16      um p x r, ui p x c, ux p x r, us p x c
        UE14     um r x c, ui 1 x c, ux p x c, us 1 x c, el r x c (~ diagonal)
                 column k of each = the independent system of driven port k
        E12      el r x c, er r x c, em p x c   (column k = system k)

Numbers are kept both as the exact text token and as Python floats
(float.fromhex for the hexadecimal form, float() otherwise - both exact /
correctly rounded).  predict_m() evaluates the documented equations that give
the measurement M of a device S from the named matrices; it is what gives the
names their meaning (a writer that swaps two matrices consistently with its
reader is exposed by it).
"""
import os
import re
import sys

try:
    if os.environ.get("VCALFILE_NO_PYYAML"):
        raise ImportError("disabled by VCALFILE_NO_PYYAML")
    import yaml as _yaml
except ImportError:                                    # pragma: no cover
    _yaml = None
    for _p in ("/root/.pyenv/versions/3.11.7/lib/python3.11/site-packages",):
        if os.environ.get("VCALFILE_NO_PYYAML"):
            break
        try:
            sys.path.append(_p)
            import yaml as _yaml
            break
        except ImportError:
            _yaml = None
            if _p in sys.path:
                sys.path.remove(_p)

HAVE_PYYAML = _yaml is not None

T_TYPES = ("T8", "TE10", "T16")
TYPE_NAMES = ("T8", "U8", "TE10", "UE10", "T16", "U16", "UE14", "E12")
TYPE_ENUM = {"T8": 0, "U8": 1, "TE10": 2, "UE10": 3, "T16": 4, "U16": 5,
             "UE14": 6, "E12": 8}            # values of vnacal_type_t (vnacal.h)
ENUM_TYPE = {v: k for k, v in TYPE_ENUM.items()}
NULLS = ("~", "null", "Null", "NULL", "")


class FormatError(Exception):
    pass


# ----------------------------------------------------------------------
# node tree
# ----------------------------------------------------------------------
class S(object):
    """scalar node: text + whether it was written plain (unquoted)"""
    __slots__ = ("v", "plain")

    def __init__(self, v, plain=True):
        self.v = v
        self.plain = plain

    def is_null(self):
        return self.plain and self.v in NULLS

    def __eq__(self, o):
        return isinstance(o, S) and o.v == self.v and \
            (o.is_null() == self.is_null())

    def __ne__(self, o):
        return not self.__eq__(o)

    def __repr__(self):
        return "S(%r%s)" % (self.v, "" if self.plain else ",q")


class Seq(list):
    pass


class Map(list):
    """list of (key node, value node)"""

    def get(self, key, default=None):
        for k, v in self:
            if isinstance(k, S) and k.v == key:
                return v
        return default


def _from_pyyaml(node):
    if isinstance(node, _yaml.ScalarNode):
        return S(node.value, not node.style)
    if isinstance(node, _yaml.SequenceNode):
        return Seq(_from_pyyaml(n) for n in node.value)
    if isinstance(node, _yaml.MappingNode):
        return Map((_from_pyyaml(k), _from_pyyaml(v)) for k, v in node.value)
    raise FormatError("unknown YAML node %r" % (node,))


def compose(text, force_fallback=False):
    """YAML text (str) -> node tree"""
    if HAVE_PYYAML and not force_fallback:
        loader = getattr(_yaml, "CSafeLoader", _yaml.SafeLoader)
        try:
            node = _yaml.compose(text, Loader=loader)
        except _yaml.YAMLError as e:
            raise FormatError("YAML: %s" % str(e).replace("\n", " "))
        if node is None:
            return S("", True)
        return _from_pyyaml(node)
    return MiniYaml(text).document()


# ----------------------------------------------------------------------
# small reader for the subset of YAML that libyaml's emitter produces
# ----------------------------------------------------------------------
_DQ_ESC = {"0": "\0", "a": "\a", "b": "\b", "t": "\t", "\t": "\t", "n": "\n",
           "v": "\v", "f": "\f", "r": "\r", "e": "\x1b", " ": " ", '"': '"',
           "/": "/", "\\": "\\", "N": "\u0085", "_": "\u00a0",
           "L": "\u2028", "P": "\u2029"}


class MiniYaml(object):
    def __init__(self, text):
        self.lines = text.split("\n")
        if self.lines and self.lines[-1] == "":
            self.lines.pop()

    # -- helpers
    @staticmethod
    def _ind(line):
        return len(line) - len(line.lstrip(" "))

    def _blank(self, i):
        ln = self.lines[i]
        st = ln.strip(" ")
        return st == "" or st.startswith("#")

    def _skip_blank(self, i):
        while i < len(self.lines) and self._blank(i):
            i += 1
        return i

    def document(self):
        i = 0
        n = len(self.lines)
        while i < n and (self.lines[i].startswith("%") or
                         self.lines[i].startswith("#") or
                         self.lines[i].strip() == ""):
            i += 1
        if i < n and self.lines[i].startswith("---"):
            rest = self.lines[i][3:].strip(" ")
            if rest:
                self.lines[i] = rest
            else:
                i += 1
        end = n
        for k in range(i, n):
            if self.lines[k] == "..." or self.lines[k].startswith("... "):
                end = k
                break
        self.lines = self.lines[:end]
        i = self._skip_blank(i)
        if i >= len(self.lines):
            return S("", True)
        node, j = self.block(i, self._ind(self.lines[i]))
        j = self._skip_blank(j)
        if j < len(self.lines):
            raise FormatError("mini-yaml: trailing content at line %d" % (j + 1))
        return node

    # -- block structure
    def block(self, i, indent):
        """node starting at line i whose content begins at column indent"""
        line = self.lines[i]
        c = line[indent:]
        if c.startswith("- ") or c == "-":
            return self.block_seq(i, indent)
        if c.startswith("? ") or c == "?" or self._key_split(i, indent) \
                is not None:
            return self.block_map(i, indent)
        return self.value(i, indent, indent - 1)

    def block_seq(self, i, indent):
        out = Seq()
        n = len(self.lines)
        while True:
            i = self._skip_blank(i)
            if i >= n:
                break
            line = self.lines[i]
            if self._ind(line) != indent:
                break
            c = line[indent:]
            if not (c.startswith("- ") or c == "-"):
                break
            rest = c[1:]
            if rest.strip(" ") == "" or rest.strip(" ").startswith("#"):
                j = self._skip_blank(i + 1)
                if j < n and self._ind(self.lines[j]) > indent:
                    node, i = self.block(j, self._ind(self.lines[j]))
                else:
                    node, i = S("", True), i + 1
            else:
                k = len(rest) - len(rest.lstrip(" "))
                col = indent + 1 + k
                self.lines[i] = " " * col + rest[k:]
                node, i = self.block_in_seq(i, col, indent)
            out.append(node)
        return out, i

    def block_in_seq(self, i, col, seq_indent):
        c = self.lines[i][col:]
        if c.startswith("- ") or c == "-":
            return self.block_seq(i, col)
        if c.startswith("? ") or c == "?" or \
                self._key_split(i, col) is not None:
            return self.block_map(i, col)
        return self.value(i, col, seq_indent)

    def _quoted_end(self, i, col):
        """end of the quoted scalar that starts at (i, col):
        returns (text, line, column after the closing quote)"""
        q = self.lines[i][col]
        parts = []          # raw pieces per physical line
        cur = []
        li = i
        p = col + 1
        first = True
        while True:
            line = self.lines[li]
            if not first:
                # continuation line: leading blanks are not content
                p = len(line) - len(line.lstrip(" \t"))
            escaped_break = False
            while p < len(line):
                ch = line[p]
                if q == "'":
                    if ch == "'":
                        if line[p + 1:p + 2] == "'":
                            cur.append("'")
                            p += 2
                            continue
                        parts.append((cur, False))
                        return self._fold(parts), li, p + 1
                    cur.append(ch)
                    p += 1
                else:
                    if ch == '"':
                        parts.append((cur, False))
                        return self._fold(parts), li, p + 1
                    if ch == "\\":
                        e = line[p + 1:p + 2]
                        if e == "":
                            escaped_break = True
                            p += 1
                            break
                        if e == "x":
                            cur.append(("\\", chr(int(line[p + 2:p + 4], 16))))
                            p += 4
                        elif e == "u":
                            cur.append(("\\", chr(int(line[p + 2:p + 6], 16))))
                            p += 6
                        elif e == "U":
                            cur.append(("\\", chr(int(line[p + 2:p + 10], 16))))
                            p += 10
                        elif e in _DQ_ESC:
                            cur.append(("\\", _DQ_ESC[e]))
                            p += 2
                        else:
                            raise FormatError("mini-yaml: bad escape \\%s" % e)
                        continue
                    cur.append(ch)
                    p += 1
            # end of physical line inside the scalar
            parts.append((cur, escaped_break))
            cur = []
            first = False
            li += 1
            if li >= len(self.lines):
                raise FormatError("mini-yaml: unterminated quoted scalar")

    @staticmethod
    def _fold(parts):
        """join the physical lines of a flow scalar: blanks before a break
        vanish (leading blanks of the next line were skipped by the caller),
        one break = space, each further (empty) line = newline; an escaped
        break joins directly and keeps the blanks before it"""
        def txt(piece, trim):
            s = []
            keep = 0
            for x in piece:
                if isinstance(x, tuple):
                    s.append(x[1])
                    keep = len(s)
                else:
                    s.append(x)
                    if x not in " \t":
                        keep = len(s)
            return "".join(s[:keep] if trim else s)
        out = []
        n = len(parts)
        empties = 0
        prev_esc = False
        for idx, (piece, esc) in enumerate(parts):
            last = idx == n - 1
            s = txt(piece, trim=(not last and not esc))
            if idx == 0:
                out.append(s)
                prev_esc = esc
                continue
            if s == "" and not last and not esc:
                empties += 1
                continue
            if prev_esc:
                out.append("\n" * empties)
            else:
                out.append(" " if empties == 0 else "\n" * empties)
            out.append(s)
            empties = 0
            prev_esc = esc
        return "".join(out)

    def _key_split(self, i, col):
        """if the line holds `key: rest` from column col on, returns
        (key node, rest string or None, line of rest, col of rest)"""
        line = self.lines[i]
        c = line[col:]
        if c == "":
            return None
        if c[0] in "\"'":
            try:
                text, li, p = self._quoted_end(i, col)
            except (FormatError, ValueError, IndexError):
                return None
            tail = self.lines[li][p:]
            t2 = tail.lstrip(" ")
            if t2.startswith(":") and (len(t2) == 1 or t2[1] == " "):
                off = p + (len(tail) - len(t2)) + 1
                return S(text, False), li, off
            return None
        if c[0] in "[{|>":
            return None
        m = re.search(r":( |$)", c)
        if m is None:
            return None
        hash_ = re.search(r" #", c)
        if hash_ is not None and hash_.start() < m.start():
            return None
        return S(c[:m.start()].rstrip(" "), True), i, col + m.start() + 1

    def block_map(self, i, indent):
        out = Map()
        n = len(self.lines)
        while True:
            i = self._skip_blank(i)
            if i >= n:
                break
            line = self.lines[i]
            if self._ind(line) != indent:
                break
            c = line[indent:]
            if c.startswith("? ") or c == "?":
                k = len(c[1:]) - len(c[1:].lstrip(" "))
                col = indent + 1 + k
                self.lines[i] = " " * col + c[1 + k:]
                key, i = self.block_in_seq(i, col, indent)
                i = self._skip_blank(i)
                if i < n and self._ind(self.lines[i]) == indent and \
                        (self.lines[i][indent:].startswith(": ") or
                         self.lines[i][indent:] == ":"):
                    c2 = self.lines[i][indent:]
                    rest = c2[1:]
                    if rest.strip(" ") == "":
                        val, i = self._child_of_key(i + 1, indent)
                    else:
                        k = len(rest) - len(rest.lstrip(" "))
                        col = indent + 1 + k
                        self.lines[i] = " " * col + rest[k:]
                        val, i = self.block_in_seq(i, col, indent)
                else:
                    val = S("", True)
                out.append((key, val))
                continue
            ks = self._key_split(i, indent)
            if ks is None:
                break
            key, li, off = ks
            rest = self.lines[li][off:]
            if rest.strip(" ") == "" or rest.strip(" ").startswith("#"):
                val, i = self._child_of_key(li + 1, indent)
            else:
                k = len(rest) - len(rest.lstrip(" "))
                val, i = self.value(li, off + k, indent)
            out.append((key, val))
        return out, i

    def _child_of_key(self, j, indent):
        n = len(self.lines)
        j2 = self._skip_blank(j)
        if j2 < n:
            ind2 = self._ind(self.lines[j2])
            c = self.lines[j2][ind2:]
            if ind2 > indent:
                return self.block(j2, ind2)
            if ind2 == indent and (c.startswith("- ") or c == "-"):
                return self.block_seq(j2, indent)
        return S("", True), j

    # -- scalars and flow collections
    def value(self, i, col, parent_indent):
        """a non-block node that starts at (i, col); parent_indent is the
        column of the enclosing block collection"""
        line = self.lines[i]
        c = line[col:]
        ch = c[0]
        if ch in "|>":
            return self.block_scalar(i, col, parent_indent)
        if ch in "[{":
            node, li, p = self.flow(i, col)
            return node, li + 1
        if ch in "\"'":
            text, li, p = self._quoted_end(i, col)
            return S(text, False), li + 1
        # plain scalar, possibly continued on deeper-indented lines
        first = re.sub(r"\s+#.*$", "", c).rstrip(" \t")
        parts = [first]
        j = i + 1
        n = len(self.lines)
        breaks = 0
        while j < n:
            ln = self.lines[j]
            if ln.strip(" \t") == "":
                breaks += 1
                j += 1
                continue
            if self._ind(ln) <= parent_indent:
                break
            t = ln.strip(" \t")
            parts.append(" " if breaks == 0 else "\n" * breaks)
            parts.append(t)
            breaks = 0
            j += 1
        if len(parts) == 1:
            j = i + 1
        else:
            j = j - breaks
        return S("".join(parts), True), j

    def block_scalar(self, i, col, parent_indent):
        hdr = re.sub(r"\s+#.*$", "", self.lines[i][col:]).strip(" ")
        style = hdr[0]
        chomp = "clip"
        explicit = None
        for ch in hdr[1:]:
            if ch == "-":
                chomp = "strip"
            elif ch == "+":
                chomp = "keep"
            elif ch.isdigit():
                explicit = int(ch)
        n = len(self.lines)
        j = i + 1
        body = []
        if explicit is not None:
            cind = max(parent_indent, 0) + explicit
            if parent_indent < 0:
                cind = explicit
        else:
            cind = None
            k = j
            lead_max = 0
            while k < n:
                if self.lines[k].strip(" ") == "":
                    lead_max = max(lead_max, len(self.lines[k]))
                    k += 1
                    continue
                cind = self._ind(self.lines[k])
                break
            if cind is None or cind <= parent_indent:
                cind = max(parent_indent + 1, lead_max)
        while j < n:
            ln = self.lines[j]
            if ln.strip(" ") == "":
                body.append(ln[cind:] if len(ln) > cind else "")
                j += 1
                continue
            if self._ind(ln) < cind:
                break
            body.append(ln[cind:])
            j += 1
        # trailing empty lines belong to the chomping decision
        trail = 0
        while body and body[-1] == "":
            body.pop()
            trail += 1
        if style == "|":
            text = "\n".join(body)
        else:
            text = self._fold_block(body)
        if body:
            if chomp == "clip":
                text += "\n"
            elif chomp == "keep":
                text += "\n" * (trail + 1)
        else:
            text = "\n" * trail if chomp == "keep" else ""
        # lines consumed: the trailing blank lines too
        return S(text, False), j

    @staticmethod
    def _fold_block(body):
        out = []
        i = 0
        n = len(body)
        prev_more = None
        while i < n:
            ln = body[i]
            if ln == "":
                k = i
                while k < n and body[k] == "":
                    k += 1
                cnt = k - i
                nxt_more = k < n and body[k][:1] in (" ", "\t")
                if prev_more or nxt_more or prev_more is None:
                    out.append("\n" * (cnt + (0 if prev_more is None else 1)))
                else:
                    out.append("\n" * cnt)
                i = k
                continue
            more = ln[:1] in (" ", "\t")
            if prev_more is not None and out and not out[-1].endswith("\n"):
                out.append("\n" if (more or prev_more) else " ")
            out.append(ln)
            prev_more = more
            i += 1
        return "".join(out)

    def flow(self, i, col):
        """flow sequence / mapping starting at (i, col) ->
        (node, line, column after the closing bracket)"""
        line = self.lines[i]
        opener = line[col]
        closer = "]" if opener == "[" else "}"
        items = Seq() if opener == "[" else Map()
        li, p = i, col + 1
        key = None
        while True:
            li, p = self._flow_skip(li, p)
            ch = self.lines[li][p]
            if ch == closer:
                if key is not None:
                    items.append((key, S("", True)))
                return items, li, p + 1
            if ch == ",":
                p += 1
                continue
            if ch in "[{":
                node, li, p = self.flow(li, p)
            elif ch in "\"'":
                text, li, p = self._quoted_end(li, p)
                node = S(text, False)
            else:
                node, li, p = self._flow_plain(li, p, opener)
            if opener == "{":
                li2, p2 = self._flow_skip(li, p)
                if key is None:
                    if self.lines[li2][p2] == ":":
                        key = node
                        li, p = li2, p2 + 1
                        continue
                    items.append((node, S("", True)))
                else:
                    items.append((key, node))
                    key = None
            else:
                items.append(node)

    def _flow_skip(self, li, p):
        while True:
            line = self.lines[li]
            while p < len(line) and line[p] in " \t":
                p += 1
            if p < len(line):
                return li, p
            li += 1
            p = 0
            if li >= len(self.lines):
                raise FormatError("mini-yaml: unterminated flow collection")

    def _flow_plain(self, li, p, opener):
        parts = []
        while True:
            line = self.lines[li]
            q = p
            while q < len(line):
                ch = line[q]
                if ch in ",]}" or (ch in "[{" and False):
                    break
                if ch == ":" and opener == "{" and \
                        (q + 1 >= len(line) or line[q + 1] in " ,"):
                    break
                q += 1
            parts.append(line[p:q].strip(" \t"))
            if q < len(line):
                return S(" ".join(x for x in parts if x != ""), True), li, q
            li += 1
            p = 0
            if li >= len(self.lines):
                raise FormatError("mini-yaml: unterminated flow scalar")


# ----------------------------------------------------------------------
# numbers
# ----------------------------------------------------------------------
_HEX_RE = re.compile(r"^[+-]?0[xX]")


def parse_real(tok):
    """exact value of a number token ("1.5e+09", "0x1.8p+3")"""
    t = tok.strip()
    if _HEX_RE.match(t):
        return float.fromhex(t)
    return float(t)


def split_complex(tok):
    """"+1.0e+00 -2.0e-01j" -> ("+1.0e+00", "-2.0e-01")"""
    t = tok.strip().split()
    if len(t) != 2 or t[1][-1:] not in ("j", "J", "i", "I"):
        raise FormatError("not a complex number: %r" % tok)
    return t[0], t[1][:-1]


def parse_complex(tok):
    a, b = split_complex(tok)
    return complex(parse_real(a), parse_real(b))


_DEC_RE = re.compile(r"^[+-]?(\d)(?:\.(\d+))?[eE][+-]?\d+$")


def shown_digits(tok):
    """number of significant figures a decimal "d.ddde+xx" token shows; None
    for any other spelling (hexadecimal, fixed notation ...)"""
    m = _DEC_RE.match(tok.strip())
    if m is None:
        return None
    return 1 + len(m.group(2) or "")


def is_hex(tok):
    return bool(_HEX_RE.match(tok.strip()))


# ----------------------------------------------------------------------
# interpretation
# ----------------------------------------------------------------------
class Cal(object):
    """one calibration as written in the file.

    terms[f][name] / text[f][name]: vector (list) for the diagonal-only
    matrices, matrix (list of rows) otherwise; None marks a `~` cell."""

    def __init__(self):
        self.name = None
        self.type = None
        self.rows = self.cols = self.nfreq = None
        self.z0 = None
        self.z0_text = None
        self.props = None
        self.freqs = []
        self.freq_text = []
        self.terms = []
        self.text = []

    @property
    def ports(self):
        return max(self.rows, self.cols)

    def flat(self, f):
        """[(label, complex)] of every stored term of frequency f"""
        out = []
        for name in sorted(self.terms[f]):
            m = self.terms[f][name]
            for i, row in enumerate(m):
                if isinstance(row, list):
                    for k, z in enumerate(row):
                        if z is not None:
                            out.append(("%s[%d][%d]" % (name, i, k), z))
                elif row is not None:
                    out.append(("%s[%d]" % (name, i), row))
        return out

    def flat_text(self, f):
        out = []
        for name in sorted(self.text[f]):
            m = self.text[f][name]
            for i, row in enumerate(m):
                if isinstance(row, list):
                    for k, z in enumerate(row):
                        if z is not None:
                            out.append(("%s[%d][%d]" % (name, i, k), z))
                elif row is not None:
                    out.append(("%s[%d]" % (name, i), row))
        return out


class CalFile(object):
    def __init__(self):
        self.version_line = None
        self.family = None        # "VNACal" | "VNACAL"
        self.major = self.minor = None
        self.props = None         # node tree or None
        self.cals = []


def expected_shapes(ctype, r, c):
    """name -> (rows, cols) or (n,) of the matrices the type stores, from the
    dimensions documented in vnacal_layout.h"""
    p = max(r, c)
    if ctype in ("T8", "TE10"):
        d = dict(ts=(min(r, p),), ti=(min(r, p),), tx=(min(c, p),),
                 tm=(min(c, p),))
        if ctype == "TE10":
            d["el"] = (r, c)
        return d
    if ctype in ("U8", "UE10"):
        d = dict(um=(min(p, r),), ui=(min(p, c),), ux=(min(p, r),),
                 us=(min(p, c),))
        if ctype == "UE10":
            d["el"] = (r, c)
        return d
    if ctype == "T16":
        return dict(ts=(r, p), ti=(r, p), tx=(c, p), tm=(c, p))
    if ctype == "U16":
        return dict(um=(p, r), ui=(p, c), ux=(p, r), us=(p, c))
    if ctype == "UE14":
        return dict(um=(r, c), ui=(1, c), ux=(p, c), us=(1, c), el=(r, c))
    if ctype == "E12":
        return dict(el=(r, c), er=(r, c), em=(p, c))
    raise FormatError("unknown type %r" % ctype)


NO_DIAGONAL = {("TE10", "el"), ("UE10", "el"), ("UE14", "el")}


def _scalar(node, what):
    if not isinstance(node, S):
        raise FormatError("%s: expected a scalar" % what)
    return node.v


def _cell(node, what, allow_null):
    if not isinstance(node, S):
        raise FormatError("%s: expected a number" % what)
    if allow_null and node.is_null():
        return None, None
    return parse_complex(node.v), node.v


def _matrix(node, shape, what, no_diag):
    if not isinstance(node, Seq):
        raise FormatError("%s: expected a sequence" % what)
    if len(shape) == 1:
        if len(node) != shape[0]:
            raise FormatError("%s: %d terms, expected %d" % (
                what, len(node), shape[0]))
        vals, txt = [], []
        for n in node:
            z, t = _cell(n, what, False)
            vals.append(z)
            txt.append(t)
        return vals, txt
    if len(node) != shape[0]:
        raise FormatError("%s: %d rows, expected %d" % (
            what, len(node), shape[0]))
    vals, txt = [], []
    for i, row in enumerate(node):
        if not isinstance(row, Seq) or len(row) != shape[1]:
            raise FormatError("%s: row %d is not a sequence of %d" % (
                what, i, shape[1]))
        rv, rt = [], []
        for k, n in enumerate(row):
            z, t = _cell(n, what, no_diag and i == k)
            if no_diag and i == k and z is not None:
                raise FormatError("%s: diagonal cell is not ~" % what)
            if z is None and not (no_diag and i == k):
                raise FormatError("%s: ~ outside the diagonal" % what)
            rv.append(z)
            rt.append(t)
        vals.append(rv)
        txt.append(rt)
    return vals, txt


def _old_e(node, r, c, what):
    """#VNACAL 2.0: e[row][column] = [el, er, em]"""
    if not isinstance(node, Seq) or len(node) != r:
        raise FormatError("%s: expected %d rows" % (what, r))
    names = ("el", "er", "em")
    vals = {n: [[None] * c for _ in range(r)] for n in names}
    txt = {n: [[None] * c for _ in range(r)] for n in names}
    for i, row in enumerate(node):
        if not isinstance(row, Seq) or len(row) != c:
            raise FormatError("%s: row %d: expected %d columns" % (what, i, c))
        for k, cell in enumerate(row):
            if not isinstance(cell, Seq) or len(cell) != 3:
                raise FormatError("%s: cell is not [el, er, em]" % what)
            for t, n in enumerate(names):
                z, tx = _cell(cell[t], what, False)
                vals[n][i][k] = z
                txt[n][i][k] = tx
    return vals, txt


def parse_version(line):
    m = re.match(r"^#(VNACal|VNACAL) (\d+)\.(\d+)\s*$", line)
    if m is None:
        raise FormatError("bad version line %r" % line)
    return m.group(1), int(m.group(2)), int(m.group(3))


def read_text(text, force_fallback=False):
    """.vnacal text (str, already decoded as UTF-8) -> CalFile"""
    nl = text.find("\n")
    if nl < 0:
        raise FormatError("no version line")
    cf = CalFile()
    cf.version_line = text[:nl]
    cf.family, cf.major, cf.minor = parse_version(cf.version_line)
    old2 = cf.family == "VNACAL" and cf.major == 2
    if cf.family == "VNACAL" and cf.major not in (2, 3):
        raise FormatError("unsupported legacy version %s" % cf.version_line)
    root = compose(text[nl + 1:], force_fallback)
    if not isinstance(root, Map):
        raise FormatError("top level is not a mapping")
    pr = root.get("properties")
    cf.props = None if (pr is None or (isinstance(pr, S) and pr.is_null())) \
        else pr
    cals = root.get("calibrations")
    if cals is None and old2:
        cals = root.get("sets")
    if cals is None:
        raise FormatError("no calibrations")
    if isinstance(cals, S) and cals.is_null():
        cals = Seq()
    if not isinstance(cals, Seq):
        raise FormatError("calibrations is not a sequence")
    for ci, cn in enumerate(cals):
        if not isinstance(cn, Map):
            raise FormatError("calibration %d is not a mapping" % ci)
        cal = Cal()
        cal.name = _scalar(cn.get("name"), "name")
        tn = cn.get("type")
        if tn is None:
            if not old2:
                raise FormatError("calibration %d has no type" % ci)
            cal.type = "E12"
        else:
            cal.type = _scalar(tn, "type").upper()
        if cal.type not in TYPE_NAMES:
            raise FormatError("unknown type %r" % cal.type)
        cal.rows = int(_scalar(cn.get("rows"), "rows"))
        cal.cols = int(_scalar(cn.get("columns"), "columns"))
        cal.nfreq = int(_scalar(cn.get("frequencies"), "frequencies"))
        zn = cn.get("z0")
        if zn is None:
            cal.z0, cal.z0_text = None, None
        else:
            cal.z0_text = _scalar(zn, "z0")
            cal.z0 = parse_complex(cal.z0_text)
        pn = cn.get("properties")
        cal.props = None if (pn is None or (isinstance(pn, S) and
                                            pn.is_null())) else pn
        data = cn.get("data")
        if isinstance(data, S) and data.is_null():
            data = Seq()
        if not isinstance(data, Seq):
            raise FormatError("data of calibration %d is not a sequence" % ci)
        if len(data) != cal.nfreq:
            raise FormatError("calibration %d: %d data entries, frequencies "
                              "says %d" % (ci, len(data), cal.nfreq))
        shapes = expected_shapes(cal.type, cal.rows, cal.cols)
        for fi, fn in enumerate(data):
            if not isinstance(fn, Map):
                raise FormatError("data entry is not a mapping")
            ft = _scalar(fn.get("f"), "f")
            cal.freq_text.append(ft)
            cal.freqs.append(parse_real(ft))
            what = "calibration %d frequency %d " % (ci, fi)
            if old2:
                vals, txt = _old_e(fn.get("e"), cal.rows, cal.cols, what + "e")
            else:
                vals, txt = {}, {}
                for name, shape in shapes.items():
                    mn = fn.get(name)
                    if mn is None:
                        raise FormatError(what + "lacks " + name)
                    vals[name], txt[name] = _matrix(
                        mn, shape, what + name, (cal.type, name) in NO_DIAGONAL)
                extra = [k.v for k, _ in fn if isinstance(k, S) and
                         k.v != "f" and k.v not in shapes]
                if extra:
                    raise FormatError(what + "has unexpected entries %s" % extra)
            cal.terms.append(vals)
            cal.text.append(txt)
        cf.cals.append(cal)
    return cf


def read_bytes(data, force_fallback=False):
    return read_text(data.decode("utf-8"), force_fallback)


# ----------------------------------------------------------------------
# property trees <-> the driver's dump format
# ----------------------------------------------------------------------
def props_to_dump(node):
    """node tree -> the structure dump_property prints (strings are the
    latin-1 decoding of the UTF-8 bytes, like the event log)"""
    if node is None:
        return None
    if isinstance(node, S):
        if node.is_null():
            return None
        return node.v.encode("utf-8").decode("latin-1")
    if isinstance(node, Seq):
        return {"l": [props_to_dump(n) for n in node]}
    out = []
    for k, v in node:
        out.append(k.v.encode("utf-8").decode("latin-1")
                   if isinstance(k, S) else "?")
        out.append(props_to_dump(v))
    return {"m": out}


# ----------------------------------------------------------------------
# writer (legacy spellings and re-spelt current files)
# ----------------------------------------------------------------------
def _dq(s):
    out = ['"']
    for ch in s:
        o = ord(ch)
        if ch == '"':
            out.append('\\"')
        elif ch == "\\":
            out.append("\\\\")
        elif ch == "\n":
            out.append("\\n")
        elif ch == "\t":
            out.append("\\t")
        elif ch == "\r":
            out.append("\\r")
        elif o < 0x20 or o == 0x7f or (0x80 <= o < 0xa0):
            out.append("\\x%02x" % o)
        elif o in (0x2028, 0x2029, 0xfeff) or (0xd800 <= o < 0xe000) \
                or o in (0xfffe, 0xffff):
            out.append("\\u%04x" % o)
        else:
            out.append(ch)
    out.append('"')
    return "".join(out)


def _emit_props(node, ind, out, inline_key):
    """block-style emission; every scalar double-quoted except nulls"""
    pad = " " * ind
    if node is None:
        out.append("%s ~\n" % inline_key)
    elif isinstance(node, S) and node.is_null():
        # keep the spelling: an empty plain scalar and ~ are both null in
        # YAML 1.1 but a reader may tell them apart
        out.append(("%s %s" % (inline_key, node.v)).rstrip(" ") + "\n")
    elif isinstance(node, S):
        out.append("%s %s\n" % (inline_key, _dq(node.v)))
    elif isinstance(node, Seq):
        if not node:
            out.append("%s []\n" % inline_key)
            return
        out.append("%s\n" % inline_key)
        for n in node:
            _emit_props(n, ind + 2, out, pad + "-")
    else:
        if not node:
            out.append("%s {}\n" % inline_key)
            return
        out.append("%s\n" % inline_key)
        for k, v in node:
            _emit_props(v, ind + 2, out, "%s  %s:" % (pad, _dq(k.v)))


def _emit_matrix(name, txt, ind, out, flow):
    pad = " " * ind

    def tok(t):
        return "~" if t is None else t
    if txt and not isinstance(txt[0], list):
        if flow:
            out.append("%s%s: [%s]\n" % (pad, name, ", ".join(tok(t)
                                                               for t in txt)))
        else:
            out.append("%s%s:\n" % (pad, name))
            for t in txt:
                out.append("%s- %s\n" % (pad, tok(t)))
        return
    out.append("%s%s:\n" % (pad, name))
    for row in txt:
        if flow:
            out.append("%s- [%s]\n" % (pad, ", ".join(tok(t) for t in row)))
        else:
            for k, t in enumerate(row):
                out.append("%s%s %s\n" % (pad, "- -" if k == 0 else "  -",
                                          tok(t)))


def write_text(cf, version="VNACal 1.0", flow=False, only=None):
    """CalFile -> text.  version: "VNACal 1.0" | "VNACAL 3.0" | "VNACAL 2.0"
    (the last: E12 calibrations only, old `sets:` / `e` layout, no property
    trees).  Number tokens are written exactly as they were read.
    only: indices of the calibrations to write (default all that fit)."""
    old2 = version.startswith("VNACAL 2")
    out = ["#%s\n%%YAML 1.1\n---\n" % version]
    if not old2:
        _emit_props(cf.props, 0, out, "properties:")
    cals = [c for i, c in enumerate(cf.cals)
            if (only is None or i in only) and (not old2 or c.type == "E12")]
    key = "sets" if old2 else "calibrations"
    if not cals:
        out.append("%s: []\n" % key)
        return "".join(out)
    out.append("%s:\n" % key)
    for cal in cals:
        out.append("- name: %s\n" % _dq(cal.name))
        if not old2:
            out.append("  type: %s\n" % cal.type)
        out.append("  rows: %d\n  columns: %d\n  frequencies: %d\n" % (
            cal.rows, cal.cols, cal.nfreq))
        if cal.z0_text is not None:
            out.append("  z0: %s\n" % cal.z0_text)
        if not old2:
            _emit_props(cal.props, 2, out, "  properties:")
        if not cal.freq_text:
            out.append("  data: []\n")
            continue
        out.append("  data:\n")
        for fi in range(len(cal.freq_text)):
            out.append("  - f: %s\n" % cal.freq_text[fi])
            txt = cal.text[fi]
            if old2:
                out.append("    e:\n")
                for i in range(cal.rows):
                    for k in range(cal.cols):
                        lead = "    - - - " if k == 0 else "      - - "
                        out.append("%s%s\n" % (lead, txt["el"][i][k]))
                        out.append("        - %s\n" % txt["er"][i][k])
                        out.append("        - %s\n" % txt["em"][i][k])
            else:
                for name in expected_shapes(cal.type, cal.rows, cal.cols):
                    _emit_matrix(name, txt[name], 4, out, flow)
    return "".join(out)


# ----------------------------------------------------------------------
# meaning of the named matrices (vnacal_layout.h block comments)
# ----------------------------------------------------------------------
def _np():
    import numpy as np
    return np


def _diag(vec, rows, cols):
    np = _np()
    m = np.zeros((rows, cols), dtype=complex)
    for i, z in enumerate(vec):
        m[i, i] = z
    return m


def _full(mat):
    np = _np()
    return np.array([[0 if z is None else z for z in row] for row in mat],
                    dtype=complex)


def predict_m(cal, f, Smat):
    """r x c measurement of a device with p x p scattering matrix Smat
    predicted by the error terms of frequency index f.

      T:    Ts S + Ti = M (Tx S + Tm)        (+ El off the diagonal for TE10)
      U:    (Um - S Ux) M = S Us - Ui        (+ El off the diagonal for UE10)
      UE14: the U equation per driven column k with its own diagonal
            Um, Ux and the k-th elements of Ui, Us;  + El(:,k)
      E12:  M(:,k) = El(:,k) + Er_k S (I - Em_k S)^-1 e_k
    """
    np = _np()
    t = cal.terms[f]
    r, c, p = cal.rows, cal.cols, cal.ports
    Smat = np.asarray(Smat, dtype=complex)
    if cal.type in T_TYPES:
        if cal.type == "T16":
            Ts, Ti, Tx, Tm = (_full(t[n]) for n in ("ts", "ti", "tx", "tm"))
        else:
            Ts, Ti = _diag(t["ts"], r, p), _diag(t["ti"], r, p)
            Tx, Tm = _diag(t["tx"], c, p), _diag(t["tm"], c, p)
        M = (Ts @ Smat + Ti) @ np.linalg.inv(Tx @ Smat + Tm)
        if cal.type == "TE10":
            M = M + _full(t["el"])
        return M
    if cal.type in ("U8", "UE10", "U16"):
        if cal.type == "U16":
            Um, Ui, Ux, Us = (_full(t[n]) for n in ("um", "ui", "ux", "us"))
        else:
            Um, Ui = _diag(t["um"], p, r), _diag(t["ui"], p, c)
            Ux, Us = _diag(t["ux"], p, r), _diag(t["us"], p, c)
        M = np.linalg.solve(Um - Smat @ Ux, Smat @ Us - Ui)
        if cal.type == "UE10":
            M = M + _full(t["el"])
        return M
    if cal.type == "UE14":
        M = np.zeros((r, c), dtype=complex)
        el = _full(t["el"])
        for k in range(c):
            Um = _diag([t["um"][i][k] for i in range(r)], p, r)
            Ux = _diag([t["ux"][i][k] for i in range(p)][:r], p, r)
            Ui = np.zeros(p, dtype=complex)
            Ui[k] = t["ui"][0][k]
            Us = np.zeros(p, dtype=complex)
            Us[k] = t["us"][0][k]
            M[:, k] = np.linalg.solve(Um - Smat @ Ux, Smat @ Us - Ui) + el[:, k]
        return M
    if cal.type == "E12":
        M = np.zeros((r, c), dtype=complex)
        I = np.eye(p)
        for k in range(c):
            Er = _diag([t["er"][i][k] for i in range(r)], r, p)
            Em = _diag([t["em"][i][k] for i in range(p)], p, p)
            ek = np.zeros(p, dtype=complex)
            ek[k] = 1.0
            el = np.array([t["el"][i][k] for i in range(r)], dtype=complex)
            M[:, k] = el + Er @ Smat @ np.linalg.solve(I - Em @ Smat, ek)
        return M
    raise FormatError("unknown type")


def apply_residual(cal, f, Smat, M):
    """residual of the measurement equations for the device Smat and the
    p x p matrix M handed to vnacal_apply_m.  Square calibrations: predicted
    minus given.  2x1 and 1x2 calibrations take the 2x2 matrix of a forward
    and a reverse measurement of the two-port:
      2x1: [[m11, m21'], [m21, m11']]     1x2: [[m11, m12], [m12', m11']]
    (primes: device turned around)"""
    np = _np()
    r, c = cal.rows, cal.cols
    if r == c:
        return (predict_m(cal, f, Smat) - M).reshape(-1)
    P = np.array([[0, 1], [1, 0]])
    Mf = predict_m(cal, f, Smat)
    Mr = predict_m(cal, f, P @ Smat @ P)
    if (r, c) == (2, 1):
        return np.array([Mf[0, 0] - M[0, 0], Mf[1, 0] - M[1, 0],
                         Mr[1, 0] - M[0, 1], Mr[0, 0] - M[1, 1]])
    if (r, c) == (1, 2):
        return np.array([Mf[0, 0] - M[0, 0], Mf[0, 1] - M[0, 1],
                         Mr[0, 1] - M[1, 0], Mr[0, 0] - M[1, 1]])
    raise FormatError("apply is not defined for %dx%d" % (r, c))


def solve_s(cal, f, M, start=None):
    """S of the device that measures as M: Newton iteration on the documented
    forward equations (predict_m); None when it does not converge"""
    np = _np()
    p = cal.ports
    M = np.asarray(M, dtype=complex)
    S0 = np.zeros((p, p), dtype=complex) if start is None else \
        np.array(start, dtype=complex).reshape(p, p)
    h = 1e-7
    for _ in range(40):
        try:
            F0 = apply_residual(cal, f, S0, M)
            if not np.all(np.isfinite(F0)):
                return None
            if np.max(np.abs(F0)) < 1e-13:
                return S0
            J = np.zeros((p * p, p * p), dtype=complex)
            for a in range(p * p):
                d = np.zeros(p * p, dtype=complex)
                d[a] = h
                J[:, a] = (apply_residual(cal, f, S0 + d.reshape(p, p), M) -
                           F0) / h
            step = np.linalg.solve(J, F0)
        except np.linalg.LinAlgError:
            return None
        S0 = S0 - step.reshape(p, p)
    return None


# ----------------------------------------------------------------------
# self test of the two readers against each other
# ----------------------------------------------------------------------
def same_tree(a, b):
    if type(a) is not type(b):
        return False
    if isinstance(a, S):
        return a.v == b.v and (a.plain == b.plain or not a.is_null()
                               and not b.is_null())
    if isinstance(a, Seq):
        return len(a) == len(b) and all(same_tree(x, y) for x, y in zip(a, b))
    return len(a) == len(b) and all(
        same_tree(k1, k2) and same_tree(v1, v2)
        for (k1, v1), (k2, v2) in zip(a, b))


def readers_agree(text):
    """True / False / None (PyYAML not importable)"""
    if not HAVE_PYYAML:
        return None
    nl = text.find("\n")
    body = text[nl + 1:]
    a = compose(body)
    try:
        b = compose(body, force_fallback=True)
    except (FormatError, IndexError, ValueError):
        return False
    return same_tree(a, b)


if __name__ == "__main__":
    for path in sys.argv[1:]:
        data = open(path, "rb").read()
        cf = read_bytes(data)
        print(path, cf.version_line, "cals:", [
            (c.name, c.type, c.rows, c.cols, c.nfreq) for c in cf.cals],
            "readers agree:", readers_agree(data.decode("utf-8")))
