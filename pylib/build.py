#!/usr/bin/env python3
"""Build the libvna sources of $VERIF_REPO (default /repo) plus the driver
into /verif/build/<variant>[-<tag>]/vnadrv.

Always compiles from the repository's *current working tree*: a generated
Makefile with -MMD dependency files makes the rebuild incremental but
complete (any edited .c or .h is recompiled).  An flock serialises
concurrent checks.

variants:
  asan   clang -O1 -g -fsanitize=address,undefined (recoverable; runtime
         options decide halt/continue) -- the primary monitor build
  gasan  the same with gcc 12 (+ bounds-strict): second opinion in C03
  plain  gcc -O1 -g                     (valgrind memcheck, timing)
  fi     asan + forced include of harness/failalloc.h  (allocation faults)
  cov    gcc -O0 --coverage             (tools/coverage.sh)
"""
import fcntl
import hashlib
import os
import re
import subprocess
import sys

VERIF = os.path.dirname(os.path.dirname(os.path.abspath(__file__)))
REPO = os.environ.get("VERIF_REPO", "/repo")
GUARD = "LIBVNA_VERIF"

COMMON = ["-std=gnu11", "-g", "-fno-omit-frame-pointer", "-D_GNU_SOURCE",
          "-DHAVE_CONFIG_H", "-D" + GUARD + "=1", "-Wno-error", "-w"]
# Primary sanitizer build: clang 14.  Its ASan instruments loads and stores of
# _Complex values, which gcc 12 does not (an over-read of a double complex
# array -- most of this library's data -- is invisible to the gcc build).
# vla-bound stays on; zero-length VLAs are filtered in runner.parse_reports.
SAN = ["-O1", "-fsanitize=address,undefined", "-fsanitize-recover=all",
       "-fno-sanitize=float-divide-by-zero,nonnull-attribute,function",
       "-fsanitize=float-cast-overflow"]
# Second opinion: gcc 12 (bounds-strict; different stack layout and inlining)
GSAN = ["-O1", "-fsanitize=address,undefined", "-fsanitize-recover=all",
        "-fno-sanitize=float-divide-by-zero", "-fsanitize=float-cast-overflow",
        "-fsanitize=bounds-strict", "-fno-sanitize=nonnull-attribute"]
VARIANTS = {
    "asan": SAN,
    "gasan": GSAN,
    "plain": ["-O1"],
    "fi": SAN + ["-DVERIF_FAILALLOC=1"],
    "cov": ["-O0", "--coverage", "-DVERIF_FAILALLOC=1"],
}
COMPILER = {"asan": "clang", "fi": "clang"}


def lib_sources(repo):
    """Source list of libvna_la_SOURCES from src/Makefile.am."""
    text = open(os.path.join(repo, "src", "Makefile.am")).read()
    text = text.replace("\\\n", " ")
    m = re.search(r"^libvna_la_SOURCES\s*=\s*(.*)$", text, re.M)
    if not m:
        raise SystemExit("build.py: cannot find libvna_la_SOURCES")
    srcs = [w for w in m.group(1).split() if w.endswith(".c")]
    return [s for s in srcs if os.path.exists(os.path.join(repo, "src", s))]


def build_dir(variant, repo=None):
    repo = repo or REPO
    tag = "" if os.path.realpath(repo) == "/repo" else \
        "-" + hashlib.sha1(os.path.realpath(repo).encode()).hexdigest()[:10]
    return os.path.join(VERIF, "build", variant + tag)


def conv_functions(repo=None):
    """[(name, kind)] of the vnaconv functions declared in vnaconv.h; kind as
    in the driver's table: K22 / K22Z (2x2, without / with z0), K2I (2x2 ->
    input impedances), KN / KNZ / KNI (n x n)"""
    repo = repo or REPO
    text = open(os.path.join(repo, "src", "vnaconv.h")).read()
    text = re.sub(r"/\*.*?\*/", "", text, flags=re.S)
    text = " ".join(text.split())
    rows = []
    for m in re.finditer(r"extern void (vnaconv_\w+)\(([^;]*)\);", text):
        name, args = m.group(1), m.group(2)
        a = [x.strip() for x in args.split(",")]
        has_z0 = any("z0" in x for x in a)
        has_n = any(x.startswith("int ") for x in a)
        two = "(*" in a[0]
        zin = name.endswith("zi") or name.endswith("zin")
        if two and not zin:
            kind = "K22Z" if has_z0 else "K22"
        elif two and zin:
            kind = "K2I"
        elif has_n and zin:
            kind = "KNI"
        elif has_n:
            kind = "KNZ" if has_z0 else "KN"
        else:
            continue
        rows.append((name, kind))
    return rows


def gen_conv_table(repo, out):
    """Generate the vnaconv dispatch table from the repository's vnaconv.h."""
    text = open(os.path.join(repo, "src", "vnaconv.h")).read()
    text = re.sub(r"/\*.*?\*/", "", text, flags=re.S)
    text = " ".join(text.split())
    rows = []
    for m in re.finditer(r"extern void (vnaconv_\w+)\(([^;]*)\);", text):
        name, args = m.group(1), m.group(2)
        a = [x.strip() for x in args.split(",")]
        has_z0 = any("z0" in x for x in a)
        has_n = any(x.startswith("int ") for x in a)
        two = "(*" in a[0]
        out_vec = "(*" not in a[1] and not has_n and two  # 2x2 -> zi vector
        zin = name.endswith("zi") or name.endswith("zin")
        if two and not zin:
            kind = "K22Z" if has_z0 else "K22"
        elif two and zin:
            kind = "K2I"
        elif has_n and zin:
            kind = "KNI"
        elif has_n:
            kind = "KNZ" if has_z0 else "KN"
        else:
            continue
        rows.append('    {"%s", %s, (void (*)(void))%s},' % (name, kind, name))
    with open(out + ".tmp", "w") as f:
        f.write("/* generated from vnaconv.h by build.py */\n")
        f.write("\n".join(rows) + "\n")
    if not os.path.exists(out) or open(out).read() != open(out + ".tmp").read():
        os.replace(out + ".tmp", out)
    else:
        os.unlink(out + ".tmp")


def gen_ops_list(hs, out):
    names = []
    for f in sorted(os.listdir(hs)):
        if (f.startswith("ops_") or f.startswith("opsx_")) and \
                f.endswith(".inc") and f != "ops_list.inc":
            text = open(os.path.join(hs, f)).read()
            names += re.findall(r"^static void op_([a-z_0-9]+)\(ctx_t", text,
                                re.M)
            names += re.findall(r"^(?:VD_GETI|VC_GETI|VN_SETR)\((\w+)\)", text,
                                re.M)
    extra = "".join('#include "%s"\n' % f for f in sorted(os.listdir(hs))
                    if f.startswith("opsx_") and f.endswith(".inc"))
    xo = os.path.join(os.path.dirname(out), "opsx_all.inc")
    if not os.path.exists(xo) or open(xo).read() != extra:
        open(xo, "w").write(extra)
    text = "".join("OP(%s)\n" % n for n in names)
    if not os.path.exists(out) or open(out).read() != text:
        open(out, "w").write(text)


def build(variant, repo=None, quiet=True):
    repo = repo or REPO
    if variant not in VARIANTS:
        raise SystemExit("unknown variant " + variant)
    if os.environ.get("VERIF_ASAN_GCC") and variant == "asan":
        variant = "gasan"      # occasional sweep with gcc's ASan instead
    if os.environ.get("VERIF_COVERAGE") and variant in ("asan", "plain", "fi",
                                                        "gasan"):
        variant = "cov"        # tools/coverage.sh: line coverage of the checks
    bdir = build_dir(variant, repo)
    os.makedirs(bdir, exist_ok=True)
    lock = open(os.path.join(bdir, ".lock"), "w")
    fcntl.flock(lock, fcntl.LOCK_EX)
    try:
        srcs = lib_sources(repo)
        flags = COMMON + VARIANTS[variant]
        inc = ["-I" + bdir, "-I" + os.path.join(VERIF, "harness")]
        if os.path.exists(os.path.join(repo, "config.h")):
            inc.append("-I" + repo)
        else:
            inc.append("-I" + os.path.join(VERIF, "harness", "fallback"))
        inc.append("-I" + os.path.join(repo, "src"))
        libflags = list(flags)
        if variant in ("fi", "cov"):
            libflags += ["-include",
                         os.path.join(VERIF, "harness", "failalloc.h")]
        gen_conv_table(repo, os.path.join(bdir, "conv_table.inc"))
        hs = os.path.join(VERIF, "harness")
        gen_ops_list(hs, os.path.join(bdir, "ops_list.inc"))
        drv = ["vnadrv.c", "failalloc.c", "failio.c"]
        peek = os.path.join(hs, "peek.c")
        mk = []
        objs = []
        mk.append("CC=" + COMPILER.get(variant, "gcc"))
        mk.append("all: vnadrv")
        for s in srcs:
            o = "lib_" + s[:-2] + ".o"
            objs.append(o)
            mk.append("%s: %s\n\t$(CC) %s %s -MMD -MP -c -o $@ $<" % (
                o, os.path.join(repo, "src", s), " ".join(libflags),
                " ".join(inc)))
        for s in drv:
            o = "drv_" + s[:-2] + ".o"
            objs.append(o)
            mk.append("%s: %s conv_table.inc ops_list.inc opsx_all.inc $(wildcard %s/*.inc)\n\t$(CC) %s %s -MMD -MP -c -o $@ $<"
                      % (o, os.path.join(hs, s), hs, " ".join(flags),
                         " ".join(inc)))
        # peek.c is optional: it uses internal headers and may not compile
        # against a refactored tree.
        mk.append("peek.o: %s\n\t$(CC) %s %s -MMD -MP -c -o peek.o.tmp %s "
                  "2>peek.err && mv peek.o.tmp peek.o || "
                  "$(CC) %s %s -DPEEK_STUB -c -o peek.o %s" % (
                      peek, " ".join(flags), " ".join(inc), peek,
                      " ".join(flags), " ".join(inc), peek))
        objs.append("peek.o")
        # link to a temporary name and rename: a running driver keeps its
        # old image and never sees ETXTBSY / a half-written file
        mk.append("vnadrv: %s\n\t$(CC) %s -o $@.tmp %s -lyaml -lm && "
                  "mv -f $@.tmp $@" % (
                      " ".join(objs), " ".join(flags), " ".join(objs)))
        mk.append("-include $(wildcard *.d)")
        mtext = "\n".join(mk) + "\n"
        mpath = os.path.join(bdir, "Makefile")
        if not os.path.exists(mpath) or open(mpath).read() != mtext:
            # flag or source-list change: rebuild everything
            for f in os.listdir(bdir):
                if f.endswith(".o") or f.endswith(".d") or f == "vnadrv":
                    os.unlink(os.path.join(bdir, f))
            open(mpath, "w").write(mtext)
        r = subprocess.run(["make", "-C", bdir, "-j16", "-s"],
                           stdout=subprocess.PIPE, stderr=subprocess.STDOUT,
                           text=True)
        if r.returncode != 0:
            sys.stderr.write(r.stdout[-4000:])
            raise SystemExit(2)
        return os.path.join(bdir, "vnadrv")
    finally:
        fcntl.flock(lock, fcntl.LOCK_UN)
        lock.close()


if __name__ == "__main__":
    vs = sys.argv[1:] or ["asan"]
    if vs == ["all"]:
        vs = ["asan", "plain", "fi"]
    for v in vs:
        print(build(v))
