"""Workload of the I/O-fault family (C11, C03): every function of libvna
that writes or reads a file runs once under a persistent stdio fault
(harness/failio.c: disk full after N bytes, read error after N bytes, failing
close, failing open) and is then used again without the fault.

Each case is one script; `judge()` is the oracle.  What is asserted (and not
more; the manuals say "returns -1 on error" and vnaerr(3) "SYSTEM ... errno
set by the failing system call"):

  * a write / close / open fault that fired inside vnadata_save or
    vnacal_save (the functions that own the stream from fopen to fclose)
    makes the call fail: -1, one SYSTEM report, a system errno;
    for the f* functions (caller owns the stream) and for read faults the
    outcome is free, but a reported failure must follow the contract;
  * afterwards the object is usable: getters answer, the same save repeated
    without the fault succeeds and writes byte for byte the file an
    undisturbed save of the same object wrote before; a destination of a
    failed load can be re-initialised, filled, saved and loaded;
  * no sanitizer report, no leak (runner.standard_violations).
"""
import numpy as np

import calgen
import physics
from runner import Script, cx, hx, qs

PROP_OPS_PATH = ("vnadata_save", "vnacal_save")     # own fopen .. fclose


def pick_budget(rng):
    k = rng.integers(0, 10)
    if k < 3:
        return int(rng.integers(0, 80))
    if k < 7:
        # around stdio buffer boundaries
        return max(0, int(rng.choice([4096, 8192, 12288, 16384, 24576, 32768])
                          + rng.integers(-2, 3)))
    return int(10 ** rng.uniform(1.5, 5.3))


def pick_fault(rng, kinds, ref=None):
    """ref: a file of about the size that will be transferred; half of the
    byte budgets are drawn relative to it (anywhere in the file)"""
    kind = str(rng.choice(kinds))
    if kind in "wr":
        if ref is not None and rng.random() < 0.5:
            return "%s %d %s" % (kind, int(rng.integers(0, 1040)), qs(ref))
        return "%s %d" % (kind, pick_budget(rng))
    return kind


def _fill_vnadata(s, rng, vd="vd"):
    t = str(rng.choice(["S", "Z", "Y", "T", "H", "S", "S"]))
    n = 2 if t in "TH" else int(rng.choice([1, 2, 2, 3, 4]))
    F = int(rng.choice([1, 3, 20, 60, 150, 400]))
    s.op("%s=vnadata_alloc" % vd)
    s.op("vnadata_init $%s %s %d %d %d" % (vd, t, n, n, F))
    fr = np.cumsum(rng.uniform(1e6, 1e8, F)) + 1e9
    s.rvec("fr", list(fr))
    s.op("vnadata_set_frequency_vector $%s @fr" % vd)
    for f in range(min(F, 12)):
        s.op("vnadata_set_matrix $%s %d auto" % (vd, f))
    z0c = rng.random() < 0.3
    ext = str(rng.choice([".npd", ".ts", ".s%dp" % n if n <= 4 else ".ts",
                          ".npd"]))
    if t in "TH" or ext.startswith(".s") and t not in "SZYHG":
        ext = ".npd"
    if z0c:
        # complex reference impedances only where the file type has them
        s.op("vnadata_set_z0 $%s 0 %s" % (vd, cx(
            complex(75, -1.5) if ext == ".npd" else 75.0)))
    if rng.random() < 0.3:
        s.op("vnadata_set_dprecision $%s %d" % (vd, int(rng.choice([3, 9, 17]))))
    if rng.random() < 0.5:
        # a format the caller chose, half of the time without a parameter
        # letter (it then follows the object's type)
        fm = str(rng.choice(["ri", "ma", "dB", t + "ri", t + "ma"]))
        s.op("vnadata_set_format $%s %s" % (vd, qs(fm)))
    return t, n, F, ext


def case_vnadata_save(rng, fsave=False):
    s = Script()
    L = dict(kind="vnadata_fsave" if fsave else "vnadata_save", after=[])
    t, n, F, ext = _fill_vnadata(s, rng)
    op = "vnadata_fsave" if fsave else "vnadata_save"
    L["base"] = s.op("%s $vd \"base%s\"" % (op, ext))
    L["hbase"] = s.op("hash_file \"base%s\"" % ext)
    L["before"] = s.op("dump_vnadata $vd")
    L["arm"] = s.op("iofault " + pick_fault(rng, ["w", "w", "w"] if fsave
                                            else ["w", "w", "w", "c", "o", "o"],
                                            "base" + ext))
    L["fault"] = s.op("%s $vd \"base%s\"" % (op, ext))
    L["off"] = s.op("iofault off")
    L["after"].append(s.op("dump_vnadata $vd"))
    L["dump_after"] = L["after"][-1]
    L["retry"] = s.op("%s $vd \"base%s\"" % (op, ext))
    L["hretry"] = s.op("hash_file \"base%s\"" % ext)
    s.op("v2=vnadata_alloc")
    L["after"].append(s.op("vnadata_load $v2 \"base%s\"" % ext))
    L["after"].append(s.op("dump_vnadata $v2"))
    return s.text(), L


def case_vnadata_load(rng, fload=False):
    s = Script()
    L = dict(kind="vnadata_fload" if fload else "vnadata_load", after=[])
    t, n, F, ext = _fill_vnadata(s, rng)
    op = "vnadata_fload" if fload else "vnadata_load"
    L["base"] = s.op("vnadata_save $vd \"in%s\"" % ext)
    s.op("v2=vnadata_alloc")
    if rng.random() < 0.5:
        s.op("vnadata_init $v2 Z 2 2 3")
        s.op("vnadata_set_matrix $v2 1 auto")
    L["arm"] = s.op("iofault " + pick_fault(rng, ["r", "r", "r"] if fload
                                            else ["r", "r", "r", "o"],
                                            "in" + ext))
    L["fault"] = s.op("%s $v2 \"in%s\"" % (op, ext))
    L["off"] = s.op("iofault off")
    L["after"].append(s.op("dump_vnadata $v2"))
    L["after"].append(s.op("vnadata_init $v2 Z 2 2 2"))
    L["after"].append(s.op("vnadata_set_format $v2 \"Zri\""))
    L["after"].append(s.op("vnadata_set_frequency_vector $v2 auto"))
    L["after"].append(s.op("vnadata_set_matrix $v2 1 auto"))
    L["after"].append(s.op("vnadata_save $v2 \"after.npd\""))
    L["after"].append(s.op("vnadata_load $v2 \"after.npd\""))
    L["after"].append(s.op("dump_vnadata $v2"))
    # and the undisturbed load still works
    L["retry"] = s.op("%s $v2 \"in%s\"" % (op, ext))
    L["after"].append(s.op("dump_vnadata $v2"))
    return s.text(), L


def _prop_tree(s, rng, root="pr", via=None):
    """a tree whose YAML text is between ~50 bytes and ~60 kB"""
    n = int(rng.choice([1, 5, 40, 200, 700]))
    for i in range(n):
        k = int(rng.integers(0, 3))
        val = "v%d-%s" % (i, "x" * int(rng.integers(0, 60)))
        if k == 0:
            d = "key%d=%s" % (i, val)
        elif k == 1:
            d = "map%d.sub.k%d=%s" % (i % 7, i, val)
        else:
            d = "list%d[+]=%s" % (i % 5, val)
        if via is None:
            s.op("vnaproperty_set $%s %s" % (root, qs(d)))
        else:
            s.op("vnacal_property_set $%s %d %s" % (via[0], via[1], qs(d)))


def case_prop_export(rng):
    s = Script()
    L = dict(kind="vnaproperty_export_yaml_to_file", after=[])
    s.op("pr=proot")
    _prop_tree(s, rng)
    L["base"] = s.op("vnaproperty_export_yaml_to_file $pr \"base.yaml\"")
    L["hbase"] = s.op("hash_file \"base.yaml\"")
    L["arm"] = s.op("iofault " + pick_fault(rng, ["w"], "base.yaml"))
    L["fault"] = s.op("vnaproperty_export_yaml_to_file $pr \"base.yaml\"")
    L["off"] = s.op("iofault off")
    L["after"].append(s.op("hash_property $pr"))
    L["retry"] = s.op("vnaproperty_export_yaml_to_file $pr \"base.yaml\"")
    L["hretry"] = s.op("hash_file \"base.yaml\"")
    s.op("p2=proot")
    L["after"].append(s.op("vnaproperty_import_yaml_from_file $p2 \"base.yaml\""))
    return s.text(), L


def case_prop_import(rng):
    s = Script()
    L = dict(kind="vnaproperty_import_yaml_from_file", after=[])
    s.op("pr=proot")
    _prop_tree(s, rng)
    L["base"] = s.op("vnaproperty_export_yaml_to_file $pr \"in.yaml\"")
    s.op("p2=proot")
    if rng.random() < 0.5:
        s.op("vnaproperty_set $p2 \"old.value=1\"")
    L["arm"] = s.op("iofault " + pick_fault(rng, ["r"], "in.yaml"))
    L["fault"] = s.op("vnaproperty_import_yaml_from_file $p2 \"in.yaml\"")
    L["off"] = s.op("iofault off")
    L["after"].append(s.op("dump_property $p2"))
    L["after"].append(s.op("vnaproperty_set $p2 \"again.k[2]=x\""))
    L["after"].append(s.op("vnaproperty_delete $p2 \"again\""))
    L["retry"] = s.op("vnaproperty_import_yaml_from_file $p2 \"in.yaml\"")
    L["after"].append(s.op("hash_property $p2"))
    return s.text(), L


def _vnacal(s, rng):
    """a vnacal_t with 0..3 small solved calibrations and properties;
    file sizes from ~30 bytes to ~100 kB"""
    s.op("vc=vnacal_create")
    ncal = int(rng.choice([0, 1, 1, 2, 3]))
    made = 0
    for k in range(ncal):
        for _ in range(6):
            ctype = str(rng.choice(physics.TYPES))
            p = int(rng.choice([1, 1, 2]))
            F = int(rng.choice([1, 3, 25, 80]))
            sc = calgen.Scenario(ctype, p, p, F, rng)
            sc.sufficient_recipe(extras=0)
            sc.choose_entries()
            ok, kappa = sc.well_determined(1e4)
            if ok:
                break
        else:
            continue
        vn = "vn%d" % k
        sc.emit_header(s, vc="vc", vn=vn, create=False)
        uid = [1000 * k]
        for i, st in enumerate(sc.stds):
            sc.emit_std(s, st, i + 100 * k, vc="vc", vn=vn, uid=uid)
        s.op("vnacal_new_solve $%s" % vn)
        s.op("ci%d=vnacal_add_calibration $vc \"cal%d\" $%s" % (k, k, vn))
        if rng.random() < 0.5:
            _prop_tree_small(s, rng, ("vc", "$ci%d" % k))
        made += 1
    if rng.random() < 0.7:
        _prop_tree_small(s, rng, ("vc", "-1"))
    if rng.random() < 0.3:
        s.op("vnacal_set_dprecision $vc %d" % int(rng.choice([4, 12, 1000])))
    return made


def _prop_tree_small(s, rng, via):
    n = int(rng.choice([1, 3, 30, 150]))
    for i in range(n):
        d = ["k%d=%s" % (i, "y" * int(rng.integers(0, 50))),
             "m.s%d.t=%d" % (i % 4, i), "l[+]=%d" % i][int(rng.integers(0, 3))]
        s.op("vnacal_property_set $%s %s %s" % (via[0], via[1], qs(d)))


def case_vnacal_save(rng):
    s = Script()
    L = dict(kind="vnacal_save", after=[])
    _vnacal(s, rng)
    L["base"] = s.op("vnacal_save $vc \"base.vnacal\"")
    L["hbase"] = s.op("hash_file \"base.vnacal\"")
    L["arm"] = s.op("iofault " + pick_fault(rng, ["w", "w", "w", "c", "o"],
                                            "base.vnacal"))
    L["fault"] = s.op("vnacal_save $vc \"base.vnacal\"")
    L["off"] = s.op("iofault off")
    L["after"].append(s.op("vnacal_get_calibration_end $vc"))
    L["after"].append(s.op("dump_vnacal $vc"))
    L["retry"] = s.op("vnacal_save $vc \"base.vnacal\"")
    L["hretry"] = s.op("hash_file \"base.vnacal\"")
    L["after"].append(s.op("v2=vnacal_load \"base.vnacal\""))
    return s.text(), L


def case_vnacal_load(rng):
    s = Script()
    L = dict(kind="vnacal_load", after=[])
    _vnacal(s, rng)
    L["base"] = s.op("vnacal_save $vc \"in.vnacal\"")
    L["arm"] = s.op("iofault " + pick_fault(rng, ["r", "r", "r", "o"],
                                            "in.vnacal"))
    L["fault"] = s.op("v2=vnacal_load \"in.vnacal\"")
    L["off"] = s.op("iofault off")
    L["retry"] = s.op("v3=vnacal_load \"in.vnacal\"")
    L["after"].append(s.op("dump_vnacal $v3"))
    return s.text(), L


CASES = [("vnadata_save", lambda r: case_vnadata_save(r, False)),
         ("vnadata_fsave", lambda r: case_vnadata_save(r, True)),
         ("vnadata_load", lambda r: case_vnadata_load(r, False)),
         ("vnadata_fload", lambda r: case_vnadata_load(r, True)),
         ("prop_export", case_prop_export),
         ("prop_import", case_prop_import),
         ("vnacal_save", case_vnacal_save),
         ("vnacal_save", case_vnacal_save),
         ("vnacal_load", case_vnacal_load)]


def generate(rng, k):
    name, fn = CASES[k % len(CASES)]
    text, L = fn(rng)
    return name, text, L


SYSTEM_ERRNOS_NOT = ("0", "EINVAL", "EDOM", "EBADMSG", "ENOPROTOOPT", "ENOSYS")


def judge(res, text, L, prop, part):
    """oracle; appends violations to part["violations"]"""
    cnt = part["counters"]
    kind = L["kind"]

    def bad(what, desc):
        part["violations"].append(dict(
            key="%s:io:%s:%s" % (prop, what, kind),
            desc="[iofault %s] %s\n fault line: %s" % (
                kind, desc, text.split("\n")[L["arm"] - 1]),
            script=text))
    base = res.ev(L["base"])
    if base is None or "ret" not in base or base["ret"] not in (0,):
        cnt["io_base_failed"] = cnt.get("io_base_failed", 0) + 1
        return
    fv = res.ev(L["fault"])
    off = res.ev(L["off"])
    if fv is None or off is None or "ret" not in fv:
        return
    fired = off.get("out", {}).get("fired", 0)
    arm = text.split("\n")[L["arm"] - 1].split(" ")[1]
    failed = fv["ret"] == -1 or fv["ret"] is None
    cnt["io_cases"] = cnt.get("io_cases", 0) + 1
    tag = "%s:%s:%s" % (kind, arm, "fired" if fired else "not-fired")
    part["distinct"].add(("io", tag, "fail" if failed else "ok",
                          fv.get("errno")))
    if fired:
        cnt["io_faults_fired"] = cnt.get("io_faults_fired", 0) + 1
    if failed:
        cnt["io_failed_calls"] = cnt.get("io_failed_calls", 0) + 1
    if fired and not failed and kind in PROP_OPS_PATH:
        bad("write-error-ignored",
            "%d write/close/open failures were delivered to the stream "
            "during the call, which returned %r" % (fired, fv["ret"]))
    if fired and not failed and kind not in PROP_OPS_PATH:
        cnt["io_fault_not_reported:" + kind] = cnt.get(
            "io_fault_not_reported:" + kind, 0) + 1
    if failed and fired:
        cb = [c for c in fv.get("cb", []) if c[0] != "WARNING"]
        # a read fault may legitimately surface as a syntax error (the
        # loader sees a truncated file); a write/close/open fault is a
        # system error
        if arm in "wco":
            if len(cb) != 1 or cb[0][0] != "SYSTEM" or \
                    fv.get("errno") in SYSTEM_ERRNOS_NOT:
                if not (kind == "vnaproperty_export_yaml_to_file"
                        and len(cb) <= 1):
                    bad("failure-report",
                        "reported as %s" % str(fv)[:300])
    # a save that could not even open its file was refused for its
    # arguments (the path): the object answers every getter as before
    if failed and fired and arm == "o" and "before" in L:
        a, b = res.ev(L["before"]), res.ev(L["dump_after"])
        if a is not None and b is not None and "out" in a and "out" in b:
            cnt["io_open_refusals_with_dumps"] = cnt.get(
                "io_open_refusals_with_dumps", 0) + 1
            if a["out"] != b["out"]:
                diff = {k: (a["out"].get(k), b["out"].get(k))
                        for k in a["out"] if a["out"].get(k) != b["out"].get(k)}
                bad("changed-by-refused-save",
                    "the file could not be opened, the call failed, and the "
                    "object answers its getters differently: %s"
                    % str(diff)[:400])
    # usable afterwards
    for ln in L["after"]:
        ev = res.ev(ln)
        if ev is None or "ret" not in ev:
            continue
        okret = ev["ret"] == 0 or (isinstance(ev["ret"], str)) or \
            (isinstance(ev["ret"], int) and ev["ret"] >= 0)
        if not okret or [c for c in ev.get("cb", []) if c[0] != "WARNING"]:
            bad("unusable-after-failure",
                "line %d %s -> %s" % (ln, text.split("\n")[ln - 1][:120],
                                      str(ev)[:300]))
    rv = res.ev(L["retry"])
    if rv is not None and "ret" in rv:
        if rv["ret"] == -1 or rv["ret"] is None:
            bad("retry-failed", "the same call without the fault -> %s"
                % str(rv)[:300])
        elif "hbase" in L:
            a, b = res.ev(L["hbase"]), res.ev(L["hretry"])
            if a is not None and b is not None and a.get("ret") != b.get("ret"):
                bad("later-save-differs",
                    "file written before the failed call: %s, the same save "
                    "after it: %s" % (a.get("ret"), b.get("ret")))
            else:
                cnt["io_retry_identical"] = cnt.get("io_retry_identical", 0) + 1
