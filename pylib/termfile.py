"""Minimal reader of the error terms in a .vnacal file (used by C01 for
calibration shapes vnacal_apply does not accept) and the documented M/S
equations of vnacal_layout.h evaluated with numpy.

PyYAML lives in the pyenv python's site-packages, not in python3-vt; both are
CPython 3.11, so the pure-python package can be imported from there.
"""
import glob
import sys

import numpy as np


def _yaml():
    try:
        import yaml
        return yaml
    except ImportError:
        for p in glob.glob("/root/.pyenv/versions/3.11*/lib/python3.11/site-packages"):
            if p not in sys.path:
                sys.path.append(p)
        try:
            import yaml
            return yaml
        except ImportError:
            return None


def available():
    return _yaml() is not None


def _num(t):
    t = t.strip()
    if "0x" in t.lower():
        return float.fromhex(t)
    return float(t)


def parse_complex(s):
    if s is None or (isinstance(s, str) and s.strip() in ("~", "null", "")):
        return np.nan + 0j
    if not isinstance(s, str):
        return complex(s)
    a = s.split()
    if len(a) == 1:
        return complex(_num(a[0].rstrip("j")), 0.0) if not a[0].endswith("j") \
            else complex(0.0, _num(a[0][:-1]))
    return complex(_num(a[0]), _num(a[1].rstrip("j")))


def _arr(x):
    if isinstance(x, list):
        return np.array([_arr(y) for y in x])
    return parse_complex(x)


def load(text):
    """text of a .vnacal file -> list of calibrations (dict with name, type,
    rows, columns, freq (list), terms (list per frequency of dict name->array))"""
    yaml = _yaml()
    body = text.split("\n", 1)[1] if text.startswith("#") else text
    doc = yaml.load(body, Loader=yaml.BaseLoader)
    out = []
    for cal in doc.get("calibrations", []) or []:
        fr, terms = [], []
        for ent in cal["data"]:
            fr.append(_num(ent["f"]))
            terms.append({k: _arr(v) for k, v in ent.items() if k != "f"})
        out.append(dict(name=cal["name"], type=cal["type"],
                        rows=int(cal["rows"]), columns=int(cal["columns"]),
                        freq=fr, terms=terms))
    return out


def _expand(v, rows, cols):
    """diagonal vector -> rows x cols matrix (identity layout)"""
    v = np.asarray(v)
    if v.ndim == 2:
        return v
    m = np.zeros((rows, cols), dtype=complex)
    for i in range(min(rows, cols, len(v))):
        m[i, i] = v[i]
    return m


def residual(ctype, r, c, terms, S, M, connected):
    """relative residual of the documented equation for one standard.
    S: p x p true S of the standard (unconnected diagonal entries arbitrary),
    M: r x c measurement, connected: sorted 0-based connected ports"""
    p = max(r, c)
    el = terms.get("el")
    Mp = np.array(M, dtype=complex)
    if el is not None and ctype != "E12":
        el = np.asarray(el)
        for i in range(r):
            for k in range(c):
                if i != k and not np.isnan(el[i, k]):
                    Mp[i, k] -= el[i, k]
    worst = 0.0

    def rel(res, parts):
        # the floor keeps equations whose every term vanishes (a cell with
        # no signal path) from being judged on rounding noise alone
        den = sum(np.abs(x) for x in parts) + 1e-3
        return float(np.max(np.abs(res) / den))
    if ctype in ("T8", "TE10", "T16"):
        Ts = _expand(terms["ts"], r, p)
        Ti = _expand(terms["ti"], r, p)
        Tx = _expand(terms["tx"], c, p)
        Tm = _expand(terms["tm"], c, p)
        for j in connected:
            s = S[:, j]
            a = Ts @ s
            b = Ti[:, j]
            cc = Mp @ (Tx @ s)
            d = Mp @ Tm[:, j]
            worst = max(worst, rel(a + b - cc - d, [a, b, cc, d]))
        return worst
    if ctype in ("U8", "UE10", "U16"):
        Um = _expand(terms["um"], p, r)
        Ui = _expand(terms["ui"], p, c)
        Ux = _expand(terms["ux"], p, r)
        Us = _expand(terms["us"], p, c)
        for i in connected:
            s = S[i, :]
            a = Um[i, :] @ Mp
            b = Ui[i, :]
            cc = s @ (Ux @ Mp)
            d = s @ Us
            worst = max(worst, rel(a + b - cc - d, [a, b, cc, d]))
        return worst
    if ctype == "UE14":
        um, ux = np.asarray(terms["um"]), np.asarray(terms["ux"])
        ui = np.asarray(terms["ui"]).reshape(-1)
        us = np.asarray(terms["us"]).reshape(-1)
        for k in range(c):
            for i in connected:
                if i >= r:
                    continue
                a = um[i, k] * Mp[i, k]
                b = ui[k] if i == k else 0.0
                cc = sum(S[i, q] * ux[q, k] * Mp[q, k] for q in range(r))
                d = S[i, k] * us[k]
                worst = max(worst, rel(np.array(a + b - cc - d),
                                       [np.array(a), np.array(b),
                                        np.array(cc), np.array(d)]))
        return worst
    if ctype == "E12":
        el, er, em = (np.asarray(terms["el"]), np.asarray(terms["er"]),
                      np.asarray(terms["em"]))
        # M(:,k) = El(:,k) + Er_k (I - S Em_k)^-1 S e_k  needs the full S,
        # so it is evaluated only for standards connecting every port
        if len(connected) < p:
            return None
        for k in range(c):
            Er = _expand(er[:, k], r, p)
            Em = _expand(em[:, k], p, p)
            e = np.zeros(p, dtype=complex)
            e[k] = 1.0
            pred = el[:, k] + Er @ np.linalg.solve(np.eye(p) - S @ Em, S @ e)
            worst = max(worst, rel(pred - M[:, k], [pred, M[:, k]]))
        return worst
    raise ValueError(ctype)
