"""Independent identifiability test for a set of calibration standards.

Builds, with numpy, the homogeneous linear system of the documented matrix
equation (vnacal_layout.h / vnacal_new(3))

   T form:  -Ts S - Ti + M Tx S + M Tm = 0
   U form:   Um M + Ui - S Ux M - S Us = 0        (UE14/E12: one system per
                                                   driven column)

for exactly the cells a standard supplies, and reports #equations, #unknowns,
nullity and a condition estimate.  Unknown cells are NaN: S diagonal entries
of unconnected ports, M cells that were not given.  For the types whose
leakage terms live outside the linear system (TE10, UE10, UE14, E12) the M
handed in must already have the off-diagonal leakage removed, and
leakage_ok() tells whether every off-diagonal cell was observed at least once
without a signal path through the standard.
"""
import numpy as np

T_TYPES = ("T8", "TE10", "T16")
FULL = ("T16", "U16")


def _known(x):
    return not (x != x)


class _Sys:
    def __init__(self, nunk):
        self.n = nunk
        self.rows = []

    def add(self, coeffs):
        """coeffs: dict index -> value; NaN coefficient => equation unusable"""
        row = np.zeros(self.n, dtype=complex)
        for k, v in coeffs.items():
            if v != v:
                return False
            row[k] += v
        if np.any(row != 0):
            self.rows.append(row)
        return True

    def analyse(self):
        if not self.rows:
            return dict(equations=0, unknowns=self.n, nullity=self.n,
                        kappa=float("inf"), sv=[])
        A = np.array(self.rows)
        # scale rows to unit norm: what matters is the geometry
        A = A / np.linalg.norm(A, axis=1)[:, None]
        sv = np.linalg.svd(A, compute_uv=False)
        sv = np.concatenate([sv, np.zeros(max(0, self.n - len(sv)))])
        tol = 1e-9 * sv[0]
        nullity = int(np.sum(sv[:self.n] <= tol))
        if self.n >= 2:
            # the free scaling makes one singular value zero by construction;
            # the condition of the determined part is sv[0] / sv[n-2]
            kappa = float(sv[0] / sv[self.n - 2]) if sv[self.n - 2] > 0 \
                else float("inf")
        else:
            kappa = 1.0
        return dict(equations=len(self.rows), unknowns=self.n,
                    nullity=nullity, kappa=kappa, sv=sv[:self.n])


def _mul(m, s):
    """m * s where an exactly-zero known factor wins over an unknown one"""
    if (_known(s) and s == 0) or (_known(m) and m == 0):
        return 0.0
    return m * s


def analyse(ctype, r, c, standards):
    """standards: list of (S p x p with NaN = unknown, M r x c with NaN = not
    given, leakage already removed for the outside-leakage types).
    Returns a list of per-system analyses (one, or one per column)."""
    p = max(r, c)
    diag = ctype not in FULL
    if ctype in T_TYPES:
        # unknown index maps
        idx = {}

        def ix(name, a, b):
            if diag and a != b:
                return None
            return idx.setdefault((name, a, b), len(idx))
        # pre-register to fix the unknown count
        for i in range(r):
            for k in range(p):
                ix("Ts", i, k)
                ix("Ti", i, k)
        for q in range(c):
            for k in range(p):
                ix("Tx", q, k)
                ix("Tm", q, k)
        sysm = _Sys(len(idx))
        for S, M in standards:
            for i in range(r):
                for j in range(p):
                    co = {}
                    bad = False

                    def acc(name, a, b, v):
                        k = ix(name, a, b)
                        if k is None:
                            return
                        co[k] = co.get(k, 0) + v
                    for k in range(p):
                        if ix("Ts", i, k) is not None:
                            acc("Ts", i, k, -S[k, j])
                    acc("Ti", i, j, -1.0)
                    for q in range(c):
                        for k in range(p):
                            if ix("Tx", q, k) is not None:
                                acc("Tx", q, k, _mul(M[i, q], S[k, j]))
                        if ix("Tm", q, j) is not None:
                            acc("Tm", q, j, M[i, q])
                    sysm.add(co)
        return [sysm.analyse()]
    if ctype in ("U8", "UE10", "U16"):
        idx = {}

        def ix(name, a, b):
            if diag and a != b:
                return None
            return idx.setdefault((name, a, b), len(idx))
        for i in range(p):
            for k in range(r):
                ix("Um", i, k)
                ix("Ux", i, k)
            for j in range(c):
                ix("Ui", i, j)
                ix("Us", i, j)
        sysm = _Sys(len(idx))
        for S, M in standards:
            for i in range(p):
                for j in range(c):
                    co = {}

                    def acc(name, a, b, v):
                        k = ix(name, a, b)
                        if k is None:
                            return
                        co[k] = co.get(k, 0) + v
                    for k in range(r):
                        acc("Um", i, k, M[k, j])
                    acc("Ui", i, j, 1.0)
                    for q in range(p):
                        for k in range(r):
                            if ix("Ux", q, k) is not None:
                                acc("Ux", q, k, -_mul(M[k, j], S[i, q]))
                        if ix("Us", q, j) is not None:
                            acc("Us", q, j, -S[i, q])
                    sysm.add(co)
        return [sysm.analyse()]
    # UE14 / E12: one system per driven column j0
    out = []
    for j0 in range(c):
        idx = {}
        for i in range(r):
            idx[("Um", i)] = len(idx)
            idx[("Ux", i)] = len(idx)
        idx[("Ui",)] = len(idx)
        idx[("Us",)] = len(idx)
        sysm = _Sys(len(idx))
        for S, M in standards:
            for i in range(p):
                co = {}

                def acc(key, v):
                    co[idx[key]] = co.get(idx[key], 0) + v
                if i < r:
                    acc(("Um", i), M[i, j0])
                elif True:
                    pass
                if i == j0:
                    acc(("Ui",), 1.0)
                for q in range(p):
                    if q < r:
                        acc(("Ux", q), -_mul(M[q, j0], S[i, q]))
                    if q == j0:
                        acc(("Us",), -S[i, q])
                if i < r:
                    sysm.add(co)
        out.append(sysm.analyse())
    return out


def leakage_ok(ctype, r, c, observations):
    """observations: list of (S p x p, given r x c bool mask).  Every
    off-diagonal cell (i,k) must have been measured at least once with no
    path between ports i and k through the standard, in EITHER direction:
    the library groups the ports of a standard into connected sets without
    regard to direction (a one-way device still ties its ports together),
    and only a cell between two different sets is a leakage sample.  The
    directed criterion (no path from k to i) is physically sufficient but
    counts samples the library does not use; sets that determine the terms
    only under it are grey (class G), not determined."""
    if ctype not in ("TE10", "UE10", "UE14", "E12"):
        return True
    need = {(i, k) for i in range(r) for k in range(c) if i != k}
    for S, given in observations:
        p = S.shape[0]
        # reachability through the standard
        conn = np.zeros((p, p), dtype=bool)
        for a in range(p):
            for b in range(p):
                v = S[a, b]
                conn[a, b] = (a != b) and not (v == v and v == 0)
        conn = conn | conn.T
        reach = conn.copy()
        for _ in range(p):
            reach = reach | ((reach.astype(int) @ reach.astype(int)) > 0)
        for (i, k) in list(need):
            if given[i, k] and not reach[i, k]:
                need.discard((i, k))
    return not need
