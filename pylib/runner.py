"""Runner: build, execute driver scripts, parse the event log and sanitizer
reports, spread cases over worker processes, match known findings, write
evidence and produce the exit status of a check."""
import errno
import hashlib
import json
import multiprocessing as mp
import os
import random
import re
import zlib
import shutil
import signal
import subprocess
import sys
import tempfile
import time
import traceback

VERIF = os.path.dirname(os.path.dirname(os.path.abspath(__file__)))
sys.path.insert(0, os.path.join(VERIF, "pylib"))
import build as _build  # noqa: E402

NPROC = int(os.environ.get("VERIF_JOBS", "16"))
MAX_HANGS_PER_BATCH = 6


def seed_from_env():
    try:
        return int(os.environ.get("VERIF_SEED", "1"))
    except ValueError:
        return 1


def scratch_root():
    for base in ("/dev/shm", os.path.join(VERIF, "build")):
        if os.path.isdir(base) and os.access(base, os.W_OK):
            d = os.path.join(base, "verif-work")
            os.makedirs(d, exist_ok=True)
            return d
    return tempfile.gettempdir()


# ----------------------------------------------------------------------
# script building
# ----------------------------------------------------------------------
def hx(x):
    """float -> token that strtod() reads back exactly"""
    x = float(x)
    if x != x:
        return "nan"
    if x in (float("inf"), float("-inf")):
        return "inf" if x > 0 else "-inf"
    return x.hex()


def cx(z):
    z = complex(z)
    return hx(z.real) + " " + hx(z.imag)


def qs(b):
    """bytes/str -> quoted, C-escaped script token"""
    if isinstance(b, str):
        b = b.encode("utf-8")
    out = ['"']
    for ch in b:
        if ch == 0x22:
            out.append('\\"')
        elif ch == 0x5c:
            out.append("\\\\")
        elif ch == 0:
            out.append("\\0")
        elif 0x20 <= ch < 0x7f:
            out.append(chr(ch))
        else:
            out.append("\\x%02x" % ch)
    out.append('"')
    return "".join(out)


class Script:
    """Accumulates driver lines; remembers 1-based line numbers so that the
    checker can find the event of a given operation (events carry "i")."""

    # A caller's errno is whatever an earlier, unrelated call left behind.
    # Line 1 of every script is "errno_preset N": the driver enters every
    # library call of the case with errno = N and reports a call that left it
    # untouched as errno 0.  N is 0 for 40 % of the scripts, 4242 (a value no
    # call produces) for 30 % and ERANGE (what a successful strtod / log10 /
    # exp inside an earlier call leaves behind; no libvna function reports it)
    # for 30 %, chosen from the script's own text.
    ERRNO_MIX = True

    def __init__(self):
        self.lines = ["errno_preset 0"] if self.ERRNO_MIX else []

    def add(self, line):
        self.lines.append(line)
        return len(self.lines)  # line number within this script

    def op(self, *toks):
        return self.add(" ".join(str(t) for t in toks))

    def rvec(self, name, vals):
        return self.add("buf %s rvector %d %s" % (
            name, len(vals), " ".join(hx(v) for v in vals)))

    def cvec(self, name, vals):
        return self.add("buf %s cvector %d %s" % (
            name, len(vals), " ".join(cx(v) for v in vals)))

    def ivec(self, name, vals):
        return self.add("buf %s ivector %d %s" % (
            name, len(vals), " ".join(str(v) for v in vals)))

    def cmat(self, name, cells):
        """cells: list (per cell) of lists (per frequency) of complex"""
        n = len(cells[0]) if cells else 0
        flat = " ".join(cx(v) for cell in cells for v in cell)
        return self.add("buf %s cmatrix %d %d %s" % (name, len(cells), n, flat))

    def text(self):
        if self.lines and self.lines[0].startswith("errno_preset "):
            body = "\n".join(self.lines[1:])
            h = zlib.crc32(body.encode("utf-8", "replace")) % 10
            self.lines[0] = "errno_preset %d" % (
                0 if h < 4 else 4242 if h < 7 else errno.ERANGE)
        return "\n".join(self.lines) + "\n"


# ----------------------------------------------------------------------
# sanitizer report parsing
# ----------------------------------------------------------------------
_frame_re = re.compile(r"^\s+#(\d+) 0x[0-9a-f]+ in (\S+) (\S+)")
_frame_re2 = re.compile(r"^\s+#(\d+) 0x[0-9a-f]+ in (\S+)")


_op_re = re.compile(r"in op_(\w+) ")


def _via_op(lines):
    for ln in lines:
        m = _op_re.search(ln)
        if m:
            return "via_" + m.group(1)
    return "?"


def _lib_frames(lines, repo_src):
    """function names of frames inside the repository sources, innermost
    first, consecutive duplicates (inlining) removed"""
    out = []
    for ln in lines:
        m = _frame_re.match(ln)
        if m and (repo_src in m.group(3)):
            fn = m.group(2)
            if not out or out[-1] != fn:
                out.append(fn)
    return out


def _norm_msg(msg):
    msg = re.sub(r"0x[0-9a-f]+", "ADDR", msg)
    msg = re.sub(r"-?\d+(\.\d+)?(e[+-]?\d+)?", "N", msg)
    msg = re.sub(r"'[^']*'", "T", msg)
    msg = re.sub(r"[^A-Za-z]+", "_", msg).strip("_")
    return msg[:60]


def parse_reports(text_lines, repo_src=None):
    """Split non-JSON stderr lines into sanitizer reports.
    Returns list of dicts {tool, kind, key, text}."""
    if repo_src is None:
        repo_src = os.path.join(os.path.realpath(_build.REPO), "src") + "/"
    reports = []
    i = 0
    n = len(text_lines)
    while i < n:
        ln = text_lines[i]
        m = re.match(r"==\d+==ERROR: (AddressSanitizer|LeakSanitizer): (.*)", ln)
        if m:
            tool = "asan" if m.group(1) == "AddressSanitizer" else "lsan"
            j = i + 1
            while j < n and not re.match(r"==\d+==ERROR: ", text_lines[j]) \
                    and not re.search(r": runtime error: ", text_lines[j]):
                j += 1
            block = text_lines[i:j]
            if tool == "asan":
                kind = m.group(2).split(" ")[0].rstrip(":")
                # frames of the first stack only (up to the first blank line
                # after the first frame)
                first = []
                seen = False
                for b in block[1:]:
                    if _frame_re2.match(b):
                        seen = True
                        first.append(b)
                    elif seen:
                        break
                fr = _lib_frames(first, repo_src)
                key = "asan:%s:%s" % (kind, ":".join(fr[:2]) or _via_op(block))
                reports.append(dict(tool=tool, kind=kind, key=key,
                                    text="\n".join(block[:60])))
            else:
                # one finding per "Direct/Indirect leak" block; only direct
                # leaks get keys (indirect ones hang off them)
                cur = None
                blocks = []
                for b in block[1:]:
                    if re.match(r"(Direct|Indirect) leak of", b):
                        cur = [b]
                        blocks.append(cur)
                    elif cur is not None:
                        cur.append(b)
                keys = set()
                for blk in blocks:
                    if not blk[0].startswith("Direct"):
                        continue
                    fr = _lib_frames(blk, repo_src)
                    keys.add("lsan:leak:%s" % (":".join(fr[:2]) or _via_op(blk)))
                if not keys and blocks:
                    fr = _lib_frames(blocks[0], repo_src)
                    keys.add("lsan:leak:%s" % (":".join(fr[:2]) or
                                               _via_op(blocks[0])))
                for k in sorted(keys):
                    reports.append(dict(tool=tool, kind="leak", key=k,
                                        text="\n".join(block[:80])))
            i = j
            continue
        m = re.match(r"(\S+?):(\d+):(\d+): runtime error: (.*)", ln)
        if m:
            j = i + 1
            while j < n and _frame_re2.match(text_lines[j]):
                j += 1
            if re.search(r"variable length array bound evaluates to "
                         r"non-positive value 0$", m.group(4)):
                # a zero-length VLA (a system without equations, an object
                # without ports) is never indexed; a NEGATIVE bound is
                # reported
                i = j
                continue
            block = text_lines[i:j]
            fr = _lib_frames(block, repo_src)
            if not fr:
                # no stack: fall back on the file name
                fr = [os.path.basename(m.group(1))]
            key = "ubsan:%s:%s" % (_norm_msg(m.group(4)), ":".join(fr[:2]))
            reports.append(dict(tool="ubsan", kind=_norm_msg(m.group(4)),
                                key=key, text="\n".join(block[:40])))
            i = j
            continue
        m = re.match(r"==\d+== (Conditional jump or move depends on "
                     r"uninitialised value|Use of uninitialised value|"
                     r"Invalid read|Invalid write|Invalid free|"
                     r"Syscall param \S+ (?:points to|contains) "
                     r"uninitialised|Mismatched free|Source and destination "
                     r"overlap)", ln)
        if m:
            j = i + 1
            fr = []
            while j < n and re.match(r"==\d+==\s+(at|by) 0x", text_lines[j]):
                mm = re.match(r"==\d+==\s+(?:at|by) 0x[0-9A-Fa-f]+: (\S+) "
                              r"\((.*)\)", text_lines[j])
                if mm and repo_src in mm.group(2):
                    if not fr or fr[-1] != mm.group(1):
                        fr.append(mm.group(1))
                j += 1
            kind = _norm_msg(m.group(1))
            if fr:
                reports.append(dict(tool="memcheck", kind=kind,
                                    key="memcheck:%s:%s" % (kind, ":".join(fr[:2])),
                                    text="\n".join(text_lines[i:min(j + 12, n)])))
            i = j
            continue
        m = re.match(r".*?: (\S+):(\d+): (.*?): Assertion `(.*)' failed", ln)
        if m:
            # gcc prints the function name, clang its full signature
            fn = re.search(r"([A-Za-z_]\w*)\s*\(", m.group(3))
            fn = fn.group(1) if fn else m.group(3).split()[-1]
            key = "abort:assert:%s:%s" % (fn, _norm_msg(m.group(4)))
            reports.append(dict(tool="abort", kind="assert", key=key, text=ln))
        i += 1
    return reports


# ----------------------------------------------------------------------
# running the driver
# ----------------------------------------------------------------------
class CaseResult:
    __slots__ = ("case_id", "events", "reports", "status", "detail",
                 "by_line", "leaks")

    def __init__(self, case_id):
        self.case_id = case_id
        self.events = []     # list of dict
        self.reports = []    # sanitizer reports (dicts) with "i" = line of op
        self.status = "ok"   # ok | crash | timeout | driver_error | notrun
        self.detail = ""
        self.by_line = {}
        self.leaks = 0

    def ev(self, line):
        return self.by_line.get(line)


def san_env(halt=False):
    env = dict(os.environ)
    env["ASAN_OPTIONS"] = (
        "detect_leaks=1:leak_check_at_exit=0:detect_stack_use_after_return=1:"
        "halt_on_error=%d:abort_on_error=0:allocator_may_return_null=1:"
        "malloc_context_size=12:print_legend=0:handle_abort=0:"
        # fresh heap memory is filled with a pattern instead of whatever the
        # allocator hands out (mostly zeros): a read of memory nobody
        # initialised then shows as a wrong value in the model comparisons,
        # not only under memcheck
        "max_malloc_fill_size=1048576:malloc_fill_byte=165" % (1 if halt else 0))
    env["UBSAN_OPTIONS"] = "print_stacktrace=1:halt_on_error=0"
    env["LSAN_OPTIONS"] = "print_suppressions=0"
    return env


def run_cases(binary, cases, workdir, timeout=300, watchdog=60, halt=False,
              extra_header=(), valgrind=False, confirm_hangs=True):
    """see _run_cases; a case that hit the per-operation watchdog is re-run
    once alone with a six times longer limit before it is reported as a hang
    (a loaded machine must not turn a slow case into a violation)"""
    results = _run_cases(binary, cases, workdir, timeout, watchdog, halt,
                         extra_header, valgrind)
    if confirm_hangs:
        texts = dict(cases)
        confirmed = 0
        for cid, r in list(results.items()):
            if r.status == "timeout" and cid in texts:
                if confirmed >= 2:
                    # two hangs of this batch were confirmed already: the
                    # rest is reported as it is (a tree that hangs on many
                    # inputs must not cost minutes for each of them)
                    continue
                again = _run_cases(binary, [(cid, texts[cid])],
                                   workdir + "-hang", max(timeout, 900),
                                   watchdog * 6, halt, extra_header, valgrind)
                r2 = again.get(cid)
                if r2 is not None and r2.status != "timeout":
                    r2.detail = (r2.detail + " (first run hit the %d s "
                                 "watchdog)" % watchdog).strip()
                    results[cid] = r2
                else:
                    confirmed += 1
                shutil.rmtree(workdir + "-hang", ignore_errors=True)
    return results


def _run_cases(binary, cases, workdir, timeout=300, watchdog=60, halt=False,
               extra_header=(), valgrind=False):
    """cases: list of (case_id, script_text).  Runs them in as few driver
    processes as possible (a crash, hang or leak ends a process; the rest is
    resumed in a new one).  Returns {case_id: CaseResult}."""
    results = {}
    todo = list(cases)
    os.makedirs(workdir, exist_ok=True)
    attempt = 0
    while todo:
        attempt += 1
        spath = os.path.join(workdir, "batch.script")
        offsets = []  # (case_id, first_line)
        with open(spath, "w") as f:
            ln = 0
            for cid, text in todo:
                f.write("!case %s\n" % cid)
                ln += 1
                hdr = "!watchdog %d\n" % watchdog
                for h in extra_header:
                    hdr += h + "\n"
                f.write(hdr)
                ln += hdr.count("\n")
                offsets.append((cid, ln))
                f.write(text)
                if not text.endswith("\n"):
                    f.write("\n")
                ln += text.count("\n") + (0 if text.endswith("\n") else 1)
        offs = dict(offsets)
        cmd = [binary, "--workdir", workdir, spath]
        if valgrind:
            cmd = ["valgrind", "-q", "--error-exitcode=0",
                   "--track-origins=yes", "--leak-check=no",
                   "--undef-value-errors=yes", "--fullpath-after=",
                   "--num-callers=12"] + cmd
        try:
            p = subprocess.run(cmd, stdout=subprocess.DEVNULL,
                               stderr=subprocess.PIPE, env=san_env(halt),
                               timeout=timeout)
            err = p.stderr
            rc = p.returncode
        except subprocess.TimeoutExpired as e:
            err = e.stderr or b""
            rc = -999
        lines = err.decode("latin-1").split("\n")
        cur = None
        pending = []
        ended = False
        finished_ids = set()
        for ln_ in lines:
            if ln_.startswith('{"'):
                try:
                    ev = json.loads(ln_)
                except ValueError:
                    pending.append(ln_)
                    continue
                if "case" in ev and "i" in ev and "op" not in ev:
                    cur = CaseResult(ev["case"])
                    results[cur.case_id] = cur
                    pending = []
                    continue
                if "case_end" in ev:
                    if cur is not None:
                        if pending:
                            for r in parse_reports(pending):
                                r["i"] = None
                                cur.reports.append(r)
                            pending = []
                        cur.leaks = ev.get("leaks", 0)
                        finished_ids.add(cur.case_id)
                    continue
                if ev.get("end"):
                    ended = True
                    continue
                if cur is None:
                    continue
                if ev.get("timeout"):
                    cur.status = "timeout"
                    cur.detail = "watchdog at line %s op %s" % (
                        ev.get("i"), ev.get("op"))
                    continue
                if ev.get("driver_error"):
                    cur.status = "driver_error"
                    cur.detail = ev.get("msg", "")
                    continue
                # relative line number within the case's script
                if "i" in ev:
                    ev["i"] = ev["i"] - offs.get(cur.case_id, 0)
                if pending:
                    for r in parse_reports(pending):
                        r["i"] = ev.get("i")
                        r["op"] = ev.get("op")
                        cur.reports.append(r)
                    pending = []
                cur.events.append(ev)
                cur.by_line[ev.get("i")] = ev
            else:
                if ln_.strip():
                    pending.append(ln_)
        # decide how the process ended
        if ended:
            todo = []
            break
        # the process died inside (or right after) case `cur`
        if cur is None:
            # died before the first case started: harness failure
            for cid, _ in todo:
                r = results.setdefault(cid, CaseResult(cid))
                r.status = "driver_error"
                r.detail = "driver produced no output rc=%s: %s" % (
                    rc, "\n".join(lines[-5:]))
            break
        if cur.case_id not in finished_ids and cur.status == "ok":
            reps = parse_reports(pending)
            last = cur.events[-1]["i"] if cur.events else 0
            for r in reps:
                r["i"] = last + 1
                cur.reports.append(r)
            if rc == -999:
                cur.status = "timeout"
                cur.detail = "process timeout after line %d" % last
            else:
                cur.status = "crash"
                sig = -rc if rc < 0 else rc
                cur.detail = "exit %s after line %d: %s" % (
                    rc, last, " | ".join(pending[-3:])[:300])
        elif cur.case_id in finished_ids and pending:
            pass
        # resume after the case that ended the process
        ids = [cid for cid, _ in todo]
        k = ids.index(cur.case_id)
        todo = todo[k + 1:]
        if attempt > len(cases) + 5:
            break
        nhang = sum(1 for r in results.values() if r.status == "timeout")
        if nhang >= MAX_HANGS_PER_BATCH and todo:
            # the tree under test hangs on input after input: the verdict is
            # in, every further watchdog period only delays it.  The rest of
            # the batch is not run (status "skipped": not judged, not a
            # harness error).
            for cid, _ in todo:
                r = CaseResult(cid)
                r.status = "skipped"
                r.detail = "batch cut short after %d hangs" % nhang
                results[cid] = r
            break
    for cid, _ in cases:
        if cid not in results:
            r = CaseResult(cid)
            r.status = "notrun"
            results[cid] = r
    return results


# ----------------------------------------------------------------------
# known findings
# ----------------------------------------------------------------------
def load_known():
    """returns dict key -> (property, text) for 'known:' lines"""
    known = {}
    p = os.path.join(VERIF, "KNOWN_FINDINGS")
    if os.path.exists(p):
        for ln in open(p):
            ln = ln.strip()
            if not ln.startswith("known:"):
                continue
            m = re.match(r"known:\s+property=(\S+)\s+key=(\S+)\s*(.*)", ln)
            if m:
                known[m.group(2)] = (m.group(1), m.group(3))
    return known


# ----------------------------------------------------------------------
# a check run
# ----------------------------------------------------------------------
class Check:
    """Collects what the monitors observed and produces evidence + verdict."""

    def __init__(self, prop, level="exploration"):
        import argparse
        ap = argparse.ArgumentParser()
        ap.add_argument("--tier", default=os.environ.get("VERIF_TIER", "quick"),
                        choices=["quick", "thorough"])
        ap.add_argument("--replay", default=None)
        ap.add_argument("--variant", default=None)
        ap.add_argument("--scale", type=float, default=1.0)
        self.args = ap.parse_args()
        self.prop = prop
        self.level = level
        self.tier = self.args.tier
        self.seed = seed_from_env()
        self.t0 = time.time()
        self.violations = {}   # key -> dict(desc, replay, count)
        self.inconclusive = {}
        self.counters = {}
        self.samples = []
        self.distinct = set()
        self.evaluations = 0
        self.harness_errors = []
        self.workroot = os.path.join(
            scratch_root(), "%s-%d" % (prop, os.getpid()))
        os.makedirs(self.workroot, exist_ok=True)
        self.witdir = os.path.join(VERIF, "witness", prop)

    # -- building
    def build(self, variant="asan"):
        try:
            return _build.build(variant)
        except SystemExit:
            print("HARNESS-ERROR: build of variant %s failed" % variant)
            self.cleanup()
            sys.exit(2)

    # -- recording
    def count(self, name, n=1):
        self.counters[name] = self.counters.get(name, 0) + n

    def merge(self, part):
        """merge a worker's partial result (dict) into this run"""
        self.evaluations += part.get("evaluations", 0)
        for k, v in part.get("counters", {}).items():
            self.counters[k] = self.counters.get(k, 0) + v
        for k, v in part.get("maxima", {}).items():
            cur = self.counters.get(k)
            self.counters[k] = v if cur is None else max(cur, v)
        self.distinct.update(part.get("distinct", ()))
        for s in part.get("samples", []):
            if len(self.samples) < 6:
                self.samples.append(s)
        for v in part.get("violations", []):
            self.violation(v["key"], v["desc"], v.get("script"))
        for v in part.get("inconclusive", []):
            self.inconclusive[v["key"]] = self.inconclusive.get(v["key"], 0) + 1
        for e in part.get("harness_errors", []):
            self.harness_errors.append(e)

    def violation(self, key, desc, script=None):
        v = self.violations.get(key)
        if v is None:
            path = None
            if script is not None:
                os.makedirs(self.witdir, exist_ok=True)
                h = hashlib.sha1(key.encode()).hexdigest()[:12]
                path = os.path.join(self.witdir, "%s.script" % h)
                with open(path, "w") as f:
                    f.write("# property %s  key %s\n# %s\n" % (
                        self.prop, key, desc.replace("\n", "\n# ")[:2000]))
                    f.write(script)
            self.violations[key] = dict(desc=desc, replay=path, count=1)
        else:
            v["count"] += 1

    def cleanup(self):
        shutil.rmtree(self.workroot, ignore_errors=True)

    # -- finishing
    def finish(self, rule, min_events=1, assumptions=(), extra=None):
        known = load_known()
        wall = time.time() - self.t0
        new = []
        for key, v in sorted(self.violations.items()):
            if key in known:
                kp, ktext = known[key]
                print("KNOWN-FINDING: property=%s key=%s %s (seen %d times)" % (
                    self.prop, key, ktext, v["count"]))
            else:
                new.append((key, v))
        cov = dict(evaluations=int(self.evaluations),
                   distinct_nontrivial=int(len(self.distinct)),
                   rule=rule,
                   samples=self.samples[:6] or ["(none)"],
                   counters={k: self.counters[k] for k in sorted(self.counters)},
                   inconclusive=self.inconclusive,
                   violation_keys=sorted(self.violations.keys()),
                   known_finding_keys=sorted(
                       k for k in self.violations if k in known))
        if extra:
            cov.update(extra)
        ev = dict(property_id=self.prop, tier=self.tier, seed=self.seed,
                  level=self.level, coverage=cov,
                  assumptions=list(assumptions), wall_s=round(wall, 2),
                  violations=len(new))
        # a coverage-measuring run (tools/coverage.sh) uses an unsanitized
        # build: what it observes is not evidence
        evdir = os.environ.get("VERIF_EVIDENCE_DIR") or \
            os.path.join(VERIF, "evidence")
        os.makedirs(evdir, exist_ok=True)
        with open(os.path.join(evdir, self.prop + ".json"), "w") as f:
            json.dump(ev, f, indent=1, sort_keys=True, default=str)
            f.write("\n")
        self.cleanup()
        print("%s tier=%s seed=%d evaluations=%d distinct=%d wall=%.1fs" % (
            self.prop, self.tier, self.seed, self.evaluations,
            len(self.distinct), wall))
        for k in sorted(self.counters):
            print("  %-40s %s" % (k, self.counters[k]))
        if self.inconclusive:
            print("  inconclusive:", self.inconclusive)
        if self.harness_errors and not new:
            print("HARNESS-ERROR:", self.harness_errors[:3])
            sys.exit(2)
        if new:
            if self.harness_errors:
                print("HARNESS-ERROR (in addition):", self.harness_errors[:3])
            for key, v in new:
                print("  violation key=%s count=%d\n    %s" % (
                    key, v["count"], v["desc"][:1500].replace("\n", "\n    ")))
            for key, v in new:
                print("VIOLATION property=%s replay=%s" % (
                    self.prop, v["replay"] or "(none)"))
            sys.exit(1)
        if self.evaluations < min_events or len(self.distinct) < 2:
            print("HARNESS-ERROR: monitors observed too little "
                  "(evaluations=%d distinct=%d)" % (
                      self.evaluations, len(self.distinct)))
            sys.exit(2)
        print("OK property=%s held on everything explored" % self.prop)
        sys.exit(0)


# ----------------------------------------------------------------------
# worker pool: each chunk = (chunk index, list of case indices)
# ----------------------------------------------------------------------
# ----------------------------------------------------------------------
# monitor canaries
# ----------------------------------------------------------------------
CANARY_EXPECT = {
    # canary -> predicate on the CaseResult
    "leak": lambda r: r.leaks > 0 and any(x["tool"] == "lsan"
                                           for x in r.reports),
    "overflow": lambda r: any(x["key"].startswith(
        "asan:heap-buffer-overflow:vnaconv_stozn") for x in r.reports),
    "overflow_b": lambda r: any(x["key"].startswith(
        "asan:heap-buffer-overflow") for x in r.reports),
    "uaf": lambda r: any(x["key"].startswith(
        "asan:heap-use-after-free:vnaconv_ztosn") for x in r.reports),
    "uaf_b": lambda r: any(x["key"].startswith("asan:heap-use-after-free")
                           for x in r.reports),
    "ubsan": lambda r: any(x["tool"] == "ubsan" for x in r.reports),
    "hang": lambda r: r.status == "timeout",
    "abort": lambda r: r.status == "crash",
    "assert": lambda r: r.status == "crash" and any(
        x["key"].startswith("abort:assert:op_canary") for x in r.reports),
}


def monitor_canaries(binaries, workroot, memcheck_bin=None):
    """Runs the deliberately bad `canary` ops of the driver in every build a
    check is about to use and returns a list of complaints: a sanitizer that
    is compiled out, a leak query that never runs, a watchdog that never
    fires or a report the parser no longer recognises would otherwise look
    exactly like a clean run.  binaries: {variant: path}.  gcc 12's ASan
    does not instrument loads of _Complex values, so the complex over-read
    and the complex read of freed memory inside libvna ("overflow", "uaf")
    are required of the clang builds only."""
    errs = []
    seen = {}
    for variant, binary in sorted(binaries.items()):
        names = ["leak", "overflow_b", "uaf_b", "ubsan", "hang", "abort",
                 "assert"]
        if variant != "gasan":
            names[1:1] = ["overflow", "uaf"]
        cases = [("canary_" + w, "canary %s 1\n" % w) for w in names]
        res = run_cases(binary, cases, os.path.join(
            workroot, "canary-" + variant), timeout=120, watchdog=2,
            confirm_hangs=False)
        for w in names:
            ok = bool(CANARY_EXPECT[w](res["canary_" + w]))
            seen["%s:%s" % (variant, w)] = ok
            if not ok:
                r = res["canary_" + w]
                errs.append("monitor canary '%s' was not noticed in the %s "
                            "build (status %s, leaks %s, reports %s)" % (
                                w, variant, r.status, r.leaks,
                                [x["key"] for x in r.reports][:3]))
    if memcheck_bin:
        cases = [("canary_uninit", "canary uninit\n"),
                 ("canary_overflow", "canary overflow\n")]
        res = run_cases(memcheck_bin, cases, os.path.join(
            workroot, "canary-memcheck"), timeout=300, watchdog=120,
            valgrind=True, confirm_hangs=False)
        for cid, want in (("canary_uninit", "uninitialised"),
                          ("canary_overflow", "Invalid_read")):
            ok = any(x["tool"] == "memcheck" and want in x["key"]
                     for x in res[cid].reports)
            seen["memcheck:" + cid[7:]] = ok
            if not ok:
                errs.append("monitor canary '%s' was not noticed by valgrind "
                            "memcheck" % cid[7:])
    return errs, seen


def _worker(args):
    fn, chunk_id, payload = args
    try:
        return fn(chunk_id, payload)
    except Exception:
        return dict(harness_errors=["worker %s: %s" % (
            chunk_id, traceback.format_exc()[-1500:])])


def pmap(fn, payloads, nproc=None):
    """fn(chunk_id, payload) -> partial dict; executed in worker processes"""
    nproc = nproc or NPROC
    jobs = [(fn, i, p) for i, p in enumerate(payloads)]
    if nproc <= 1 or len(jobs) <= 1:
        for j in jobs:
            yield _worker(j)
        return
    with mp.Pool(nproc) as pool:
        for part in pool.imap_unordered(_worker, jobs):
            yield part


def chunks(n, size):
    return [list(range(i, min(n, i + size))) for i in range(0, n, size)]


def standard_violations(res, script_text, prop):
    """violations that every check reports for a case: sanitizer reports,
    crashes, hangs.  Returns (violations, inconclusive)"""
    v = []
    inc = []
    for r in res.reports:
        v.append(dict(key=r["key"],
                      desc="%s report at script line %s (%s)\n%s" % (
                          r["tool"], r.get("i"), r.get("op", ""), r["text"]),
                      script=script_text))
    if res.status == "crash":
        if not res.reports:
            v.append(dict(key="crash:%s" % _norm_msg(res.detail)[:40],
                          desc="driver process died: " + res.detail,
                          script=script_text))
    elif res.status == "timeout":
        last = res.events[-1]["op"] if res.events else "?"
        v.append(dict(key="hang:%s" % res.detail.split(" op ")[-1],
                      desc="watchdog fired: " + res.detail,
                      script=script_text))
    elif res.status in ("driver_error", "notrun"):
        inc.append(dict(key="harness:" + res.status + ":" + res.detail[:80]))
    if res.leaks and not any(r["tool"] == "lsan" for r in res.reports):
        v.append(dict(key="lsan:leak:unattributed",
                      desc="leak check reported leaks without a parsed report",
                      script=script_text))
    return v, inc
