"""Workloads of C11 (error contract, unchanged on refusal, usable after late
failure):

  ContractGen   the API history generator of gen_api (failure-rich by
                construction: every argument from valid / boundary / invalid
                domains), with an observer after every operation on a
                vnadata_t, property root or vnacal_t, and the index queries
                after every vnacal_add_calibration
  family_script deterministic per-family list of calls that the manuals
                declare invalid (every (function, cause) pair in every run)
  TwinGen       a calibration scenario whose standards are interleaved with
                refused vnacal_new_* calls; the twin has none of them
  late_*        scripts in which a call fails late in its work and the object
                is then used further
"""
import re

import numpy as np

import calgen
import gen_api
import physics
from runner import Script, cx, hx, qs

OBJ_RE = re.compile(r"^\$?((?:vd|pr|vc)\d+)$")
DUMP = {"vd": "dump_vnadata", "pr": "dump_property", "vc": "dump_vnacal"}
FREE_OPS = ("vnadata_free", "vnacal_free")


class WrapScript(Script):
    """a Script whose op() adds, after the operation, one observer line per
    tracked object the operation names (and binds)"""

    def __init__(self):
        Script.__init__(self)
        self.quiet = 0

    def op(self, *toks):
        text = " ".join(str(t) for t in toks)
        ln = self.add(text)
        if self.quiet:
            return ln
        words = text.split(" ")
        first = words[0]
        bind = None
        if "=" in first and not first.startswith('"'):
            bind, first = first.split("=", 1)
        opname = first
        objs = []
        if bind is not None and OBJ_RE.match(bind):
            objs.append(bind)
        if opname not in FREE_OPS:
            for w in words[1:]:
                m = OBJ_RE.match(w)
                if m and w.startswith("$") and m.group(1) not in objs:
                    objs.append(m.group(1))
        for o in objs:
            self.add("%s $%s" % (DUMP[o[:2]], o))
        if opname == "vnacal_add_calibration" and bind is not None and \
                len(words) >= 4:
            vc = words[1]
            name = " ".join(words[2:-1])
            self.add("vnacal_find_calibration %s %s" % (vc, name))
            self.add("vnacal_get_name %s $%s" % (vc, bind))
            self.add("vnacal_get_type %s $%s" % (vc, bind))
        return ln


class ContractGen(gen_api.ApiGen):
    def __init__(self, rng):
        gen_api.ApiGen.__init__(self, rng)
        self.s = WrapScript()

    def cval(self):
        # no stored infinities: HUGE_VAL must mean failure in this workload
        r = self.rng
        k = r.integers(0, 12)
        if k == 0:
            return 0j
        if k == 1:
            return complex(float("nan"), 0)
        return complex(r.standard_normal(), r.standard_normal()) * \
            10 ** r.uniform(-3, 3)


# ----------------------------------------------------------------------
# deterministic family scripts.  Lines starting with "!" are calls the
# manual declares invalid for their arguments (refusal expected: failure
# value, EINVAL, USAGE report where the family reports); "?" calls must fail
# for another documented reason (missing file, syntax, version, math).
# ----------------------------------------------------------------------
def _vnadata_family(rng):
    t = str(rng.choice(["S", "Z", "Y"]))
    n = int(rng.choice([2, 3]))
    F = int(rng.choice([2, 3, 4]))
    L = ["vd1=vnadata_alloc",
         "vnadata_init $vd1 %s %d %d %d" % (t, n, n, F),
         "vnadata_set_frequency_vector $vd1 auto"]
    for f in range(F):
        L.append("vnadata_set_matrix $vd1 %d auto" % f)
    L.append("vnadata_set_z0 $vd1 1 %s" % cx(complex(75, -2)))
    blocks = []
    blocks.append(["!vnadata_resize $vd1 %s %d %d %d" % a for a in [
        ("S", -1, n, F), ("S", n, -1, F), ("S", n, n, -1), ("-1", n, n, F),
        ("11", n, n, F), ("T", 3, 3, F), ("H", 1, 2, F), ("ZIN", 2, 2, F),
        ("Z", 2, 3, F)]])
    blocks.append(["!vnadata_set_type $vd1 %s" % a for a in
                   (["-1", "11", "99"] + (["T", "A", "H"] if n == 3 else []))])
    blocks.append(["!vnadata_get_frequency $vd1 %d" % i for i in (-1, F, F + 7)] +
                  ["!vnadata_set_frequency $vd1 %d 0x1p+30" % i
                   for i in (-1, F, F + 7)])
    cells = [(-1, 0, 0), (F, 0, 0), (0, -1, 0), (0, n, 0), (0, 0, -1),
             (0, 0, n), (F + 1, n + 1, n + 1)]
    blocks.append(["!vnadata_get_cell $vd1 %d %d %d" % c for c in cells] +
                  ["!vnadata_set_cell $vd1 %d %d %d 0x1p+0 0x1p-1" % c
                   for c in cells])
    blocks.append(["!vnadata_get_matrix $vd1 %d" % i for i in (-1, F)] +
                  ["!vnadata_set_matrix $vd1 %d auto" % i for i in (-1, F)])
    rc = [(-1, 0), (n, 0), (0, -1), (0, n)]
    blocks.append(["!vnadata_get_to_vector $vd1 %d %d" % c for c in rc] +
                  ["!vnadata_set_from_vector $vd1 %d %d auto" % c for c in rc])
    blocks.append(["!vnadata_get_z0 $vd1 %d" % i for i in (-1, n, n + 3)] +
                  ["!vnadata_set_z0 $vd1 %d 0x1.9p+5 0x0p+0" % i
                   for i in (-1, n, n + 3)])
    fz = [(-1, 0), (F, 0), (0, -1), (0, n)]
    blocks.append(["!vnadata_get_fz0 $vd1 %d %d" % c for c in fz] +
                  ["!vnadata_set_fz0 $vd1 %d %d 0x1.9p+5 0x1p+0" % c
                   for c in fz] +
                  ["!vnadata_get_fz0_vector $vd1 %d" % i for i in (-1, F)] +
                  ["!vnadata_set_fz0_vector $vd1 %d auto" % i for i in (-1, F)])
    blocks.append(["!vnadata_set_filetype $vd1 %d" % i for i in (-1, 4, 99)] +
                  ["!vnadata_set_format $vd1 %s" % qs(x) for x in
                   ("xyz", "Sri,,Zri", "Sxx", "S Z", "ri,", "Zin dB")] +
                  ["!vnadata_set_fprecision $vd1 %d" % i for i in (0, -1)] +
                  ["!vnadata_set_dprecision $vd1 %d" % i for i in (0, -1)])
    blocks.append(["!vnadata_convert $vd1 $vd1 %s" % a for a in
                   (["-1", "11"] + (["T", "A", "G"] if n == 3 else []))] +
                  ["vd2=vnadata_alloc",
                   "!vnadata_convert $vd1 $vd2 12",
                   "vnadata_free $vd2"])
    blocks.append(["?vnadata_load $vd1 \"no-such-file.s2p\"",
                   "?vnadata_save $vd1 \"no-such-dir/x.npd\"",
                   "vnadata_set_format $vd1 \"PRC\"",
                   "!vnadata_save $vd1 \"x1.s%dp\"" % n,
                   "!vnadata_cksave $vd1 \"x1.s%dp\"" % n,
                   "vnadata_set_format $vd1 \"%sri\"" % t])
    # per-frequency z0 in use: the plain z0 getters are refused
    blocks.append(["vnadata_set_fz0 $vd1 0 0 0x1.9p+5 0x1p+0",
                   "!vnadata_get_z0 $vd1 0",
                   "!vnadata_get_z0_vector $vd1",
                   "!vnadata_save $vd1 \"x2.s%dp\"" % n,
                   "vnadata_set_all_z0 $vd1 0x1.9p+5 0x0p+0"])
    # saves that cannot open their file, on an object whose format was given
    # without a parameter letter (it follows the type): refused for the path,
    # nothing a getter answers may change
    fm = str(rng.choice(["ma", "ri", "dB", "ri,Zma"]))
    blocks.append(["vnadata_set_format $vd1 %s" % qs(fm),
                   "?vnadata_save $vd1 \"no-such-dir/x.npd\"",
                   "?vnadata_save $vd1 \"no-such-dir/x.s%dp\"" % n,
                   "?vnadata_save $vd1 \".\"",
                   "vnadata_get_format $vd1"])
    order = rng.permutation(len(blocks))
    for i in order:
        L += blocks[i]
    L += ["vnadata_save $vd1 \"ok.npd\"", "vnadata_free $vd1"]
    return L


BAD_FILES = [
    ("s1.s2p", "# Hz S RI R 50\n1e9 1 2 3\n", "?", "syntax"),
    ("s2.s2p", "# Hz S RI R 50\n1e9 1 2 3 4 5 6 7 8\n5e8 1 2 3 4 5 6 7 8\n",
     "?", "syntax"),
    ("s3.s1p", "# Hz Q RI R 50\n1e9 1 2\n", "?", "syntax"),
    ("s4.ts", "[Version] 3.0\n# Hz S RI R 50\n[Number of Ports] 1\n"
              "[Network Data]\n1e9 1 2\n[End]\n", "?", "version"),
    ("s5.npd", "#NPD 1.0\n#:ports 2\n#:frequencies 1\n#:parameters Sri\n"
               "1e9 1 2 3 4 5 6 x 8\n", "?", "syntax"),
    ("s6.npd", "#NPD 1.0\n#:ports 2\n#:frequencies 2\n#:parameters Sri\n"
               "1e9 1 2 3 4 5 6 7 8\n", "?", "syntax"),
    ("s7.s2p", "", "?", "syntax"),
    ("s8.npd", "garbage\n", "?", "syntax"),
]
BAD_CAL_FILES = [
    ("c1.vnacal", "", "syntax"),
    ("c2.vnacal", "#VNACal 9.0\n%YAML 1.1\n---\n", "version"),
    ("c3.vnacal", "#VNACal 1.0\n%YAML 1.1\n---\ncalibrations: [\n", "syntax"),
    ("c5.vnacal", "not a calibration file\n", "syntax"),
]


def _load_family(rng):
    L = ["vd1=vnadata_alloc"]
    for i in rng.permutation(len(BAD_FILES)):
        name, body, mark, why = BAD_FILES[i]
        L.append("write_file %s %s" % (qs(name), qs(body)))
        which = "vnadata_load" if rng.random() < 0.6 else "vnadata_fload"
        L.append("?%s $vd1 %s" % (which, qs(name)))
    L.append("vnadata_free $vd1")
    for i in rng.permutation(len(BAD_CAL_FILES)):
        name, body, why = BAD_CAL_FILES[i]
        L.append("write_file %s %s" % (qs(name), qs(body)))
        L.append("?vcx=vnacal_load %s" % qs(name))
    L.append("?vcx=vnacal_load \"no-such.vnacal\"")
    L.append("?vcx=vnacal_load \".\"")
    return L


def _prop_family(rng):
    L = ["pr1=proot",
         "vnaproperty_set $pr1 \"a.b=1\"",
         "vnaproperty_set $pr1 \"list[0]=x\"",
         "vnaproperty_set $pr1 \"list[1]=y\"",
         "vnaproperty_set $pr1 \"s=scalar\""]
    bad = ["!vnaproperty_%s $pr1 %s" % (f, qs(d)) for f, d in [
        ("get", "a"), ("get", "list"), ("get", "nokey"), ("get", "list[5]"),
        ("get", "s.x"), ("get", "s[0]"), ("get", "a..b"), ("get", "[x]"),
        ("get", "list[+]"), ("get", "list[0+]"),
        ("type", "nokey"), ("type", "a.b.c"), ("type", "list[2]"),
        ("type", "a["), ("count", "s"), ("count", "nokey"),
        ("count", "a.b"), ("keys", "list"), ("keys", "s"), ("keys", "nokey"),
        ("get_subtree", "nokey"), ("get_subtree", "a.b.c"),
        ("get_subtree", "list[9]"), ("get_subtree", "a]"),
        ("delete", "nokey"), ("delete", "list[7]"), ("delete", "s.x"),
        ("delete", "a.b.c.d"), ("delete", "[0]"), ("delete", "a["),
        ("set", "a..b=1"), ("set", "[x]=1"), ("set", "a[=1"),
        ("set", "list[-1]=z"),
        ("set_subtree", "a..b"),
        ("set_subtree", "[1")]]
    for i in rng.permutation(len(bad)):
        L.append(bad[i])
    L += ["?vnaproperty_import_yaml_from_string $pr1 %s" % qs(y) for y in
          ("{", "a: [", "\t bad", "a: b: c", "- x\n y: z\n")]
    # the vnacal_property_* wrappers: bad index, malformed, missing
    L += ["vc1=vnacal_create",
          "vnacal_property_set $vc1 -1 \"g.h=1\""]
    badc = ["!vnacal_property_%s $vc1 %s %s" % (f, ci, qs(d)) for f, ci, d in [
        ("get", 0, "g.h"), ("get", 5, "g.h"), ("get", -2, "g.h"),
        ("get", -1, "nokey"), ("get", -1, "g"), ("get", -1, "g..h"),
        ("set", 0, "x=1"), ("set", 3, "x=1"), ("set", -1, "g..h=1"),
        ("set", -1, "[q]=1"),
        ("delete", 0, "g"), ("delete", -1, "nokey"), ("delete", -1, "g["),
        ("type", 1, "."), ("type", -1, "nokey"), ("count", 1, "."),
        ("count", -1, "g.h"), ("keys", 2, "."), ("keys", -1, "g.h"),
        ("get_subtree", 1, "."), ("get_subtree", -1, "nokey"),
        ("set_subtree", 1, "x"), ("set_subtree", -1, "g..h")]]
    for i in rng.permutation(len(badc)):
        L.append(badc[i])
    return L


def _vnacal_family(rng):
    """table / parameter / vnacal_new refusals on a vnacal_t that holds one
    real calibration"""
    sc = None
    for _ in range(8):
        ctype = str(rng.choice(["T8", "U8", "TE10", "UE10"]))
        cand = calgen.Scenario(ctype, 2, 2, 2, rng)
        cand.sufficient_recipe(extras=0)
        cand.choose_entries()
        ok, kappa = cand.well_determined(1e4)
        if ok:
            sc = cand
            break
    s = WrapScript()
    marks = {}

    def X(mark, line):
        ln = s.op(line)
        if mark:
            marks[ln] = mark
        return ln
    X("", "vc1=vnacal_create")
    if sc is not None:
        s.quiet += 1
        s.op("vn1=vnacal_new_alloc $vc1 %s %d %d %d" % (sc.ctype, sc.r, sc.c,
                                                        sc.F))
        s.rvec("freq", sc.freqs)
        s.op("vnacal_new_set_frequency_vector $vn1 @freq")
        uid = [0]
        for i, st in enumerate(sc.stds):
            sc.emit_std(s, st, i, vc="vc1", vn="vn1", uid=uid)
        s.op("vnacal_new_solve $vn1")
        s.quiet -= 1
        X("", "ci1=vnacal_add_calibration $vc1 \"good\" $vn1")
    else:
        s.rvec("freq", [1e9, 2e9])
    F = 2
    # ---- table
    tbl = [("!", "cx=vnacal_add_calibration $vc1 \"unsolved\" $vnu"),
           ("!", "cx=vnacal_add_calibration $vc1 \"foreign\" $vnf"),
           ("?", "vnacal_find_calibration $vc1 \"nope\""),
           ("?", "vnacal_delete_calibration $vc1 7"),
           ("?", "vnacal_delete_calibration $vc1 -1"),
           ("!", "vnacal_set_fprecision $vc1 0"),
           ("!", "vnacal_set_dprecision $vc1 -3"),
           ("?", "vnacal_save $vc1 \"no-such-dir/x.vnacal\"")]
    for g in ("name", "type", "rows", "columns", "frequencies", "fmin",
              "fmax", "frequency_vector", "z0"):
        for ci in (-1, 5):
            tbl.append(("?", "vnacal_get_%s $vc1 %d" % (g, ci)))
    s.quiet += 1
    s.op("vnu=vnacal_new_alloc $vc1 T8 1 1 1")
    s.op("vc2=vnacal_create")
    s.op("vnf=vnacal_new_alloc $vc2 T8 1 1 1")
    s.quiet -= 1
    # ---- apply
    s.add("buf am cmatrix 4 %d" % F)
    s.add("buf am1 cmatrix 1 %d" % F)
    s.add("buf am9 cmatrix 9 %d" % F)
    ident = " ".join(cx(v) for v in [1, 1, 0, 0, 0, 0, 1, 1])
    s.add("buf aa cmatrix 4 %d %s" % (F, ident))
    s.add("buf aa0 cmatrix 4 %d" % F)
    s.rvec("flow", [1e3, 2e3])
    s.rvec("fdesc", [3e9, 2e9])
    X("", "vd1=vnadata_alloc")
    ap = [("!", "vnacal_apply_m $vc1 -1 @freq %d @am 2 2 $vd1" % F),
          ("!", "vnacal_apply_m $vc1 9 @freq %d @am 2 2 $vd1" % F),
          ("!", "vnacal_apply_m $vc1 $ci1 @freq -1 @am 2 2 $vd1"),
          ("!", "vnacal_apply_m $vc1 $ci1 @freq %d @am1 1 1 $vd1" % F),
          ("!", "vnacal_apply_m $vc1 $ci1 @freq %d @am9 3 3 $vd1" % F),
          ("!", "vnacal_apply_m $vc1 $ci1 @flow %d @am 2 2 $vd1" % F),
          ("!", "vnacal_apply_m $vc1 $ci1 NULL %d @am 2 2 $vd1" % F),
          ("!", "vnacal_apply_m $vc1 $ci1 @freq %d NULL 2 2 $vd1" % F),
          ("!", "vnacal_apply $vc1 $ci1 @freq %d @aa 2 2 NULL 2 2 $vd1" % F),
          ("!", "vnacal_apply $vc1 $ci1 @freq %d @aa 1 2 @am1 1 1 $vd1" % F),
          ("?", "vnacal_apply $vc1 $ci1 @freq %d @aa0 2 2 @am 2 2 $vd1" % F)]
    if sc is None:
        ap = ap[:2]
    # ---- parameters
    s.rvec("pf", [1e9, 2e9, 3e9])
    s.rvec("pfd", [3e9, 2e9, 1e9])
    s.rvec("pfn", [-1.0, 2e9, 3e9])
    s.cvec("pg", [1, 2j, 3])
    s.rvec("sg", [0.1, 0.1, 0.1])
    # increasing, but by less than any spline routine is likely to accept
    s.rvec("pfclose", [1.0, 1.00001, 3.0])
    s.rvec("sg0", [0.0])
    s.rvec("sgn", [-0.5])
    X("", "pv=vnacal_make_vector_parameter $vc1 @pf 3 @pg")
    X("", "pu=vnacal_make_unknown_parameter $vc1 $pv")
    X("", "pd=vnacal_make_scalar_parameter $vc1 0x1p-2 0x1p-3")
    X("", "vnacal_delete_parameter $vc1 $pd")
    prm = [("!", "px=vnacal_make_vector_parameter $vc1 @pf 0 @pg"),
           ("!", "px=vnacal_make_vector_parameter $vc1 @pf -2 @pg"),
           ("!", "px=vnacal_make_vector_parameter $vc1 @pfd 3 @pg"),
           ("!", "px=vnacal_make_vector_parameter $vc1 @pfn 3 @pg"),
           ("!", "px=vnacal_make_vector_parameter $vc1 NULL 3 @pg"),
           ("!", "px=vnacal_make_vector_parameter $vc1 @pf 3 NULL"),
           ("!", "px=vnacal_make_unknown_parameter $vc1 -1"),
           ("!", "px=vnacal_make_unknown_parameter $vc1 4242"),
           ("!", "px=vnacal_make_unknown_parameter $vc1 $pd"),
           ("!", "px=vnacal_make_correlated_parameter $vc1 -1 NULL 1 @sg"),
           ("!", "px=vnacal_make_correlated_parameter $vc1 $pd NULL 1 @sg"),
           ("!", "px=vnacal_make_correlated_parameter $vc1 $pv @pf 0 @sg"),
           ("!", "px=vnacal_make_correlated_parameter $vc1 $pv @pfd 3 @sg"),
           ("!", "px=vnacal_make_correlated_parameter $vc1 $pv @pf 3 NULL"),
           ("!", "px=vnacal_make_correlated_parameter $vc1 $pv @pfn 3 @sg"),
           ("", "px=vnacal_make_correlated_parameter $vc1 $pv NULL 2 @sg"),
           ("", "px=vnacal_make_correlated_parameter $vc1 1 @pfclose 3 @sg"),
           ("", "px=vnacal_make_correlated_parameter $vc1 1 @pfclose 2 @sg"),
           ("", "px=vnacal_make_correlated_parameter $vc1 0 NULL 3 @sg"),
           ("", "px=vnacal_make_correlated_parameter $vc1 $pv NULL 1 @sg0"),
           ("", "px=vnacal_make_correlated_parameter $vc1 $pv NULL 1 @sgn"),
           ("!", "vnacal_get_parameter_value $vc1 -1 0x1p+30"),
           ("!", "vnacal_get_parameter_value $vc1 4242 0x1p+30"),
           ("!", "vnacal_get_parameter_value $vc1 $pd 0x1p+30"),
           ("!", "vnacal_get_parameter_value $vc1 $pv 0x1p+10"),
           ("!", "vnacal_get_parameter_value $vc1 $pv 0x1p+40"),
           ("!", "vnacal_get_parameter_value $vc1 $pu 0x1p+31"),
           ("!", "vnacal_delete_parameter $vc1 4242"),
           ("!", "vnacal_delete_parameter $vc1 $pd"),
           ("!", "vnacal_delete_parameter $vc1 -4")]
    # ---- vnacal_new
    new = [("!", "vnx=vnacal_new_alloc $vc1 %s" % a) for a in
           ("NOTYPE 2 2 1", "T8 0 2 1", "T8 2 -1 1", "T8 2 2 -1", "7 2 2 1",
            "99 2 2 1", "T8 3 2 1", "U8 2 3 1", "T16 2 1 1", "E12 0 0 1")]
    s.quiet += 1
    s.op("vn3=vnacal_new_alloc $vc1 T8 2 2 2")
    s.quiet -= 1
    s.rvec("nfn", [-1.0, 1e9])
    s.rvec("nfe", [1e9, 1e9])
    s.rvec("nsig", [1e-3, 1e-3])
    s.rvec("nsigneg", [-1e-3, 1e-3])
    s.add("buf nm cmatrix 4 2")
    s.add("buf nm1 cmatrix 1 2")
    s.add("buf na cmatrix 4 2 %s" % ident)
    s.add("buf na0 cmatrix 4 2")
    s.ivec("nsl", ["0", "1", "1", "0"])
    s.ivec("nslbad", ["0", "1", "4242", "0"])
    s.ivec("nsl9", ["0"] * 9)
    s.add("buf na6 cmatrix 6 2")
    s.ivec("nmap", ["1", "2"])
    s.ivec("nmapbad", ["1", "3"])
    s.ivec("nmapdup", ["2", "2"])
    new += [("!", "vnacal_new_set_frequency_vector $vn3 %s" % a) for a in
            ("@fdesc", "@nfn", "NULL")]
    new += [("", "vnacal_new_solve $vn3")]      # no frequency vector yet
    new += [("!", "vnacal_new_set_m_error $vn3 NULL 1 @nsig NULL")]  # before fv
    new += [("", "vnacal_new_set_frequency_vector $vn3 @freq")]
    new += [("!", "vnacal_new_set_m_error $vn3 %s" % a) for a in
            ("@freq 0 @nsig NULL", "@freq -1 @nsig NULL",
             "@fdesc 2 @nsig NULL", "@flow 2 @nsig NULL")]
    # not spelled out in vnacal_new(3): either outcome, but the contract of
    # whatever is reported
    new += [("", "vnacal_new_set_m_error $vn3 %s" % a) for a in
            ("@freq 2 @nsigneg NULL", "@freq 2 NULL @nsig",
             "@freq 2 @nsig @nsigneg", "@nfe 2 @nsig NULL")]
    new += [("", "vnacal_new_set_m_error $vn3 NULL 2 NULL NULL")]
    s.rvec("nfclose", [0.5e9, 0.5e9 + 6e-5, 4e9])
    s.rvec("nsig3", [1e-3, 1e-3, 1e-3])
    new += [("", "vnacal_new_set_m_error $vn3 @nfclose 3 @nsig3 NULL"),
            ("", "vnacal_new_set_m_error $vn3 @nfclose 3 @nsig3 @nsig3")]
    new += [("!", "vnacal_new_set_p_tolerance $vn3 -0x1p-20"),
            ("!", "vnacal_new_set_et_tolerance $vn3 -0x1p-20"),
            ("!", "vnacal_new_set_pvalue_limit $vn3 -0x1p-3"),
            ("!", "vnacal_new_set_pvalue_limit $vn3 0x1p+1"),
            ("!", "vnacal_new_set_iteration_limit $vn3 0"),
            ("!", "vnacal_new_set_iteration_limit $vn3 -5")]
    for sfx, marg in (("_m", "@nm 2 2"), ("", "@na 2 2 @nm 2 2")):
        new += [("!", "vnacal_new_add_single_reflect%s $vn3 %s %s" % (sfx, marg, a))
                for a in ("2 0", "2 3", "2 -1", "4242 1", "-1 1", "$pd 1")]
        new += [("!", "vnacal_new_add_double_reflect%s $vn3 %s %s" % (sfx, marg, a))
                for a in ("1 2 1 1", "1 2 0 2", "1 2 1 3", "4242 2 1 2",
                          "1 $pd 1 2")]
        new += [("!", "vnacal_new_add_through%s $vn3 %s %s" % (sfx, marg, a))
                for a in ("1 1", "0 1", "1 3")]
        new += [("!", "vnacal_new_add_line%s $vn3 %s %s" % (sfx, marg, a))
                for a in ("@nsl 2 2", "@nsl 0 2", "@nslbad 1 2", "NULL 1 2")]
        new += [("!", "vnacal_new_add_mapped_matrix%s $vn3 %s %s" % (sfx, marg, a))
                for a in ("@nsl 2 2 @nmapbad", "@nsl 2 2 @nmapdup",
                          "@nsl 0 2 @nmap", "@nsl 2 -1 @nmap",
                          "@nslbad 2 2 @nmap", "NULL 2 2 @nmap",
                          "@nsl9 3 3 NULL")]
    new += [("!", "vnacal_new_add_single_reflect_m $vn3 NULL 2 2 2 1"),
            ("!", "vnacal_new_add_single_reflect_m $vn3 @nm 0 2 2 1"),
            ("!", "vnacal_new_add_single_reflect_m $vn3 @nm 2 -1 2 1"),
            ("!", "vnacal_new_add_single_reflect $vn3 @na 2 2 NULL 2 2 2 1"),
            ("!", "vnacal_new_add_single_reflect $vn3 @na6 3 2 @nm 2 2 2 1"),
            ("?", "vnacal_new_add_single_reflect $vn3 @na0 2 2 @nm 2 2 2 1"),
            ("?", "vnacal_new_solve $vn3")]
    groups = [tbl, ap, prm, new]
    for gi in rng.permutation(len(groups)):
        g = groups[gi]
        # the vnacal_new group is order dependent
        idx = range(len(g)) if g is new else rng.permutation(len(g))
        for i in idx:
            X(g[i][0], g[i][1])
    X("", "vnacal_save $vc1 \"fam.vnacal\"")
    return s, marks


def family_scripts(rng):
    """-> list of (name, script text, marks: line -> '!' | '?')"""
    out = []
    for name, fn in (("vnadata", _vnadata_family), ("load", _load_family),
                     ("property", _prop_family)):
        s = WrapScript()
        marks = {}
        for line in fn(rng):
            mark = ""
            if line[0] in "!?":
                mark, line = line[0], line[1:]
            ln = s.op(line)
            if mark:
                marks[ln] = mark
        out.append((name, s.text(), marks))
    s, marks = _vnacal_family(rng)
    out.append(("vnacal", s.text(), marks))
    return out


# ----------------------------------------------------------------------
# twin run for the opaque vnacal_new_t
# ----------------------------------------------------------------------
class TwinGen(object):
    """a well-determined scenario entered completely; between the valid calls
    there are calls that must be refused.  Lines are tagged 'refusal'."""

    def __init__(self, rng):
        self.rng = rng
        self.s = Script()
        self.cand = set()     # lines that are refusal candidates
        self.math = set()     # ... refused for a singular 'a' matrix (EDOM)
        self.sc = None
        self.kappa = None
        self.lines = {}

    def scenario(self):
        r = self.rng
        for _ in range(10):
            ctype = str(r.choice(physics.TYPES))
            p = int(r.choice([1, 2, 2, 2, 3]))
            if ctype in ("T16", "U16") and p == 3:
                p = 2
            F = int(r.choice([1, 2, 3]))
            sc = calgen.Scenario(ctype, p, p, F, r)
            sc.sufficient_recipe(extras=int(r.integers(0, 2)))
            sc.choose_entries()
            ok, kappa = sc.well_determined(1e4)
            if ok:
                return sc, kappa
        return None, None

    def refusals(self, vn, sc):
        """a few calls on $vn that the manual declares invalid"""
        r, s = self.rng, self.s
        F = sc.F
        k = int(r.integers(0, 12))
        n = self.n = getattr(self, "n", 0) + 1
        vr = getattr(self, "vec_range", None)
        if vr is not None and r.random() < 0.3:
            # a well-formed sweep (ascending, same count) that leaves the
            # range of a vector parameter a standard already uses: refused
            # late, after the ordinary argument checks have passed
            hi = vr[1]
            if F == 1:
                fv = [hi * 2.0]
            else:
                fv = list(np.linspace(float(sc.freqs[0]), hi * 2.0, F))
            s.rvec("rq%d" % n, fv)
            self.cand.add(s.op("vnacal_new_set_frequency_vector $%s @rq%d" % (
                vn, n)))
            return
        if k == 11:
            if sc.form != "ab":
                k = 5
            else:
                # a valid standard whose 'a' matrix is zero at the last
                # frequency: refused late, after the first ones were divided
                import copy
                st = sc.stds[int(r.integers(0, len(sc.stds)))]
                st2 = copy.copy(st)
                st2.sp = [[copy.copy(q) for q in row] for row in st.sp]
                for row in st2.sp:
                    for q in row:
                        q.var = None
                st2.A = None
                if r.random() < 0.6:
                    # ... and whose first reflection is a parameter this
                    # vnacal_new_t has not seen before, to be solved for: if
                    # the refused standard leaves it behind, later solves
                    # carry an unknown that no equation mentions
                    q = st2.sp[0][0]
                    g = calgen.Param("scalar", np.full(
                        F, complex(np.mean(q.values)) + 0.01, dtype=complex))
                    st2.sp[0][0] = calgen.Param.unknown(q.values, g)
                idx = 7000 + n
                ln = sc.emit_std(s, st2, idx, vn=vn, uid=[800000 + n * 100])
                for i in range(ln - 1, -1, -1):
                    if s.lines[i].startswith("buf a%d cmatrix " % idx):
                        t = s.lines[i].split(" ")
                        cells, nf = int(t[3]), int(t[4])
                        vals = t[5:]
                        for c in range(cells):
                            vals[2 * (c * nf + nf - 1)] = hx(0.0)
                            vals[2 * (c * nf + nf - 1) + 1] = hx(0.0)
                        s.lines[i] = " ".join(t[:5] + vals)
                        break
                self.cand.add(ln)
                self.math.add(ln)
                return
        if k >= 9 and sc.p >= 2:
            # the first handle is valid (a fresh unknown parameter), the
            # second is not: nothing of the refused standard may stay behind
            s.op("ru%d=vnacal_make_unknown_parameter $vc %d" % (
                n, int(r.integers(0, 3))))
            s.add("buf rz%d cmatrix %d %d" % (n, sc.r * sc.c, F))
            # ... for one of several reasons, some of them found only when
            # the parameter is really entered (its frequency range, the range
            # of a correlate further down a chain, a deleted handle)
            why = int(r.integers(0, 6))
            lo = float(sc.freqs[0])
            if why <= 1:
                bad = str(int(r.choice([4242, -1])))
            elif why == 2:
                s.rvec("rvf%d" % n, [lo * 0.1, lo * 0.2])
                s.cvec("rvg%d" % n, [0.5, 0.4 + 0.1j])
                s.op("rv%d=vnacal_make_vector_parameter $vc @rvf%d 2 @rvg%d"
                     % (n, n, n))
                bad = "$rv%d" % n
            elif why in (3, 4):
                s.rvec("rcf%d" % n, [lo * 0.1, lo * 0.2])
                s.rvec("rcs%d" % n, [0.01, 0.02])
                s.op("rs%d=vnacal_make_scalar_parameter $vc %s" % (
                    n, cx(complex(0.3, -0.2))))
                s.op("rc%d=vnacal_make_correlated_parameter $vc $rs%d "
                     "@rcf%d 2 @rcs%d" % (n, n, n, n))
                bad = "$rc%d" % n
                if why == 4:
                    # the short range sits one link down the chain
                    s.rvec("rds%d" % n, [0.05])
                    s.op("rd%d=vnacal_make_correlated_parameter $vc $rc%d "
                         "NULL 1 @rds%d" % (n, n, n))
                    bad = "$rd%d" % n
            else:
                s.op("rx%d=vnacal_make_scalar_parameter $vc %s" % (
                    n, cx(complex(-0.6, 0.1))))
                s.op("vnacal_delete_parameter $vc $rx%d" % n)
                bad = "$rx%d" % n
            self.cand.add(s.op(
                "vnacal_new_add_double_reflect_m $%s @rz%d %d %d $ru%d %s 1 2"
                % (vn, n, sc.r, sc.c, n, bad)))
            return
        if k == 0:
            s.rvec("rf%d" % n, list(sc.freqs[::-1]) if F > 1 else [-1.0])
            self.cand.add(s.op("vnacal_new_set_frequency_vector $%s @rf%d" % (
                vn, n)))
        elif k == 1:
            self.cand.add(s.op("vnacal_new_set_frequency_vector $%s NULL" % vn))
        elif k == 2:
            v = int(r.integers(0, 5))
            f0, f1 = float(sc.freqs[0]), float(sc.freqs[-1])
            if v == 0:
                s.rvec("rs%d" % n, [1e-3] * max(F, 1))
                self.cand.add(s.op(
                    "vnacal_new_set_m_error $%s @freq %d @rs%d NULL"
                    % (vn, int(r.choice([0, -1])), n)))
            else:
                # a noise description on its own grid that is refused late:
                # the end points cover the band, an interior point is out of
                # order / given twice, or the grid misses the band
                lo, hi = 0.9 * f0, 1.1 * f1
                a_, b_ = lo + 0.3 * (hi - lo), lo + 0.6 * (hi - lo)
                grid = {1: [lo, b_, a_, hi], 2: [lo, a_, a_, hi],
                        3: [1.3 * f1, 1.5 * f1, 1.7 * f1, 2.0 * f1],
                        # ascending, but closer than any sweep can resolve
                        4: [lo, a_, a_ + 3e-5, hi]}[v]
                s.rvec("rmf%d" % n, grid)
                s.rvec("rs%d" % n, [1e-3, 2e-3, 1e-3, 3e-3])
                self.cand.add(s.op(
                    "vnacal_new_set_m_error $%s @rmf%d 4 @rs%d %s" % (
                        vn, n, n, "@rs%d" % n if r.random() < 0.5
                        else "NULL")))
        elif k == 3:
            self.cand.add(s.op("vnacal_new_set_pvalue_limit $%s %s" % (
                vn, hx(float(r.choice([-1.0, 2.0, -1e-9]))))))
            self.cand.add(s.op("vnacal_new_set_iteration_limit $%s %d" % (
                vn, int(r.choice([0, -1])))))
        elif k == 4:
            self.cand.add(s.op("vnacal_new_set_p_tolerance $%s %s" % (
                vn, hx(-1e-3))))
            self.cand.add(s.op("vnacal_new_set_et_tolerance $%s %s" % (
                vn, hx(-1.0))))
        else:
            # a mutated copy of a standard of the scenario
            st = sc.stds[int(r.integers(0, len(sc.stds)))]
            g = gen_api.ApiGen(r)
            g.s = s
            g.n = 100000 + n * 50
            import copy
            st2 = copy.copy(st)
            st2.sp = [[copy.copy(q) for q in row] for row in st.sp]
            for row in st2.sp:
                for q in row:
                    q.var = None
            st2.A = None
            ln = sc.emit_std(s, st2, 5000 + n, vn=vn, uid=[900000 + n * 100])
            before = len(s.lines)
            g.mutate_add(ln, None, sc)
            g.mutate_add  # noqa
            if g.must_fail:
                self.cand.update(g.must_fail)
            else:
                # not certainly invalid: remove the call from both twins
                shift = len(s.lines) - before
                s.lines[ln - 1 + shift] = "echo \"dropped\""

    def generate(self):
        r = self.rng
        sc, kappa = self.scenario()
        if sc is None:
            return None
        self.sc, self.kappa = sc, kappa
        s = self.s
        sc.emit_header(s)
        uid = [0]
        L = self.lines
        L["add"] = []
        for i, st in enumerate(sc.stds):
            if r.random() < 0.5:
                self.refusals("vn", sc)
            L["add"].append(sc.emit_std(s, st, i, uid=uid))
            for row in st.sp:
                for q in row:
                    q = getattr(q, "guess", q)
                    if q.kind == "vector":
                        pf = getattr(q, "pfreqs", None)
                        rg = (float(pf[0]), float(pf[-1])) if pf is not None \
                            else (float(sc.freqs[0]), float(sc.freqs[-1]))
                        old = getattr(self, "vec_range", None)
                        self.vec_range = rg if old is None else \
                            (max(old[0], rg[0]), min(old[1], rg[1]))
        for _ in range(int(r.integers(1, 4))):
            self.refusals("vn", sc)
        L["solve"] = s.op("vnacal_new_solve $vn")
        L["addcal"] = s.op("ci=vnacal_add_calibration $vc \"twin\" $vn")
        s.op("vnacal_set_fprecision $vc 1000")
        s.op("vnacal_set_dprecision $vc 1000")
        s.op("vnacal_save $vc \"twin.vnacal\"")
        L["file"] = s.op("read_file \"twin.vnacal\"")
        if sc.can_apply():
            self.duts = sc.rand_dut()
            s.op("vd=vnadata_alloc")
            L["apply"], L["dump"] = sc.emit_apply(s, self.duts, "twin")
        return s.text()

    @staticmethod
    def without(text, lines):
        return "\n".join(l for i, l in enumerate(text.split("\n")[:-1], 1)
                         if i not in lines) + "\n"


# ----------------------------------------------------------------------
# usable after a late failure
# ----------------------------------------------------------------------
def late_solve(rng, mode):
    """mode: 'few' | 'singular' | 'pvalue' | 'nofreq'.
    -> (text, meta) ; meta: lines + scenario"""
    for _ in range(10):
        ctype = str(rng.choice(physics.TYPES if mode != "pvalue" else
                               ["T8", "U8", "TE10", "UE10", "UE14", "E12"]))
        p = int(rng.choice([1, 2, 2]))
        F = int(rng.choice([1, 2, 3, 4]))
        sc = calgen.Scenario(ctype, p, p, F, rng, form="m"
                             if mode == "pvalue" else None)
        sc.sufficient_recipe(extras=2 if mode == "pvalue" else
                             int(rng.integers(0, 2)))
        sc.choose_entries()
        ok, kappa = sc.well_determined(1e3 if mode == "pvalue" else 1e4)
        if ok:
            break
    else:
        return None, None
    s = Script()
    L = {}
    uid = [0]
    sc.emit_header(s)
    n = len(sc.stds)
    if mode == "few":
        first = list(range(int(rng.integers(0, max(1, min(n - 1, 3))))))
    elif mode == "singular":
        first = [0, 0, 0, 0]
    else:
        first = list(range(n))
    added = set()
    idx = 0
    if mode == "pvalue":
        # tiny claimed noise, measurements perturbed far beyond it
        s.rvec("nf", [1e-9] * sc.F)
        L["merr"] = s.op("vnacal_new_set_m_error $vn @freq %d @nf NULL" % sc.F)
    for k in first:
        st = sc.stds[k]
        if mode == "singular" and k in added:
            import copy
            st = copy.copy(st)
            st.sp = [[copy.copy(q) for q in row] for row in sc.stds[k].sp]
            for row in st.sp:
                for q in row:
                    q.var = None
        ln = sc.emit_std(s, st, idx, uid=uid)
        if mode == "pvalue":
            _perturb(s, ln, rng, 1e-6)
        idx += 1
        added.add(k)
    L["fail_solve"] = s.op("vnacal_new_solve $vn")
    L["fail_addcal"] = s.op("cx=vnacal_add_calibration $vc \"early\" $vn")
    if mode == "pvalue":
        L["fix"] = s.op("vnacal_new_set_m_error $vn NULL %d NULL NULL" % sc.F)
    else:
        for k in range(n):
            if k not in added:
                sc.emit_std(s, sc.stds[k], idx, uid=uid)
                idx += 1
    L["solve"] = s.op("vnacal_new_solve $vn")
    L["addcal"] = s.op("ci=vnacal_add_calibration $vc \"late\" $vn")
    s.op("vnacal_find_calibration $vc \"late\"")
    s.op("vnacal_get_name $vc $ci")
    s.op("vnacal_get_type $vc $ci")
    meta = dict(sc=sc, kappa=kappa, lines=L, mode=mode)
    if sc.can_apply():
        meta["duts"] = sc.rand_dut()
        s.op("vd=vnadata_alloc")
        L["apply"], L["dump"] = sc.emit_apply(s, meta["duts"], "late",
                                              form="m" if mode == "pvalue"
                                              else None)
    s.op("vnacal_save $vc \"late.vnacal\"")
    return s.text(), meta


def _perturb(s, ln, rng, eps):
    """add eps-sized noise to the measurement buffer the add call on line ln
    uses (m form)"""
    toks = s.lines[ln - 1].split(" ")
    mname = toks[2][1:]
    for i in range(ln - 1, -1, -1):
        if s.lines[i].startswith("buf %s cmatrix " % mname):
            t = s.lines[i].split(" ")
            head, vals = t[:5], t[5:]
            out = []
            for v in vals:
                out.append(hx(float.fromhex(v) + eps * rng.standard_normal()))
            s.lines[i] = " ".join(head + out)
            return


def late_vnadata(rng):
    """failed init / load / convert, then the destination is queried,
    re-initialised, filled, saved, re-loaded and freed"""
    s = Script()
    L = dict(fails=[], after=[])
    n = int(rng.choice([2, 3]))
    F = int(rng.choice([1, 2, 3]))
    s.op("vd=vnadata_alloc")
    s.op("vnadata_init $vd S %d %d %d" % (n, n, F))
    s.op("vnadata_set_frequency_vector $vd auto")
    for f in range(F):
        s.op("vnadata_set_matrix $vd %d auto" % f)
    s.op("vo=vnadata_alloc")
    kinds = ["init", "load_syntax", "load_missing", "load_partial",
             "convert_dims", "convert_type", "convert_inplace"]
    for k in rng.permutation(len(kinds)):
        kind = kinds[k]
        if kind == "init":
            a = [("S", -1, n, F), ("T", 3, 3, 1), ("11", 2, 2, 1),
                 ("S", 2, 2, -1)][int(rng.integers(0, 4))]
            ln = s.op("vnadata_init $vd %s %s %s %s" % a)
            obj = "vd"
        elif kind == "load_missing":
            ln = s.op("vnadata_load $vd \"missing-file.s2p\"")
            obj = "vd"
        elif kind == "load_syntax":
            name, body, _, _ = BAD_FILES[int(rng.integers(0, len(BAD_FILES)))]
            s.op("write_file %s %s" % (qs(name), qs(body)))
            ln = s.op("vnadata_load $vd %s" % qs(name))
            obj = "vd"
        elif kind == "load_partial":
            # fails at the last data line, after most of the file was parsed
            body = "# Hz S RI R 50\n" + "".join(
                "%de9 1 2 3 4 5 6 7 8\n" % (i + 1) for i in range(5)) + \
                "6e9 1 2 3 4 5 oops 7 8\n"
            s.op("write_file \"partial.s2p\" %s" % qs(body))
            ln = s.op("vnadata_load $vd \"partial.s2p\"")
            obj = "vd"
        elif kind == "convert_dims":
            if n == 3:
                ln = s.op("vnadata_convert $vd $vo T")
            else:
                ln = s.op("vnadata_convert $vd $vo 11")
            obj = "vo"
        elif kind == "convert_type":
            ln = s.op("vnadata_convert $vd $vo -1")
            obj = "vo"
        else:
            ln = s.op("vnadata_convert $vd $vd %s" % ("A" if n == 3 else "12"))
            obj = "vd"
        L["fails"].append((ln, kind))
        # the destination answers every getter ...
        L["after"].append(s.op("dump_vnadata $%s" % obj))
        # ... and can be re-initialised, filled, saved, loaded
        m = int(rng.choice([1, 2]))
        L["after"].append(s.op("vnadata_init $%s Z %d %d 2" % (obj, m, m)))
        L["after"].append(s.op("vnadata_set_frequency_vector $%s auto" % obj))
        L["after"].append(s.op("vnadata_set_matrix $%s 1 auto" % obj))
        L["after"].append(s.op("vnadata_set_z0 $%s 0 0x1.9p+5 0x0p+0" % obj))
        L["after"].append(s.op("vnadata_save $%s \"after%d.npd\"" % (obj, ln)))
        L["after"].append(s.op("vnadata_load $%s \"after%d.npd\"" % (obj, ln)))
        L["after"].append(s.op("dump_vnadata $%s" % obj))
        # restore the source
        if obj == "vd":
            L["after"].append(s.op("vnadata_init $vd S %d %d %d" % (n, n, F)))
            L["after"].append(s.op("vnadata_set_frequency_vector $vd auto"))
    s.op("vnadata_free $vo")
    s.op("vnadata_free $vd")
    return s.text(), L
