"""Abstract model of vnadata_t written from vnadata(3) (and the notes in
vnadata.h): a typed  frequency x rows x columns  array with ordinary (z0) or
per-frequency (fz0) reference impedances.  Nothing here calls libvna.

The model is purely logical: there is no hidden storage.  Whatever a resize,
add_frequency or in-place conversion exposes that was not visible before
carries the initial value (cell 0, frequency 0, impedance 50 ohm).

`step(M, op)` returns the list of outcomes the manual allows for an operation
(`Alt`); more than one entry means the manual is silent on a point and either
behaviour is accepted.  The first entry is the "primary" outcome used by
workload generators.  `Monitor` turns operations into driver script lines and
judges the recorded events against the model.
"""
import zlib

INF = float("inf")
Z0_DEFAULT = 50.0

TYPE_NAMES = ["UNDEF", "S", "T", "U", "Z", "Y", "H", "G", "A", "B", "ZIN"]
T_UNDEF, T_S, T_T, T_U, T_Z, T_Y, T_H, T_G, T_A, T_B, T_ZIN = range(11)
NTYPES = 11
SQUARE_TYPES = (T_S, T_Z, T_Y)
TWO_PORT_TYPES = (T_T, T_U, T_H, T_G, T_A, T_B)
MATRIX_TYPES = tuple(range(1, 10))

ADOPT = "<adopt>"      # data row whose values are taken from the observation
ANY = "<any>"          # return value not predicted

# failure values by return kind
FAIL_INT = -1
FAIL_REAL = INF
FAIL_CPLX = [INF, 0]
FAIL_PTR = None


def type_fits(t, rows, cols):
    """True / False / None (= the manual does not say)"""
    if not isinstance(t, int) or t < 0 or t >= NTYPES:
        return False
    if rows < 0 or cols < 0:
        return False
    if t == T_UNDEF:
        return True
    if t in SQUARE_TYPES:
        return rows == cols
    if t in TWO_PORT_TYPES:
        return rows == 2 and cols == 2
    # ZIN: a row vector, one entry per port
    if rows == 1:
        return True if cols >= 1 else None
    if rows == 0 and cols == 0:
        return None
    return False


def jz(z):
    if z is None:
        return None
    z = complex(z)
    return [z.real, z.imag]


def eq(a, b):
    """equality of JSON-like values where NaN equals NaN and a complex number
    equals its [re, im] pair"""
    try:
        if a == b:
            return True
    except Exception:
        pass
    if isinstance(a, complex):
        a = [a.real, a.imag]
    if isinstance(b, complex):
        b = [b.real, b.imag]
    if isinstance(a, (list, tuple)) and isinstance(b, (list, tuple)):
        return len(a) == len(b) and all(eq(x, y) for x, y in zip(a, b))
    if isinstance(a, bool) or isinstance(b, bool):
        return a == b
    if isinstance(a, (int, float)) and isinstance(b, (int, float)):
        return (a != a and b != b) or a == b
    return False


class VD(object):
    __slots__ = ("type", "rows", "cols", "freq", "data", "fz", "z0", "fz0")

    def __init__(self):
        self.type = T_UNDEF
        self.rows = 0
        self.cols = 0
        self.freq = []     # F reals
        self.data = []     # F lists of rows*cols complex (or ADOPT)
        self.fz = False    # per-frequency impedances in use
        self.z0 = []       # ports complex          (when not fz)
        self.fz0 = []      # F lists of ports complex (when fz)

    # -- helpers
    @property
    def F(self):
        return len(self.freq)

    @property
    def ports(self):
        return max(self.rows, self.cols)

    @property
    def cells(self):
        return self.rows * self.cols

    def clone(self):
        o = VD()
        o.type, o.rows, o.cols = self.type, self.rows, self.cols
        o.freq = list(self.freq)
        o.data = [d if d is ADOPT else list(d) for d in self.data]
        o.fz = self.fz
        o.z0 = list(self.z0)
        o.fz0 = [list(v) for v in self.fz0]
        return o

    def zvec(self, findex):
        """the reference impedances in force at a frequency"""
        return self.fz0[findex] if self.fz else self.z0

    def dump(self):
        """same layout as the driver's dump_vnadata (without format fields)"""
        d = {"type": self.type, "rows": self.rows, "cols": self.cols,
             "F": self.F, "freq": list(self.freq),
             "data": [row if row is ADOPT else [jz(v) for v in row]
                      for row in self.data],
             "has_fz0": self.fz}
        if self.fz:
            d["fz0"] = [[jz(v) for v in row] for row in self.fz0]
        else:
            d["z0"] = [jz(v) for v in self.z0]
        return d

    def brief(self):
        return "%s %dx%d F=%d %s" % (TYPE_NAMES[self.type], self.rows,
                                     self.cols, self.F,
                                     "fz0" if self.fz else "z0")

    # -- state transformers (always valid arguments)
    def resized(self, t, rows, cols, F):
        o = VD()
        o.type, o.rows, o.cols = t, rows, cols
        ncell = rows * cols
        nport = max(rows, cols)
        keepf = min(F, self.F)
        o.freq = self.freq[:keepf] + [0.0] * (F - keepf)
        for fi in range(F):
            if fi < keepf:
                old = self.data[fi]
                if old is ADOPT:
                    row = ADOPT
                else:
                    row = old[:ncell] + [0j] * (ncell - len(old[:ncell]))
            else:
                row = [0j] * ncell
            o.data.append(row)
        o.fz = self.fz
        if self.fz:
            for fi in range(F):
                if fi < keepf:
                    old = self.fz0[fi][:nport]
                    o.fz0.append(old + [complex(Z0_DEFAULT)] *
                                 (nport - len(old)))
                else:
                    o.fz0.append([complex(Z0_DEFAULT)] * nport)
        else:
            old = self.z0[:nport]
            o.z0 = old + [complex(Z0_DEFAULT)] * (nport - len(old))
        return o

    def fresh(self, t, rows, cols, F):
        o = VD()
        return o.resized(t, rows, cols, F)

    def to_z0_mode(self):
        """set_z0* while fz0 is in use: discard, all ports 50 ohm"""
        if self.fz:
            self.fz = False
            self.fz0 = []
            self.z0 = [complex(Z0_DEFAULT)] * self.ports

    def to_fz0_mode(self):
        """set_fz0* while z0 is in use: every frequency inherits z0"""
        if not self.fz:
            self.fz = True
            self.fz0 = [list(self.z0) for _ in range(self.F)]
            self.z0 = []


class Alt(object):
    """one allowed outcome: ok (success / refusal), ret (value on success),
    states (objects whose state changes: name -> VD), why (reason of a
    refusal), retkind (which failure value applies)"""
    __slots__ = ("ok", "ret", "states", "why", "out")

    def __init__(self, ok, ret=None, states=None, why="", out=None):
        self.ok = ok
        self.ret = ret
        self.states = states or {}
        self.why = why
        self.out = out


# return kind per operation: which failure value a refusal must produce
RETKIND = {
    "vnadata_init": "int", "vnadata_resize": "int", "vnadata_set_type": "int",
    "vnadata_add_frequency": "int",
    "vnadata_get_frequencies": "int", "vnadata_get_rows": "int",
    "vnadata_get_columns": "int", "vnadata_get_type": "int",
    "vnadata_has_fz0": "int",
    "vnadata_get_fmin": "real", "vnadata_get_fmax": "real",
    "vnadata_get_frequency": "real", "vnadata_set_frequency": "int",
    "vnadata_get_frequency_vector": "ptr",
    "vnadata_set_frequency_vector": "int",
    "vnadata_get_cell": "cplx", "vnadata_set_cell": "int",
    "vnadata_get_matrix": "ptr", "vnadata_set_matrix": "int",
    "vnadata_get_to_vector": "int", "vnadata_set_from_vector": "int",
    "vnadata_get_z0": "cplx", "vnadata_set_z0": "int",
    "vnadata_set_all_z0": "int",
    "vnadata_get_z0_vector": "ptr", "vnadata_set_z0_vector": "int",
    "vnadata_get_fz0": "cplx", "vnadata_set_fz0": "int",
    "vnadata_get_fz0_vector": "ptr", "vnadata_set_fz0_vector": "int",
    "vnadata_convert": "int",
}
FAILVAL = {"int": FAIL_INT, "real": FAIL_REAL, "cplx": FAIL_CPLX,
           "ptr": FAIL_PTR}
MUTATORS = {
    "vnadata_init", "vnadata_resize", "vnadata_set_type",
    "vnadata_add_frequency", "vnadata_set_frequency",
    "vnadata_set_frequency_vector", "vnadata_set_cell", "vnadata_set_matrix",
    "vnadata_set_from_vector", "vnadata_set_z0", "vnadata_set_all_z0",
    "vnadata_set_z0_vector", "vnadata_set_fz0", "vnadata_set_fz0_vector",
    "vnadata_convert"}


def _idx(i, n, what):
    """None when i is a valid index, otherwise the reason of the refusal"""
    if 0 <= i < n:
        return None
    if i == n:
        return "index-n-%s" % what
    return "index-out-%s" % what


def convert_accepts(vd, newtype):
    """(accepted, is_zin, same): the conversions vnadata(3) lists: all 72
    conversions between the nine matrix types, the nine conversions to input
    impedances, and same-type copies; two-port types need 2x2 data.
    accepted is None where the manual does not say (0x0 matrices)."""
    t = vd.type
    if not isinstance(newtype, int) or newtype < 0 or newtype >= NTYPES:
        return False, False, False
    if t == newtype:
        return True, False, True
    if t == T_UNDEF or newtype == T_UNDEF or t == T_ZIN:
        return False, False, False
    # t in matrix types, newtype a different matrix type or ZIN
    if vd.rows != vd.cols:
        return False, False, False       # cannot happen for a typed matrix
    if t in TWO_PORT_TYPES and (vd.rows != 2):
        return False, False, False
    if newtype in TWO_PORT_TYPES and vd.rows != 2:
        return False, False, False
    if vd.rows == 0:
        return None, newtype == T_ZIN, False
    return True, newtype == T_ZIN, False


def step(M, op):
    """M: dict name -> VD.  op: (function, object, args...).  Returns the
    list of allowed outcomes; M itself is not modified."""
    fn = op[0]
    if fn == "vnadata_convert":
        return _step_convert(M, op)
    vd = M[op[1]]
    name = op[1]
    a = op[2:]
    F, rows, cols, ports = vd.F, vd.rows, vd.cols, vd.ports

    def changed(o):
        return {name: o}

    if fn in ("vnadata_init", "vnadata_resize"):
        t, r, c, f = a
        fits = type_fits(t, r, c) if (r >= 0 and c >= 0) else False
        if f < 0:
            fits = False
        why = "bad-type" if not (isinstance(t, int) and 0 <= t < NTYPES) \
            else ("negative-dimension" if (r < 0 or c < 0 or f < 0)
                  else "type-dimension")
        base = vd if fn == "vnadata_resize" else VD()
        alts = []
        if fits is not False:
            alts.append(Alt(True, 0, changed(base.resized(t, r, c, f))))
        if fits is not True:
            alts.append(Alt(False, why=why))
            if fn == "vnadata_init":
                # the manual does not say what a failed init leaves behind
                alts.append(Alt(False, why=why, states=changed(VD())))
        return alts
    if fn == "vnadata_set_type":
        t = a[0]
        fits = type_fits(t, rows, cols)
        alts = []
        if fits is not False:
            o = vd.clone()
            o.type = t
            alts.append(Alt(True, 0, changed(o)))
        if fits is not True:
            alts.append(Alt(False, why="bad-type" if not (
                isinstance(t, int) and 0 <= t < NTYPES) else "type-dimension"))
        return alts
    if fn == "vnadata_add_frequency":
        f = a[0]
        o = vd.resized(vd.type, rows, cols, F + 1)
        o.freq[F] = f
        ok = Alt(True, 0, changed(o))
        if f < 0 or f != f:
            # negative frequencies: the manual is silent
            return [Alt(False, why="negative-frequency"), ok]
        return [ok]
    if fn == "vnadata_get_frequencies":
        return [Alt(True, F)]
    if fn == "vnadata_get_rows":
        return [Alt(True, rows)]
    if fn == "vnadata_get_columns":
        return [Alt(True, cols)]
    if fn == "vnadata_get_type":
        return [Alt(True, vd.type)]
    if fn == "vnadata_has_fz0":
        return [Alt(True, 1 if vd.fz else 0)]
    if fn in ("vnadata_get_fmin", "vnadata_get_fmax"):
        if F == 0:
            return [Alt(False, why="no-frequencies")]
        first = vd.freq[0] if fn.endswith("fmin") else vd.freq[-1]
        srt = sorted(vd.freq)
        ext = srt[0] if fn.endswith("fmin") else srt[-1]
        alts = [Alt(True, first)]
        if not eq(first, ext):
            # "lowest / highest": for an unsorted vector either reading
            alts.append(Alt(True, ext))
        if any(x != x for x in vd.freq):
            alts = [Alt(True, ANY)]
        return alts
    if fn == "vnadata_get_frequency":
        why = _idx(a[0], F, "findex")
        if why:
            return [Alt(False, why=why)]
        return [Alt(True, vd.freq[a[0]])]
    if fn == "vnadata_set_frequency":
        why = _idx(a[0], F, "findex")
        if why:
            return [Alt(False, why=why)]
        o = vd.clone()
        o.freq[a[0]] = a[1]
        return [Alt(True, 0, changed(o))]
    if fn == "vnadata_get_frequency_vector":
        if F == 0:
            return [Alt(True, []), Alt(True, None)]
        return [Alt(True, list(vd.freq))]
    if fn == "vnadata_set_frequency_vector":
        o = vd.clone()
        o.freq = [float(x) for x in a[0][:F]]
        return [Alt(True, 0, changed(o))]
    if fn in ("vnadata_get_cell", "vnadata_set_cell"):
        fi, r, c = a[0], a[1], a[2]
        why = _idx(fi, F, "findex") or _idx(r, rows, "row") or \
            _idx(c, cols, "column")
        if why:
            return [Alt(False, why=why)]
        if fn == "vnadata_get_cell":
            return [Alt(True, jz(vd.data[fi][r * cols + c]))]
        o = vd.clone()
        o.data[fi][r * cols + c] = complex(a[3])
        return [Alt(True, 0, changed(o))]
    if fn == "vnadata_get_matrix":
        why = _idx(a[0], F, "findex")
        if why:
            return [Alt(False, why=why)]
        if vd.cells == 0:
            return [Alt(True, []), Alt(True, None)]
        return [Alt(True, [jz(v) for v in vd.data[a[0]]])]
    if fn == "vnadata_set_matrix":
        why = _idx(a[0], F, "findex")
        if why:
            return [Alt(False, why=why)]
        o = vd.clone()
        o.data[a[0]] = [complex(v) for v in a[1][:vd.cells]]
        return [Alt(True, 0, changed(o))]
    if fn in ("vnadata_get_to_vector", "vnadata_set_from_vector"):
        r, c = a[0], a[1]
        why = _idx(r, rows, "row") or _idx(c, cols, "column")
        if why:
            return [Alt(False, why=why)]
        k = r * cols + c
        if fn == "vnadata_get_to_vector":
            return [Alt(True, 0, out=[jz(vd.data[fi][k]) for fi in range(F)])]
        o = vd.clone()
        for fi in range(F):
            o.data[fi][k] = complex(a[2][fi])
        return [Alt(True, 0, changed(o))]
    # ---- ordinary impedances
    if fn == "vnadata_get_z0":
        why = _idx(a[0], ports, "port") or ("fz0-in-use" if vd.fz else None)
        if why:
            return [Alt(False, why=why)]
        return [Alt(True, jz(vd.z0[a[0]]))]
    if fn == "vnadata_set_z0":
        why = _idx(a[0], ports, "port")
        if why:
            return [Alt(False, why=why)]
        o = vd.clone()
        o.to_z0_mode()
        o.z0[a[0]] = complex(a[1])
        return [Alt(True, 0, changed(o))]
    if fn == "vnadata_set_all_z0":
        o = vd.clone()
        o.to_z0_mode()
        o.z0 = [complex(a[0])] * ports
        return [Alt(True, 0, changed(o))]
    if fn == "vnadata_get_z0_vector":
        if vd.fz:
            return [Alt(False, why="fz0-in-use")]
        if ports == 0:
            return [Alt(True, []), Alt(True, None)]
        return [Alt(True, [jz(v) for v in vd.z0])]
    if fn == "vnadata_set_z0_vector":
        o = vd.clone()
        o.to_z0_mode()
        o.z0 = [complex(v) for v in a[0][:ports]]
        return [Alt(True, 0, changed(o))]
    # ---- per-frequency impedances
    if fn == "vnadata_get_fz0":
        fi, p = a
        whyp = _idx(p, ports, "port")
        whyf = _idx(fi, F, "findex")
        if vd.fz:
            if whyf or whyp:
                return [Alt(False, why=whyf or whyp)]
            return [Alt(True, jz(vd.fz0[fi][p]))]
        if whyp:
            return [Alt(False, why=whyp)]
        if whyf:
            # "in the latter case they don't use the findex argument"
            return [Alt(False, why=whyf), Alt(True, jz(vd.z0[p]))]
        return [Alt(True, jz(vd.z0[p]))]
    if fn == "vnadata_get_fz0_vector":
        fi = a[0]
        whyf = _idx(fi, F, "findex")
        empty = [Alt(True, []), Alt(True, None)]
        if vd.fz:
            if whyf:
                return [Alt(False, why=whyf)]
            if ports == 0:
                return empty
            return [Alt(True, [jz(v) for v in vd.fz0[fi]])]
        okv = empty if ports == 0 else [Alt(True, [jz(v) for v in vd.z0])]
        if whyf:
            return [Alt(False, why=whyf)] + okv
        return okv
    if fn == "vnadata_set_fz0":
        fi, p, z = a
        why = _idx(fi, F, "findex") or _idx(p, ports, "port")
        if why:
            return [Alt(False, why=why)]
        o = vd.clone()
        o.to_fz0_mode()
        o.fz0[fi][p] = complex(z)
        return [Alt(True, 0, changed(o))]
    if fn == "vnadata_set_fz0_vector":
        fi, vec = a
        why = _idx(fi, F, "findex")
        if why:
            return [Alt(False, why=why)]
        o = vd.clone()
        o.to_fz0_mode()
        o.fz0[fi] = [complex(v) for v in vec[:ports]]
        return [Alt(True, 0, changed(o))]
    raise ValueError("datamodel: unknown operation %r" % (fn,))


def _step_convert(M, op):
    _, sname, dname, newtype = op
    src = M[sname]
    acc, is_zin, same = convert_accepts(src, newtype)
    alts = []
    if acc is not False:
        if is_zin:
            n = min(src.rows, src.cols)
            nr, nc = 1, n
        else:
            nr, nc = src.rows, src.cols
        o = VD()
        o.type, o.rows, o.cols = newtype, nr, nc
        o.freq = list(src.freq)
        if same:
            o.data = [list(d) for d in src.data]
        else:
            o.data = [ADOPT] * src.F
        o.fz = src.fz
        # impedances are carried over; the vector length is max(rows, cols)
        np_ = o.ports
        pad = [complex(Z0_DEFAULT)] * np_
        o.z0 = (list(src.z0) + pad)[:np_] if not src.fz else []
        o.fz0 = [(list(v) + pad)[:np_] for v in src.fz0]
        alts.append(Alt(True, 0, {dname: o}))
        if acc is None and is_zin:
            # input impedances of a 0-port matrix: 1x0 or 0x0, the manual
            # does not say
            oz = o.clone()
            oz.data = list(o.data)
            oz.rows = oz.cols = 0
            oz.z0 = [] if not oz.fz else []
            oz.fz0 = [[] for _ in oz.fz0]
            alts.append(Alt(True, 0, {dname: oz}))
        if dname != sname and src.fz and src.F == 0:
            # nothing per-frequency to carry over: the mode of the result
            # is not determined by "impedances are carried over"
            o2 = o.clone()
            o2.data = list(o.data)
            o2.fz = False
            o2.fz0 = []
            o2.z0 = [complex(Z0_DEFAULT)] * o2.ports
            alts.append(Alt(True, 0, {dname: o2}))
            if acc is None and is_zin:
                # both open points at once
                o3 = o2.clone()
                o3.data = list(o2.data)
                o3.rows = o3.cols = 0
                o3.z0 = []
                alts.append(Alt(True, 0, {dname: o3}))
    if acc is not True:
        why = "bad-type" if not (isinstance(newtype, int) and
                                 0 <= newtype < NTYPES) else "no-such-conversion"
        alts.append(Alt(False, why=why))
    return alts


# ----------------------------------------------------------------------
# script emission and judging
# ----------------------------------------------------------------------
def _hx(x):
    x = float(x)
    if x != x:
        return "nan"
    if x in (INF, -INF):
        return "inf" if x > 0 else "-inf"
    return x.hex()


def _cx(z):
    z = complex(z)
    return _hx(z.real) + " " + _hx(z.imag)


def emit(script, op, dump=True):
    """append the driver lines of one operation; returns (line of the op,
    {object: line of its dump})"""
    fn = op[0]
    if fn == "vnadata_convert":
        _, s, d, t = op
        ln = script.op(fn, "$" + s, "$" + d, t)
        objs = [s] if s == d else [s, d]
    else:
        obj = "$" + op[1]
        a = op[2:]
        objs = [op[1]]
        if fn in ("vnadata_init", "vnadata_resize"):
            ln = script.op(fn, obj, a[0], a[1], a[2], a[3])
        elif fn == "vnadata_set_type":
            ln = script.op(fn, obj, a[0])
        elif fn == "vnadata_add_frequency":
            ln = script.op(fn, obj, _hx(a[0]))
        elif fn == "vnadata_set_frequency":
            ln = script.op(fn, obj, a[0], _hx(a[1]))
        elif fn == "vnadata_set_frequency_vector":
            script.rvec("q_", a[0])
            ln = script.op(fn, obj, "@q_")
        elif fn == "vnadata_set_cell":
            ln = script.op(fn, obj, a[0], a[1], a[2], _cx(a[3]))
        elif fn == "vnadata_set_matrix":
            script.cvec("q_", a[1])
            ln = script.op(fn, obj, a[0], "@q_")
        elif fn == "vnadata_set_from_vector":
            script.cvec("q_", a[2])
            ln = script.op(fn, obj, a[0], a[1], "@q_")
        elif fn == "vnadata_set_z0":
            ln = script.op(fn, obj, a[0], _cx(a[1]))
        elif fn == "vnadata_set_all_z0":
            ln = script.op(fn, obj, _cx(a[0]))
        elif fn == "vnadata_set_z0_vector":
            script.cvec("q_", a[0])
            ln = script.op(fn, obj, "@q_")
        elif fn == "vnadata_set_fz0":
            ln = script.op(fn, obj, a[0], a[1], _cx(a[2]))
        elif fn == "vnadata_set_fz0_vector":
            script.cvec("q_", a[1])
            ln = script.op(fn, obj, a[0], "@q_")
        else:  # getters: plain integer arguments
            ln = script.op(fn, obj, *a)
    dl = {}
    if dump:
        for o in objs:
            dl[o] = script.op("dump_vnadata", "$" + o)
    return ln, dl


def op_text(op):
    def f(x):
        if isinstance(x, (list, tuple)):
            return "[%d values]" % len(x)
        if isinstance(x, complex):
            return "(%g%+gj)" % (x.real, x.imag)
        return str(x)
    return "%s(%s)" % (op[0], ", ".join(f(x) for x in op[1:]))


META_KEYS = ("format", "filetype", "fprec", "dprec")


def _split_dump(d):
    core = {k: v for k, v in d.items() if k not in META_KEYS}
    meta = tuple(d.get(k) for k in META_KEYS)
    return core, meta


def dump_matches(model, core):
    """compare a model state with an observed dump; rows marked ADOPT match
    any values of the right length.  Returns None or the name of the first
    part that differs."""
    want = model.dump()
    for k in ("type", "rows", "cols", "F"):
        if want[k] != core.get(k):
            return "dimensions" if k != "type" else "type"
    if not eq(want["freq"], core.get("freq")):
        return "frequency"
    if want["has_fz0"] != core.get("has_fz0"):
        return "z0-mode"
    if model.fz:
        if not eq(want["fz0"], core.get("fz0")):
            return "fz0"
    else:
        if not eq(want["z0"], core.get("z0")):
            return "z0"
    got = core.get("data")
    if not isinstance(got, list) or len(got) != len(want["data"]):
        return "data"
    ncell = model.rows * model.cols
    for w, g in zip(want["data"], got):
        if w is ADOPT:
            if not isinstance(g, list) or len(g) != ncell:
                return "data"
        elif not eq(w, g):
            return "data"
    return None


def blank_adopt(model):
    """generator side: converted values are unknown (None)"""
    for fi, row in enumerate(model.data):
        if row is ADOPT:
            model.data[fi] = [None] * (model.rows * model.cols)


def adopt_data(model, core):
    for fi, row in enumerate(model.data):
        if row is ADOPT:
            model.data[fi] = [complex(a, b) for a, b in core["data"][fi]]


def _exposed_diff(before, after_model, core, part):
    """does the observed dump differ from the model in a place that was not
    visible before the operation (=> stale storage) ?"""
    try:
        if part == "data":
            for fi in range(after_model.F):
                w = after_model.data[fi]
                g = core["data"][fi]
                if w is ADOPT:
                    continue
                for k in range(len(w)):
                    if not eq(jz(w[k]), g[k]):
                        vis = fi < before.F and k < before.cells
                        return not vis
        if part == "frequency":
            for fi in range(after_model.F):
                if not eq(after_model.freq[fi], core["freq"][fi]):
                    return fi >= before.F
        if part == "z0":
            for p in range(after_model.ports):
                if not eq(jz(after_model.z0[p]), core["z0"][p]):
                    return p >= before.ports
        if part == "fz0":
            for fi in range(after_model.F):
                for p in range(after_model.ports):
                    if not eq(jz(after_model.fz0[fi][p]), core["fz0"][fi][p]):
                        return fi >= before.F or p >= before.ports
    except Exception:
        return False
    return False


class Monitor(object):
    """generates scripts from operations and judges the event log"""

    def __init__(self, prop, objects=("v", "w")):
        self.prop = prop
        self.objects = list(objects)

    def prologue(self, script):
        for o in self.objects:
            script.op("%s=vnadata_alloc" % o)
        lines = {}
        for o in self.objects:
            lines[o] = script.op("dump_vnadata", "$" + o)
        return lines

    def judge(self, res, text, steps, first_dumps, stats=None, hook=None):
        """steps: list of (op, line, {obj: dumpline}).  Returns (violation
        dict or None, number of steps judged, last judged line, models).
        hook(op, alt, ev, before, M, dumps) may add checks of its own (C05:
        before / M are the models before / after the step) and returns a
        violation dict (key, desc) or None."""
        M = {o: VD() for o in self.objects}
        meta = {}
        lines = text.split("\n")
        judged = 0
        last_line = 0

        def viol(kind, fn, desc, upto):
            return dict(key="%s:%s:%s" % (self.prop, kind, fn), desc=desc,
                        script="\n".join(lines[:upto]) + "\n", line=upto)

        for o, ln in first_dumps.items():
            ev = res.ev(ln)
            if ev is None or "out" not in ev:
                return None, judged, last_line, M
            core, mt = _split_dump(ev["out"])
            meta[o] = mt
            part = dump_matches(M[o], core)
            if part:
                return viol("state-" + part, "vnadata_alloc",
                            "a new object is not empty: %s" % (core,),
                            ln), judged, ln, M
        for op, ln, dl in steps:
            ev = res.ev(ln)
            if ev is None or "ret" not in ev:
                break       # crash / skipped: standard violations cover it
            fn = op[0]
            alts = step(M, op)
            kind = RETKIND[fn]
            failv = FAILVAL[kind]
            obs = {}
            ok_dumps = True
            for o, dln in dl.items():
                dev = res.ev(dln)
                if dev is None or "out" not in dev:
                    ok_dumps = False
                    break
                obs[o] = _split_dump(dev["out"])
            if not ok_dumps:
                break
            last_line = max([ln] + list(dl.values()))
            # classify the observed return
            ret = ev.get("ret")
            chosen = None
            reasons = []
            for alt in alts:
                r = self._match(alt, ev, ret, failv, kind, M, obs)
                if r is None:
                    chosen = alt
                    break
                reasons.append(r)
            if chosen is None:
                kindname, detail = self._classify(alts, reasons, ev, ret,
                                                  failv, M, obs, op)
                desc = "%s on %s\n  expected: %s\n  observed: ret=%s errno=%s" \
                       " cb=%s%s\n  %s" % (
                           op_text(op), " / ".join(
                               "%s=%s" % (o, M[o].brief()) for o in self.objects),
                           self._describe(alts[0], failv), ret,
                           ev.get("errno"), ev.get("cb"),
                           (" out=%s" % ev.get("out")) if "out" in ev else "",
                           detail)
                return viol(kindname, fn, desc, last_line), judged, \
                    last_line, M
            # adopt
            before = dict(M)
            for o, st in chosen.states.items():
                M[o] = st.clone()
                if o in obs:
                    adopt_data(M[o], obs[o][0])
            # format / filetype / precisions must not move (the destination
            # of a conversion may take the source's)
            for o, (core, mt) in obs.items():
                prev = meta.get(o)
                allowed = [prev]
                if fn == "vnadata_convert" and o == op[2] and op[1] != op[2]:
                    allowed.append(meta.get(op[1]))
                if mt not in allowed:
                    return viol("state-format", fn,
                                "%s changed format/filetype/precisions of %s "
                                "from %s to %s" % (op_text(op), o, prev, mt),
                                last_line), judged, last_line, M
                meta[o] = mt
            if hook is not None:
                v = hook(op, chosen, ev, before, M, obs)
                if v is not None:
                    v = dict(v)
                    v.setdefault("script", "\n".join(lines[:last_line]) + "\n")
                    v["line"] = last_line
                    return v, judged, last_line, M
            judged += 1
            if stats is not None:
                k = ("ok:" if chosen.ok else "refused:") + fn
                stats[k] = stats.get(k, 0) + 1
                if not chosen.ok:
                    w = "why:" + chosen.why
                    stats[w] = stats.get(w, 0) + 1
        return None, judged, last_line, M

    # -- helpers
    def _describe(self, alt, failv):
        if alt.ok:
            s = "success ret=%s" % (alt.ret,)
            if alt.out is not None:
                s += " out=%s" % (alt.out,)
            if alt.states:
                s += " new state " + ", ".join(
                    "%s=%s" % (o, st.brief()) for o, st in alt.states.items())
            return s
        return "refusal (%s): ret=%s errno=EINVAL, no effect" % (alt.why, failv)

    def _match(self, alt, ev, ret, failv, kind, M, obs):
        """None when the event and dumps fit this alternative, else a reason
        tuple (what, part)"""
        if alt.ok:
            if alt.ret is not ANY and not eq(alt.ret, ret):
                # a refusal looks like the failure value
                return ("ret", None)
            if alt.out is not None and not eq(alt.out, ev.get("out")):
                return ("out", None)
        else:
            if not eq(ret, failv):
                return ("accepted", None)
            if ev.get("errno") != "EINVAL":
                return ("errno", None)
            if "out" in ev and ev.get("op") == "vnadata_get_to_vector":
                return ("out", None)
        for o, (core, mt) in obs.items():
            want = alt.states.get(o, M[o])
            part = dump_matches(want, core)
            if part:
                return ("state", part, o)
        return None

    def _classify(self, alts, reasons, ev, ret, failv, M, obs, op):
        prim = alts[0]
        r = reasons[0]
        what = r[0]
        if not prim.ok:
            if what == "accepted":
                return prim.why + "-accepted", \
                    "the call must be refused (%s)" % prim.why
            if what == "errno":
                return "wrong-errno", "errno must be EINVAL"
            if what == "state":
                return "refused-but-modified", \
                    "a refused call changed the %s of %s: %s" % (
                        r[1], r[2], obs[r[2]][0])
            return "wrong-value", "unexpected output of a refused call"
        # primary expects success
        if what in ("ret", "out"):
            if eq(ret, failv) and not eq(prim.ret, failv):
                return "valid-refused", "a valid call was refused"
            return "wrong-value", "wrong value returned"
        if what == "state":
            part, o = r[1], r[2]
            want = prim.states.get(o, M[o])
            stale = _exposed_diff(M[o], want, obs[o][0], part)
            detail = "%s of %s differs\n  model   : %s\n  observed: %s" % (
                part, o, want.dump(), obs[o][0])
            if o not in prim.states:
                return "bystander-modified", detail
            if stale:
                return "stale-" + part, "newly exposed " + detail
            return "state-" + part, detail
        return "mismatch", str(reasons)


def text_id(text):
    return zlib.crc32(text.encode()) & 0xffffffff


# ----------------------------------------------------------------------
# workload generation (shared by C15 and C05)
# ----------------------------------------------------------------------
class Gen(object):
    """random operations against a generator-side copy of the model.  All
    randomness comes from the numpy Generator passed in."""

    WEIGHTS = [
        ("resize", 12), ("init", 2), ("set_type", 3), ("add_frequency", 3),
        ("set_cell", 6), ("get_cell", 4), ("set_matrix", 5), ("get_matrix", 2),
        ("set_from_vector", 3), ("get_to_vector", 2), ("set_frequency", 2),
        ("get_frequency", 2), ("set_frequency_vector", 1),
        ("get_frequency_vector", 1), ("fminmax", 1), ("set_z0", 4),
        ("get_z0", 3), ("set_all_z0", 1), ("set_z0_vector", 2),
        ("get_z0_vector", 1), ("set_fz0", 5), ("get_fz0", 3),
        ("set_fz0_vector", 3), ("get_fz0_vector", 2), ("has_fz0", 1),
        ("dims", 1), ("convert", 7)]

    def __init__(self, rng, maxdim=6, objects=("v", "w"), weights=None):
        self.rng = rng
        self.D = maxdim
        self.objects = list(objects)
        self.M = {o: VD() for o in self.objects}
        w = weights or self.WEIGHTS
        self.kinds = [k for k, _ in w]
        tot = float(sum(x for _, x in w))
        self.probs = [x / tot for _, x in w]
        self.pending = []      # forced operations (re-synchronisation)

    # -- values
    def ri(self, lo, hi):
        return int(self.rng.integers(lo, hi + 1))

    def rfreq(self):
        k = self.ri(0, 9)
        if k == 0:
            return 0.0
        if k == 1:
            return float(self.rng.choice([1e300, 5e-324, 1.0, 1e9]))
        if k < 6:
            return self.ri(0, 1 << 16) * 0.25
        return float(self.rng.uniform(0, 1e10))

    def rcplx(self):
        k = self.ri(0, 29)
        if k == 0:
            return complex(float(self.rng.choice(
                [0.0, -0.0, INF, -INF, float("nan"), 1e300, 5e-324])),
                float(self.rng.choice([0.0, -0.0, 1.0, INF, 1e-300])))
        return complex(self.ri(-512, 512) / 32.0, self.ri(-512, 512) / 32.0)

    def rz0(self):
        k = self.ri(0, 9)
        if k == 0:
            return complex(float(self.rng.choice([0.0, -5.0, 1e6, 75.0])), 0.0)
        if k < 4:
            return complex(self.ri(1, 400) / 2.0, 0.0)
        return complex(self.ri(1, 4000) / 8.0, self.ri(-2000, 2000) / 8.0)

    def index(self, n):
        if n > 0 and self.rng.random() < 0.65:
            return self.ri(0, n - 1)
        return int(self.rng.choice([-1, 0, n - 1, n, n + 1]))

    def dim(self, cur, lo=0):
        r = self.rng.random()
        if r < 0.35:
            return max(cur, lo)
        if r < 0.5:
            return max(lo, min(self.D, cur + int(self.rng.choice([-1, 1]))))
        return self.ri(lo, self.D)

    def shape(self, vd):
        """(type, rows, cols): valid with probability ~0.8"""
        if self.rng.random() < 0.2:
            return (self.ri(-1, NTYPES), self.ri(-1, self.D),
                    self.ri(-1, self.D))
        t = int(self.rng.choice([T_UNDEF, T_UNDEF, T_S, T_S, T_Z, T_Y, T_T,
                                 T_U, T_H, T_G, T_A, T_B, T_ZIN, T_ZIN]))
        if t == T_UNDEF:
            return t, self.dim(vd.rows), self.dim(vd.cols)
        if t in SQUARE_TYPES:
            n = self.dim(vd.rows)
            return t, n, n
        if t in TWO_PORT_TYPES:
            return t, 2, 2
        return t, 1, self.dim(vd.cols, 1)

    # -- operations
    def next_ops(self, names=None):
        """one random operation on one of `names` (default: all objects; the
        first one is used most)"""
        if self.pending:
            op = self.pending.pop(0)
            return op
        rng = self.rng
        names = list(names or self.objects)
        kind = self.kinds[int(rng.choice(len(self.kinds), p=self.probs))]
        name = names[0] if (len(names) == 1 or rng.random() < 0.7) else \
            names[self.ri(1, len(names) - 1)]
        vd = self.M[name]
        F, rows, cols, ports = vd.F, vd.rows, vd.cols, vd.ports
        if kind in ("resize", "init"):
            t, r, c = self.shape(vd)
            f = self.dim(F) if rng.random() < 0.93 else -1
            return ("vnadata_" + kind, name, t, r, c, f)
        if kind == "set_type":
            if rng.random() < 0.6:
                cands = [t for t in range(NTYPES)
                         if type_fits(t, rows, cols)]
                return ("vnadata_set_type", name, int(rng.choice(cands)))
            return ("vnadata_set_type", name, self.ri(-1, NTYPES))
        if kind == "add_frequency":
            f = self.rfreq()
            if rng.random() < 0.03:
                f = -1.0
            return ("vnadata_add_frequency", name, f)
        if kind == "set_cell":
            return ("vnadata_set_cell", name, self.index(F), self.index(rows),
                    self.index(cols), self.rcplx())
        if kind == "get_cell":
            return ("vnadata_get_cell", name, self.index(F), self.index(rows),
                    self.index(cols))
        if kind == "set_matrix":
            return ("vnadata_set_matrix", name, self.index(F),
                    [self.rcplx() for _ in range(rows * cols)])
        if kind == "get_matrix":
            return ("vnadata_get_matrix", name, self.index(F))
        if kind == "set_from_vector":
            return ("vnadata_set_from_vector", name, self.index(rows),
                    self.index(cols), [self.rcplx() for _ in range(F)])
        if kind == "get_to_vector":
            return ("vnadata_get_to_vector", name, self.index(rows),
                    self.index(cols))
        if kind == "set_frequency":
            return ("vnadata_set_frequency", name, self.index(F), self.rfreq())
        if kind == "get_frequency":
            return ("vnadata_get_frequency", name, self.index(F))
        if kind == "set_frequency_vector":
            return ("vnadata_set_frequency_vector", name,
                    [self.rfreq() for _ in range(F)])
        if kind == "get_frequency_vector":
            return ("vnadata_get_frequency_vector", name)
        if kind == "fminmax":
            return ("vnadata_get_fmin" if rng.random() < 0.5 else
                    "vnadata_get_fmax", name)
        if kind == "set_z0":
            return ("vnadata_set_z0", name, self.index(ports), self.rz0())
        if kind == "get_z0":
            return ("vnadata_get_z0", name, self.index(ports))
        if kind == "set_all_z0":
            return ("vnadata_set_all_z0", name, self.rz0())
        if kind == "set_z0_vector":
            return ("vnadata_set_z0_vector", name,
                    [self.rz0() for _ in range(ports)])
        if kind == "get_z0_vector":
            return ("vnadata_get_z0_vector", name)
        if kind == "set_fz0":
            return ("vnadata_set_fz0", name, self.index(F), self.index(ports),
                    self.rz0())
        if kind == "get_fz0":
            return ("vnadata_get_fz0", name, self.index(F), self.index(ports))
        if kind == "set_fz0_vector":
            return ("vnadata_set_fz0_vector", name, self.index(F),
                    [self.rz0() for _ in range(ports)])
        if kind == "get_fz0_vector":
            return ("vnadata_get_fz0_vector", name, self.index(F))
        if kind == "has_fz0":
            return ("vnadata_has_fz0", name)
        if kind == "dims":
            return (str(rng.choice(["vnadata_get_rows", "vnadata_get_columns",
                                    "vnadata_get_frequencies",
                                    "vnadata_get_type"])), name)
        if kind == "convert":
            dst = name
            if len(names) > 1 and rng.random() < 0.45:
                others = [o for o in names if o != name]
                dst = others[self.ri(0, len(others) - 1)]
            if rng.random() < 0.75:
                cands = [t for t in range(NTYPES)
                         if convert_accepts(vd, t)[0]]
                t = int(rng.choice(cands)) if cands else vd.type
            else:
                t = self.ri(-1, NTYPES)
            return ("vnadata_convert", name, dst, t)
        raise ValueError(kind)

    def advance(self, op):
        """apply the primary outcome to the generator's model; when the
        allowed outcomes differ in type or dimensions, force a valid init next so
        that later buffers are sized for a known state"""
        alts = step(self.M, op)
        prim = alts[0]
        if len(alts) > 1:
            shapes = {}
            for alt in alts:
                for o in self.objects:
                    st = alt.states.get(o, self.M[o])
                    shapes.setdefault(o, set()).add((st.type, st.rows, st.cols,
                                                     st.F))
            for o, ss in shapes.items():
                if len(ss) > 1:
                    self.pending.append(self.valid_init(o))
        for o, st in prim.states.items():
            self.M[o] = st.clone()
            blank_adopt(self.M[o])
        return alts

    def valid_init(self, name):
        t = int(self.rng.choice([T_UNDEF, T_S, T_Z, T_T, T_ZIN]))
        if t == T_UNDEF:
            r, c = self.ri(0, self.D), self.ri(0, self.D)
        elif t in SQUARE_TYPES:
            r = c = self.ri(0, self.D)
        elif t == T_T:
            r = c = 2
        else:
            r, c = 1, self.ri(1, self.D)
        return ("vnadata_init", name, t, r, c, self.ri(0, self.D))


def private_copy(binary, workroot):
    """copy the driver into the run's scratch directory: the shared build
    directory may be relinked by a concurrent check while this one runs"""
    import os
    import shutil
    import time
    dst = os.path.join(workroot, "vnadrv")
    for _ in range(50):
        try:
            shutil.copy2(binary, dst)
            if os.path.getsize(dst) > 0 and os.access(dst, os.X_OK) and \
                    os.path.getsize(dst) == os.path.getsize(binary):
                return dst
        except (IOError, OSError):
            pass
        time.sleep(0.2)
    return binary
