"""E-term physical model of a VNA (independent of libvna's T/U algebra).

A VNA with r detecting and c driving ports, p = max(r, c), is a linear network

        M = El + Er (I - S Em)^-1 S Et

  El r x c  directivity (diagonal) and leakage (off-diagonal)
  Er r x p  reflection tracking      Et p x c  transmission tracking
  Em p x p  port match

T8/U8: all blocks diagonal.  TE10/UE10: El full.  T16/U16: all blocks full.
UE14/E12: one independent set (El(:,k), Er_k, et_k, Em_k) per driven column k
(switch terms), each with diagonal Er_k, Em_k and a single tracking term et_k.
"""
import numpy as np

TYPES = ["T8", "U8", "TE10", "UE10", "T16", "U16", "UE14", "E12"]
T_TYPES = ("T8", "TE10", "T16")
COLUMN_TYPES = ("UE14", "E12")
LEAKAGE_OUTSIDE = ("TE10", "UE10", "UE14", "E12")


def dims_ok(ctype, r, c):
    if ctype in T_TYPES:
        return r <= c
    return r >= c


def _crand(rng, shape, mag):
    return (rng.standard_normal(shape) + 1j * rng.standard_normal(shape)) * \
        (mag / np.sqrt(2.0))


class ENet:
    """random error network of one type at one frequency"""

    def __init__(self, ctype, r, c, rng, leak=0.15, match=0.25, spread=0.3,
                 cross=0.08):
        self.ctype, self.r, self.c = ctype, r, c
        p = self.p = max(r, c)
        d = min(r, c)
        # common gain of the receivers (El and Er scaled together): every
        # type can represent it, and the corrected device does not depend
        # on it
        self.rx_gain = 1.0

        def diag(rows, cols, centre, mag):
            m = np.zeros((rows, cols), dtype=complex)
            for i in range(min(rows, cols)):
                m[i, i] = centre + _crand(rng, (), mag)
            return m

        if ctype in COLUMN_TYPES:
            self.cols = []
            for k in range(c):
                el = _crand(rng, (r,), leak)
                er = diag(r, p, 1.0, spread)
                em = diag(p, p, 0.0, match)
                et = 1.0 + _crand(rng, (), spread)
                self.cols.append((el, er, em, et))
            return
        full = ctype in ("T16", "U16")
        self.El = np.zeros((r, c), dtype=complex)
        for i in range(d):
            self.El[i, i] = _crand(rng, (), leak)
        if ctype in ("TE10", "UE10") or full:
            off = _crand(rng, (r, c), leak)
            for i in range(d):
                off[i, i] = 0
            self.El = self.El + off
        self.Er = diag(r, p, 1.0, spread)
        self.Et = diag(p, c, 1.0, spread)
        self.Em = diag(p, p, 0.0, match)
        if full:
            for blk, shp in ((self.Er, (r, p)), (self.Et, (p, c)),
                             (self.Em, (p, p))):
                off = _crand(rng, shp, cross)
                for i in range(min(shp)):
                    off[i, i] = 0
                blk += off

    def measure(self, S):
        """r x c measurement of a device with p x p scattering matrix S"""
        S = np.asarray(S, dtype=complex)
        p = self.p
        I = np.eye(p)
        if self.ctype in COLUMN_TYPES:
            M = np.zeros((self.r, self.c), dtype=complex)
            for k, (el, er, em, et) in enumerate(self.cols):
                etv = np.zeros(p, dtype=complex)
                etv[k] = et
                M[:, k] = el + er @ np.linalg.solve(I - S @ em, S @ etv)
            return M * self.rx_gain
        return (self.El + self.Er @ np.linalg.solve(I - S @ self.Em,
                                                    S @ self.Et)) * self.rx_gain


def embed(n_ports, ports, S_std, term):
    """p x p S matrix of a standard with scattering matrix S_std connected to
    VNA ports `ports` (1-based, in the standard's own port order); every
    unconnected VNA port sees the reflection term[port] and couples to
    nothing"""
    S = np.zeros((n_ports, n_ports), dtype=complex)
    for q in range(n_ports):
        S[q, q] = term[q]
    for a, pa in enumerate(ports):
        for b, pb in enumerate(ports):
            S[pa - 1, pb - 1] = S_std[a][b]
    return S


def apply_measurement(enet, S_dut):
    """measurement matrix to hand to vnacal_apply for a p x p DUT.
    square calibrations: M.  2x1: [[m11, m21'],[m21, m11']] and
    1x2: [[m11, m12],[m12', m11']] with primes = DUT turned around."""
    r, c = enet.r, enet.c
    S = np.asarray(S_dut, dtype=complex)
    if r == c:
        return enet.measure(S)
    P = np.array([[0, 1], [1, 0]])
    Srev = P @ S @ P
    Mf = enet.measure(S)
    Mr = enet.measure(Srev)
    if (r, c) == (2, 1):
        return np.array([[Mf[0, 0], Mr[1, 0]], [Mf[1, 0], Mr[0, 0]]])
    if (r, c) == (1, 2):
        return np.array([[Mf[0, 0], Mf[0, 1]], [Mr[0, 1], Mr[0, 0]]])
    raise ValueError("apply does not accept %dx%d" % (r, c))
