"""Calibration scenario generator: error network (physics.ENet) per frequency,
a sufficient list of known standards, and the script that enters them through
randomly chosen vnacal_new_add_* entry points (full / abbreviated matrices,
port maps, m or a/b form, constant / scalar / vector parameters)."""
import numpy as np

import identify
import physics
from runner import Script, cx, hx, qs

CONST = {0: 0.0, 1: 1.0, 2: -1.0}   # VNACAL_MATCH/ZERO, OPEN/ONE, SHORT


class Param:
    """an S-parameter entry of a standard: value per frequency + how it is
    handed to the library"""

    def __init__(self, kind, values, const=None):
        self.kind = kind          # 'const' | 'scalar' | 'vector'
        self.values = values      # np.array over the calibration frequencies
        self.const = const        # 0/1/2 for kind == 'const'
        self.var = None           # script variable holding the handle

    def is_zero(self):
        return self.kind == "const" and self.const == 0

    @staticmethod
    def unknown(truth, guess):
        """unknown parameter: `truth` values generate the measurements,
        `guess` (a const/scalar/vector Param) is the initial guess"""
        p = Param("unknown", np.asarray(truth, dtype=complex))
        p.guess = guess
        return p

    @staticmethod
    def correlated(truth, other, sigma):
        """parameter correlated with Param `other` (sigma: one value)"""
        p = Param("correlated", np.asarray(truth, dtype=complex))
        p.other = other
        p.sigma = float(sigma)
        return p


def zero(F):
    return Param("const", np.zeros(F, dtype=complex), 0)


def one(F):
    return Param("const", np.ones(F, dtype=complex), 1)


def offgrid_vector(rng, freqs, mag=1.0, knots=(3, 8), rough=0.0,
                   margin=0.15):
    """vector parameter given on its OWN frequency grid (3..7 knots covering
    the calibration band with margin) whose values follow a first-order
    rational law in frequency, which the library's rational-function
    interpolation reproduces; .values holds the law at the calibration
    frequencies (the truth the measurements are generated from)"""
    lo, hi = float(freqs[0]), float(freqs[-1])
    span = max(hi - lo, 0.1 * hi)
    k = int(rng.integers(knots[0], knots[1]))
    pf = np.linspace(max(lo - margin * span, 0.05 * lo), hi + margin * span, k)
    pf = pf + rng.uniform(-0.02, 0.02, k) * span / k
    pf = np.maximum(pf, 1.0)
    if len(freqs) >= 3 and rng.random() < 0.25:
        # the kit was characterised over the same span with the same number
        # of points, on a differently spaced sweep: first and last frequency
        # and the point count coincide with the calibration's, the interior
        # points do not
        F = len(freqs)
        w = np.cumsum(rng.uniform(0.3, 1.0, F - 1))
        pf = lo + (hi - lo) * np.concatenate([[0.0], w / w[-1]])
        pf[-1] = hi
        k = F
    a = (rng.standard_normal() + 1j * rng.standard_normal()) * 0.6 * mag
    b = (rng.standard_normal() + 1j * rng.standard_normal()) * 0.3 * mag
    c = rng.uniform(-0.3, 0.3) + 0.2j * rng.uniform(-1, 1)

    def law(f):
        x = (np.asarray(f, dtype=float) - lo) / span
        return (a + b * x) / (1.0 + c * x)
    prm = Param("vector", law(freqs).astype(complex))
    prm.pfreqs = pf
    prm.pvalues = law(pf).astype(complex)
    if rough:
        # knot values that follow no low-order rational law: what the
        # library interpolates between them then depends on which knots it
        # uses (only differential / metamorphic checks can use such a
        # parameter: .values is no longer the exact truth)
        prm.pvalues = prm.pvalues + rough * (
            rng.standard_normal(k) + 1j * rng.standard_normal(k))
    return prm


def rand_param(rng, F, mag=1.0, allow_const=True):
    k = rng.integers(0, 6)
    if allow_const and k < 2:
        cst = int(rng.integers(0, 3))
        return Param("const", np.full(F, CONST[cst], dtype=complex), cst)
    v = (rng.standard_normal() + 1j * rng.standard_normal()) * mag * 0.6
    if rng.random() < 0.12:
        # ideal offset shorts / opens and quarter-wave lines: the real part
        # is exactly 0, 1 or -1, the imaginary part is not zero
        v = complex(float(rng.choice([0.0, 1.0, -1.0])),
                    float(rng.choice([1.0, -1.0, 0.1, -0.5, 0.3])))
    if k < 4 or F == 1:
        return Param("scalar", np.full(F, v, dtype=complex))
    vals = v + 0.2 * mag * (rng.standard_normal(F) +
                            1j * rng.standard_normal(F))
    return Param("vector", vals.astype(complex))


class Std:
    def __init__(self, ports, sp, F, rng, p):
        self.ports = list(ports)          # VNA ports, 1-based, standard's order
        self.sp = sp                      # n x n list of Param
        self.n = len(ports)
        # reflections seen by the unconnected VNA ports (fixed per standard)
        self.term = [(rng.standard_normal(p) + 1j * rng.standard_normal(p)) * 0.2
                     for _ in range(F)]
        self.entry = None
        self.full_rows = True
        self.full_cols = True
        self.form = "m"
        self.A = None                     # per-frequency a matrices
        # a partly specified standard: only the first s_rows rows / s_cols
        # columns of its S matrix are handed to the library (None = all)
        self.s_rows = None
        self.s_cols = None

    def S_std(self, f):
        return [[self.sp[a][b].values[f] for b in range(self.n)]
                for a in range(self.n)]

    def S_full(self, f, p):
        return physics.embed(p, self.ports, self.S_std(f), self.term[f])

    def S_known(self, f, p):
        """p x p with NaN in every cell between two unconnected ports: the
        library documents that it assumes nothing about them except that
        they have no path through the standard to the connected ports, so a
        cell between two unconnected ports is not a leakage observation"""
        S = self.S_full(f, p)
        conn = {q - 1 for q in self.ports}
        for q in range(p):
            for q2 in range(p):
                if q not in conn and q2 not in conn:
                    S[q, q2] = np.nan
        # cells of the standard itself that were not given
        for a in range(self.n):
            for b in range(self.n):
                if (self.s_rows is not None and a >= self.s_rows) or \
                        (self.s_cols is not None and b >= self.s_cols):
                    S[self.ports[a] - 1, self.ports[b] - 1] = np.nan
        return S

    def partial(self):
        return self.s_rows is not None or self.s_cols is not None

    def is_diag(self):
        return all(self.sp[a][b].is_zero() for a in range(self.n)
                   for b in range(self.n) if a != b)

    def is_through(self):
        return (self.n == 2 and self.sp[0][0].is_zero() and
                self.sp[1][1].is_zero() and
                self.sp[0][1].kind == "const" and self.sp[0][1].const == 1 and
                self.sp[1][0].kind == "const" and self.sp[1][0].const == 1)


class Scenario:
    # share of scenarios whose signal paths get arbitrary phases
    rotate_prob = 0.3

    def __init__(self, ctype, r, c, F, rng, fmin=1e9, fmax=8e9, form=None):
        self.ctype, self.r, self.c, self.F = ctype, r, c, F
        self.p = max(r, c)
        self.rng = rng
        if F == 1:
            self.freqs = np.array([float(rng.uniform(fmin, fmax))])
        else:
            self.freqs = np.sort(rng.uniform(fmin, fmax, F))
            # keep them distinct and ascending
            self.freqs = fmin + (fmax - fmin) * (
                (np.arange(F) + rng.uniform(0.1, 0.9, F)) / F)
        self.enet = [physics.ENet(ctype, r, c, rng) for _ in range(F)]
        self.rotated = False
        if rng.random() < self.rotate_prob:
            self.rotate_tracking()
        self.z0 = 50.0 + 0j
        self.form = form or ("m" if rng.random() < 0.5 else "ab")
        self.stds = []

    def rotate_tracking(self, rng=None):
        """give every signal path its own electrical length: the receiver of
        each row and the source of each column get an arbitrary phase (for the
        column types, separately in every column's error box).  Forward and
        reverse tracking terms then differ by whole radians, as they do in an
        instrument whose two directions take different routes."""
        rng = rng or self.rng
        for en in self.enet:
            if self.ctype in physics.COLUMN_TYPES:
                cols = []
                for (el, er, em, et) in en.cols:
                    ph = np.exp(2j * np.pi * rng.random(er.shape[0]))
                    cols.append((el, ph[:, None] * er, em,
                                 et * np.exp(2j * np.pi * rng.random())))
                en.cols = cols
            else:
                en.Er = np.exp(2j * np.pi * rng.random(en.Er.shape[0]))[
                    :, None] * en.Er
                en.Et = en.Et * np.exp(2j * np.pi * rng.random(
                    en.Et.shape[1]))[None, :]
        self.rotated = True

    # ------------------------------------------------------------------
    # measurements
    # ------------------------------------------------------------------
    def measure_std(self, std, f):
        M = self.enet[f].measure(std.S_full(f, self.p))
        nz = getattr(std, "noise", None)
        if nz is not None:
            M = M + nz[f]
        return M

    def add_noise(self, sigma, rng=None):
        """fixed additive measurement noise per standard (kept with the
        standard so that related scenarios see identical measurements)"""
        rng = rng or self.rng
        for st in self.stds:
            st.noise = [(rng.standard_normal((self.r, self.c)) +
                         1j * rng.standard_normal((self.r, self.c))) *
                        (sigma / np.sqrt(2.0)) for _ in range(self.F)]

    def reset_vars(self):
        for st in self.stds:
            for row in st.sp:
                for prm in row:
                    prm.var = None
                    for sub in ("guess", "other"):
                        q = getattr(prm, sub, None)
                        while q is not None:
                            q.var = None
                            q = getattr(q, "guess", None) or \
                                getattr(q, "other", None)

    def measure_noleak(self, std, f):
        """measurement with the outside-of-system leakage terms removed"""
        en = self.enet[f]
        M = en.measure(std.S_full(f, self.p)).copy()
        if self.ctype in ("TE10", "UE10"):
            for i in range(self.r):
                for k in range(self.c):
                    if i != k:
                        M[i, k] -= en.El[i, k]
        elif self.ctype in physics.COLUMN_TYPES:
            for k, (el, er, em, et) in enumerate(en.cols):
                for i in range(self.r):
                    if i != k:
                        M[i, k] -= el[i]
        return M

    def given_cells(self, std):
        """(row list, column list) of the measurement matrix handed in"""
        sp = sorted(std.ports)
        rows = list(range(self.r)) if std.full_rows else [q - 1 for q in sp]
        cols = list(range(self.c)) if std.full_cols else [q - 1 for q in sp]
        return rows, cols

    # ------------------------------------------------------------------
    # standard recipes
    # ------------------------------------------------------------------
    def rparam(self, mag=1.0, allow_const=True):
        """random parameter; with self.offgrid, some are vectors on their own
        frequency grid"""
        if getattr(self, "offgrid", False) and \
                self.rng.random() < getattr(self, "offgrid_prob", 0.3):
            return offgrid_vector(self.rng, self.freqs, mag,
                                  getattr(self, "offgrid_knots", (3, 8)),
                                  getattr(self, "offgrid_rough", 0.0),
                                  getattr(self, "offgrid_margin", 0.15))
        return rand_param(self.rng, self.F, mag, allow_const)

    def add_reflect(self, ports, params=None):
        F, rng = self.F, self.rng
        n = len(ports)
        sp = [[zero(F) for _ in range(n)] for _ in range(n)]
        for a in range(n):
            sp[a][a] = params[a] if params else self.rparam()
        s = Std(ports, sp, F, rng, self.p)
        self.stds.append(s)
        return s

    def add_through(self, p1, p2):
        F = self.F
        sp = [[zero(F), one(F)], [one(F), zero(F)]]
        s = Std([p1, p2], sp, F, self.rng, self.p)
        self.stds.append(s)
        return s

    def add_line(self, p1, p2):
        F, rng = self.F, self.rng
        sp = [[self.rparam(0.3, False), self.rparam(1.0, False)],
              [self.rparam(1.0, False), self.rparam(0.3, False)]]
        s = Std([p1, p2], sp, F, rng, self.p)
        self.stds.append(s)
        return s

    def add_matrix(self, ports):
        F, rng = self.F, self.rng
        n = len(ports)
        sp = [[self.rparam(0.8, False) for _ in range(n)]
              for _ in range(n)]
        s = Std(ports, sp, F, rng, self.p)
        self.stds.append(s)
        return s

    def add_sparse_matrix(self, ports):
        """multi-port standard whose non-zero off-diagonal cells form a
        connected but non-clique graph (a random spanning tree, sometimes
        non-reciprocal): ports are then connected only transitively"""
        F, rng = self.F, self.rng
        n = len(ports)
        sp = [[zero(F) for _ in range(n)] for _ in range(n)]
        for a in range(n):
            sp[a][a] = self.rparam(0.5)
        order = list(rng.permutation(n))
        for i in range(1, n):
            a, b = int(order[i]), int(order[int(rng.integers(0, i))])
            sp[a][b] = self.rparam(0.9, False)
            # non-reciprocal trees only where the caller asks for them
            # (pre_sparse): a one-way edge makes some of the cells the
            # library counts as equations trivially 0 = 0, so the prefix has
            # "enough equations" by the library's count without determining
            # the terms -- the case C20 explicitly claims nothing about
            if rng.random() < 0.7 or not getattr(self, "pre_sparse", 0):
                sp[b][a] = self.rparam(0.9, False)
        s = Std(ports, sp, F, rng, self.p)
        self.stds.append(s)
        return s

    def sufficient_recipe(self, extras=2):
        """a standard list that determines every error term of the type"""
        rng, p, F = self.rng, self.p, self.F
        ports = list(range(1, p + 1))
        full16 = self.ctype in ("T16", "U16")
        # three distinct reflects per port: short / open / match or random
        for q in ports:
            if rng.random() < 0.5:
                vals = [Param("const", np.full(F, CONST[k], dtype=complex), k)
                        for k in rng.permutation(3)]
            else:
                vals = [self.rparam(1.0, False) for _ in range(3)]
            for v in vals:
                others = [o for o in ports if o != q]
                if others and rng.random() < 0.4:
                    o = int(rng.choice(others))
                    pair = [q, o] if rng.random() < 0.5 else [o, q]
                    pr = [v, self.rparam()]
                    if pair[0] != q:
                        pr = pr[::-1]
                    self.add_reflect(pair, pr)
                else:
                    self.add_reflect([q], [v])
        # two-port standards on pairs
        pairs = [(a, b) for a in ports for b in ports if a < b]
        if self.ctype in physics.COLUMN_TYPES or full16:
            use = pairs
        else:
            # spanning tree plus random extras
            order = list(rng.permutation(ports))
            use = []
            for i in range(1, len(order)):
                j = int(rng.integers(0, i))
                use.append((int(order[i]), int(order[j])))
            for pr in pairs:
                if rng.random() < 0.25:
                    use.append(pr)
        for (a, b) in use:
            if rng.random() < 0.5:
                a, b = b, a
            if rng.random() < 0.5:
                self.add_through(a, b)
            else:
                self.add_line(a, b)
        if full16 and p >= 2:
            # fully known p-port standards and mixed double reflects
            for _ in range(4 + p):
                self.add_matrix(list(rng.permutation(ports)))
            for (a, b) in pairs:
                for _ in range(2):
                    self.add_reflect([a, b])
        nsparse = getattr(self, "pre_sparse", 0) or \
            (1 if (p >= 3 and rng.random() < 0.5) else 0)
        for _ in range(nsparse if p >= 3 else 0):
            n = int(rng.integers(3, p + 1)) if nsparse == 1 else p
            self.add_sparse_matrix([int(x) for x in
                                    rng.choice(ports, n, replace=False)])
        for _ in range(extras):
            k = rng.integers(0, 3)
            if k == 0 or p == 1:
                self.add_reflect([int(rng.choice(ports))])
            elif k == 1:
                a, b = rng.choice(ports, 2, replace=False)
                self.add_line(int(a), int(b))
            else:
                n = int(rng.integers(2, p + 1))
                self.add_matrix([int(x) for x in
                                 rng.choice(ports, n, replace=False)])
        # types with leakage terms outside the linear system: make sure every
        # off-diagonal cell is seen without a path, with a full matrix
        if self.ctype in physics.LEAKAGE_OUTSIDE and p >= 2:
            for _ in range(2):
                s = self.add_reflect(ports)
                s.must_full = True
        order = rng.permutation(len(self.stds))
        self.stds = [self.stds[i] for i in order]

    # ------------------------------------------------------------------
    # how each standard is entered
    # ------------------------------------------------------------------
    def make_partial(self, std):
        """hand the library only part of the standard's S matrix: whole
        columns for the T types, whole rows for the U types (what each can
        use); the measurement stays complete.  Call after choose_entries."""
        if std.n < 2 or self.r != self.c:
            return False
        keep = int(self.rng.integers(1, std.n))
        if self.ctype in physics.T_TYPES:
            std.s_cols = keep
        else:
            std.s_rows = keep
        std.entry = "mapped_matrix"
        std.full_rows = std.full_cols = True
        std.use_null_map = False
        return True

    def choose_entries(self, form=None):
        rng = self.rng
        for s in self.stds:
            s.form = self.form if form is None else form
            cands = ["mapped_matrix"]
            if s.n == 1:
                cands += ["single_reflect"] * 2
            if s.n == 2:
                cands += ["line"]
                if s.is_diag():
                    cands += ["double_reflect"] * 2
                if s.is_through():
                    cands += ["through"] * 3
            s.entry = str(rng.choice(cands))
            allp = s.n == self.p
            low_r = all(q <= self.r for q in s.ports)
            low_c = all(q <= self.c for q in s.ports)
            can_abbr_rows = self.ctype != "U16" and low_r and s.n < self.r
            can_abbr_cols = self.ctype != "T16" and low_c and s.n < self.c
            pa = 1.0 if getattr(self, "abbr_all", False) else 0.5
            s.full_rows = not (can_abbr_rows and rng.random() < pa)
            s.full_cols = not (can_abbr_cols and rng.random() < pa)
            if getattr(s, "must_full", False):
                s.full_rows = s.full_cols = True
            s.use_null_map = (s.entry == "mapped_matrix" and allp and
                              s.ports == list(range(1, self.p + 1)) and
                              rng.random() < 0.5)

    # ------------------------------------------------------------------
    # identifiability (independent of libvna)
    # ------------------------------------------------------------------
    def classify(self, f=0, stds=None):
        # identifiability and conditioning are those of the network at unit
        # receiver gain: a common gain only rescales error terms
        gains = [en.rx_gain for en in self.enet]
        for en in self.enet:
            en.rx_gain = 1.0
        try:
            return self._classify(f, stds)
        finally:
            for en, g in zip(self.enet, gains):
                en.rx_gain = g

    def _classify(self, f=0, stds=None):
        stds = self.stds if stds is None else stds
        obs = []
        leak = []
        for s in stds:
            rows, cols = self.given_cells(s)
            M = np.full((self.r, self.c), np.nan, dtype=complex)
            Mt = self.measure_noleak(s, f)
            given = np.zeros((self.r, self.c), dtype=bool)
            for i in rows:
                for k in cols:
                    if i < self.r and k < self.c:
                        M[i, k] = Mt[i, k]
                        given[i, k] = True
            S = s.S_known(f, self.p)
            obs.append((S, M))
            leak.append((S, given))
        res = identify.analyse(self.ctype, self.r, self.c, obs)
        lk = identify.leakage_ok(self.ctype, self.r, self.c, leak)
        return res, lk

    def well_determined(self, kmax=1e4):
        worst = 0.0
        for f in range(self.F):
            res, lk = self.classify(f)
            if not lk:
                return False, float("inf")
            for a in res:
                if a["nullity"] != 1:
                    return False, float("inf")
                worst = max(worst, a["kappa"])
        return worst <= kmax, worst

    # ------------------------------------------------------------------
    # script emission
    # ------------------------------------------------------------------
    def emit_header(self, s, vc="vc", vn="vn", create=True):
        if create:
            s.op("%s=vnacal_create" % vc)
        s.op("%s=vnacal_new_alloc $%s %s %d %d %d" % (
            vn, vc, self.ctype, self.r, self.c, self.F))
        s.rvec("freq", self.freqs)
        ln = s.op("vnacal_new_set_frequency_vector $%s @freq" % vn)
        if self.z0 != 50.0:
            s.op("vnacal_new_set_z0 $%s %s" % (vn, cx(self.z0)))
        return ln

    def emit_param(self, s, prm, vc, uid):
        if prm.var is not None:
            return prm.var
        if prm.kind == "const":
            prm.var = str(prm.const)
            return prm.var
        name = "p%d" % uid[0]
        uid[0] += 1
        if prm.kind == "unknown":
            g = self.emit_param(s, prm.guess, vc, uid)
            s.op("%s=vnacal_make_unknown_parameter $%s %s" % (name, vc, g))
        elif prm.kind == "correlated":
            o = self.emit_param(s, prm.other, vc, uid)
            sf = getattr(prm, "sigma_freqs", None)
            if sf is not None:
                # sigma on a frequency grid of its own (a list) or one value
                # per calibration frequency ("NULL" / "@freq")
                sv = list(prm.sigma_values)
                s.rvec("sg_" + name, sv)
                if isinstance(sf, str):
                    fa = sf
                else:
                    s.rvec("sf_" + name, list(sf))
                    fa = "@sf_" + name
                s.op("%s=vnacal_make_correlated_parameter $%s %s %s %d @sg_%s"
                     % (name, vc, o, fa, len(sv), name))
            else:
                s.rvec("sg_" + name, [prm.sigma])
                s.op("%s=vnacal_make_correlated_parameter $%s %s NULL 1 "
                     "@sg_%s" % (name, vc, o, name))
        elif prm.kind == "scalar":
            s.op("%s=vnacal_make_scalar_parameter $%s %s" % (
                name, vc, cx(prm.values[0])))
        elif getattr(prm, "pfreqs", None) is not None:
            s.rvec("f_" + name, prm.pfreqs)
            s.cvec("g_" + name, prm.pvalues)
            s.op("%s=vnacal_make_vector_parameter $%s @f_%s %d @g_%s" % (
                name, vc, name, len(prm.pfreqs), name))
        else:
            s.cvec("g_" + name, prm.values)
            s.op("%s=vnacal_make_vector_parameter $%s @freq %d @g_%s" % (
                name, vc, self.F, name))
        if prm.kind == "vector" and getattr(self, "prequery", False) and \
                self.rng.random() < 0.6:
            # the application looks at the standard before calibrating with
            # it (plots the kit on a finer grid): the handle has been
            # evaluated high in the band, off its knots, before the solve
            # starts at the bottom
            pf = getattr(prm, "pfreqs", None)
            if pf is None:
                pf = self.freqs
            if len(pf) >= 2:
                for _ in range(int(self.rng.integers(1, 4))):
                    k = int(self.rng.integers(max(0, len(pf) - 3), len(pf) - 1))
                    fq = float(pf[k] + self.rng.uniform(0.2, 0.8) *
                               (pf[k + 1] - pf[k]))
                    s.op("vnacal_get_parameter_value $%s $%s %s" % (
                        vc, name, hx(fq)))
        prm.var = "$" + name
        return prm.var

    def emit_std(self, s, std, idx, vc="vc", vn="vn", uid=None):
        """emit the buffers and the add call; returns the line of the call"""
        rng = self.rng
        uid = uid if uid is not None else [idx * 100]
        rows, cols = self.given_cells(std)
        nr, nc = len(rows), len(cols)
        Ms = [self.measure_std(std, f) for f in range(self.F)]
        column_type = self.ctype in physics.COLUMN_TYPES
        if std.form == "ab":
            if std.A is None or std.A[0].shape[-1] != nc:
                std.A = []
                for f in range(self.F):
                    if column_type:
                        a = 1.0 + 0.4 * (rng.standard_normal(nc) +
                                         1j * rng.standard_normal(nc))
                        std.A.append(a.reshape(1, nc) *
                                     getattr(self, "a_scale", 1.0))
                    else:
                        a = np.eye(nc) + 0.25 * (
                            rng.standard_normal((nc, nc)) +
                            1j * rng.standard_normal((nc, nc)))
                        std.A.append(a * (1.0 + 0.3 * rng.standard_normal()) *
                                     getattr(self, "a_scale", 1.0))
            bcells = []
            for i in rows:
                for kk in range(nc):
                    vals = []
                    for f in range(self.F):
                        Mg = Ms[f][np.ix_(rows, cols)]
                        if column_type:
                            B = Mg * std.A[f][0][None, :]
                        else:
                            B = Mg @ std.A[f]
                        vals.append(B[rows.index(i), kk])
                    bcells.append(vals)
            ar = 1 if column_type else nc
            acells = [[std.A[f][a_, b_] for f in range(self.F)]
                      for a_ in range(ar) for b_ in range(nc)]
            s.cmat("a%d" % idx, acells)
            s.cmat("b%d" % idx, bcells)
            marg = "@a%d %d %d @b%d %d %d" % (idx, ar, nc, idx, nr, nc)
            suffix = ""
        else:
            mcells = [[Ms[f][i, k] for f in range(self.F)]
                      for i in rows for k in cols]
            s.cmat("m%d" % idx, mcells)
            marg = "@m%d %d %d" % (idx, nr, nc)
            suffix = "_m"
        if std.partial():
            sr = std.n if std.s_rows is None else std.s_rows
            scn = std.n if std.s_cols is None else std.s_cols
            hv = [[self.emit_param(s, std.sp[a][b], vc, uid)
                   for b in range(scn)] for a in range(sr)]
            s.ivec("s%d" % idx, [hv[a][b] for a in range(sr)
                                 for b in range(scn)])
            s.ivec("map%d" % idx, std.ports)
            return s.op("vnacal_new_add_mapped_matrix%s $%s %s @s%d %d %d "
                        "@map%d" % (suffix, vn, marg, idx, sr, scn, idx))
        hv = [[self.emit_param(s, std.sp[a][b], vc, uid) for b in range(std.n)]
              for a in range(std.n)]
        e = std.entry
        if e == "single_reflect":
            return s.op("vnacal_new_add_single_reflect%s $%s %s %s %d" % (
                suffix, vn, marg, hv[0][0], std.ports[0]))
        if e == "double_reflect":
            return s.op("vnacal_new_add_double_reflect%s $%s %s %s %s %d %d" % (
                suffix, vn, marg, hv[0][0], hv[1][1], std.ports[0],
                std.ports[1]))
        if e == "through":
            return s.op("vnacal_new_add_through%s $%s %s %d %d" % (
                suffix, vn, marg, std.ports[0], std.ports[1]))
        if e == "line":
            s.ivec("s%d" % idx, [hv[0][0], hv[0][1], hv[1][0], hv[1][1]])
            return s.op("vnacal_new_add_line%s $%s %s @s%d %d %d" % (
                suffix, vn, marg, idx, std.ports[0], std.ports[1]))
        s.ivec("s%d" % idx, [hv[a][b] for a in range(std.n)
                             for b in range(std.n)])
        if std.use_null_map:
            mp = "NULL"
        else:
            s.ivec("map%d" % idx, std.ports)
            mp = "@map%d" % idx
        return s.op("vnacal_new_add_mapped_matrix%s $%s %s @s%d %d %d %s" % (
            suffix, vn, marg, idx, std.n, std.n, mp))

    def emit_apply(self, s, S_duts, name, form=None, vc="vc", ci="$ci",
                   vd="vd", tag="d"):
        """apply the calibration to the measurement of per-frequency DUT S
        matrices; returns (apply line, dump line)"""
        rng = self.rng
        form = form or self.form
        p = self.p
        Ms = [physics.apply_measurement(self.enet[f], S_duts[f])
              for f in range(self.F)]
        column_type = self.ctype in physics.COLUMN_TYPES
        if form == "ab":
            As, Bs = [], []
            for f in range(self.F):
                if column_type:
                    a = (1.0 + 0.4 * (rng.standard_normal(p) +
                                      1j * rng.standard_normal(p))).reshape(1, p)
                    a = a * getattr(self, "a_scale", 1.0)
                    B = Ms[f] * a[0][None, :]
                else:
                    a = np.eye(p) + 0.25 * (rng.standard_normal((p, p)) +
                                            1j * rng.standard_normal((p, p)))
                    a = a * getattr(self, "a_scale", 1.0)
                    B = Ms[f] @ a
                As.append(a)
                Bs.append(B)
            ar = 1 if column_type else p
            s.cmat("%sa" % tag, [[As[f][i, k] for f in range(self.F)]
                                 for i in range(ar) for k in range(p)])
            s.cmat("%sb" % tag, [[Bs[f][i, k] for f in range(self.F)]
                                 for i in range(p) for k in range(p)])
            la = s.op("vnacal_apply $%s %s @freq %d @%sa %d %d @%sb %d %d $%s" % (
                vc, ci, self.F, tag, ar, p, tag, p, p, vd))
        else:
            s.cmat("%sm" % tag, [[Ms[f][i, k] for f in range(self.F)]
                                 for i in range(p) for k in range(p)])
            la = s.op("vnacal_apply_m $%s %s @freq %d @%sm %d %d $%s" % (
                vc, ci, self.F, tag, p, p, vd))
        ld = s.op("dump_vnadata $%s" % vd)
        return la, ld

    def can_apply(self):
        return self.r == self.c or (self.r, self.c) in ((1, 2), (2, 1))

    def rand_dut(self):
        p = self.p
        return [(self.rng.standard_normal((p, p)) +
                 1j * self.rng.standard_normal((p, p))) * 0.5
                for _ in range(self.F)]


def build_script(sc, duts=None, name="cal", solve=True):
    """complete script: header, standards, solve, add_calibration, apply.
    returns (Script, dict of line numbers)"""
    s = Script()
    lines = {}
    sc.emit_header(s)
    uid = [0]
    lines["add"] = []
    bursts = getattr(sc, "foreign_bursts", None)

    def foreign(i):
        # parameters that belong to nobody, created in the same vnacal_t
        # before and between the standards: the handles the calibration
        # sees are then sparse instead of 3, 4, 5 ...
        if bursts:
            for j in range(bursts[i % len(bursts)]):
                s.op("fz%d_%d=vnacal_make_scalar_parameter $vc %s" % (
                    i, j, cx(0.01 * (i + 1) + 0.02j * (j + 1))))
    foreign(0)
    for i, st in enumerate(sc.stds):
        lines["add"].append(sc.emit_std(s, st, i, uid=uid))
        foreign(i + 1)
    if solve:
        lines["solve"] = s.op("vnacal_new_solve $vn")
        lines["addcal"] = s.op("ci=vnacal_add_calibration $vc %s $vn" % qs(name))
        if duts is not None and sc.can_apply():
            s.op("vd=vnadata_alloc")
            if getattr(sc, "reuse_vd", False):
                # the result object was used for something else before: other
                # type, other dimensions, more frequencies, per-frequency z0
                s.op("vnadata_init $vd ZIN 1 5 7")
                s.op("vnadata_set_frequency_vector $vd auto")
                s.op("vnadata_set_fz0 $vd 3 2 0x1.2cp+6 0x1p+1")
            lines["apply"], lines["dump"] = sc.emit_apply(s, duts, name)
    return s, lines
