"""Generator of API call histories over all object kinds (vnacal_t, several
vnacal_new_t per vnacal_t, parameters, vnadata_t, property roots, files) with
arguments drawn from valid, boundary and invalid domains.  Used by C03 (memory
safety / UB / leaks), C11 (error contract) and C16 (handles).

Every declared dimension is truthful with respect to the buffer handed in
(a buffer is always at least as large as the dimensions passed with it), so a
sanitizer report is attributable to the library and not to the caller.
"""
import numpy as np

import calgen
import physics
from runner import Script, cx, hx, qs

PTYPES = ["UNDEF", "S", "T", "U", "Z", "Y", "H", "G", "A", "B", "ZIN"]
FAIL_INT = "int"        # expect -1
FAIL_PTR = "ptr"        # expect NULL
FAIL_REAL = "real"      # expect HUGE_VAL
FAIL_CPLX = "cplx"      # expect HUGE_VAL in the real part


class ApiGen:
    def __init__(self, rng, heavy_cal=True):
        self.rng = rng
        self.s = Script()
        self.must_fail = {}   # line -> (kind, why)
        self.vds = {}         # name -> dict(type, r, c, F, fz0)
        self.prs = []
        self.vcs = {}         # name -> dict(vns, params, cals, files)
        self.n = 0
        self.files = []       # (path, kind)
        self.heavy_cal = heavy_cal

    # ------------------------------------------------------------ helpers
    def uid(self, pfx):
        self.n += 1
        return "%s%d" % (pfx, self.n)

    def idx(self, n):
        """index from {-1, 0, n-1, n, n+1, random valid}"""
        r = self.rng
        k = r.integers(0, 10)
        if k == 0:
            return -1
        if k == 1:
            return n
        if k == 2:
            return n + 1
        if k == 3:
            return max(0, n - 1)
        if k == 4:
            return 0
        return int(r.integers(0, max(1, n)))

    def expect_fail(self, line, kind, why):
        self.must_fail[line] = (kind, why)

    def cval(self):
        r = self.rng
        k = r.integers(0, 12)
        if k == 0:
            return 0j
        if k == 1:
            return complex(float("nan"), 0)
        if k == 2:
            return complex(float("inf"), 1)
        return complex(r.standard_normal(), r.standard_normal()) * \
            10 ** r.uniform(-3, 3)

    # ------------------------------------------------------------ vnadata
    def vd_new(self):
        name = self.uid("vd")
        self.s.op("%s=vnadata_alloc" % name)
        self.vds[name] = dict(type=0, r=0, c=0, F=0, fz0=False)
        return name

    def vd_dims(self, valid=True):
        r = self.rng
        t = int(r.integers(0, 11))
        if t in (2, 3, 6, 7, 8, 9):
            rows = cols = 2
        elif t == 10:
            rows, cols = 1, int(r.integers(1, 5))
        elif t in (1, 4, 5):
            rows = cols = int(r.integers(1, 5))
        else:
            rows, cols = int(r.integers(0, 5)), int(r.integers(0, 5))
        F = int(r.integers(0, 5))
        if not valid:
            k = r.integers(0, 5)
            if k == 0:
                rows = -1
            elif k == 1:
                cols = -1
            elif k == 2:
                F = -1
            elif k == 3:
                t = int(r.choice([-1, 11, 12, 99]))
            else:
                # dimension / type mismatch
                t = int(r.choice([2, 3, 6, 7, 8, 9]))
                rows, cols = int(r.choice([1, 3])), int(r.choice([1, 2, 3]))
        return t, rows, cols, F

    def vd_step(self):
        r, s = self.rng, self.s
        if not self.vds or (len(self.vds) < 3 and r.random() < 0.1):
            self.vd_new()
            return
        name = str(r.choice(list(self.vds)))
        m = self.vds[name]
        v = "$" + name
        k = r.integers(0, 32)
        if r.random() < 0.03:
            # dimensions whose product does not fit an int: refused, and the
            # object stays what it was
            n_ = int(r.choice([65536, 46341, 2147483647]))
            which = "vnadata_init" if r.random() < 0.5 else "vnadata_resize"
            ln = s.op(which, v, 0, n_, n_, 1)
            self.expect_fail(ln, FAIL_INT, "rows * columns overflows")
            s.op("dump_vnadata", v)
            return
        if k >= 30:
            # allocation dance in per-frequency z0 mode: shrink / grow the
            # frequency count and the port count in changing order so that
            # spare rows and spare columns get re-exposed, touching every
            # fz0 row afterwards
            t = int(r.choice([1, 4, 5]))
            n0, F0 = int(r.integers(1, 4)), int(r.integers(1, 5))
            if m["F"] == 0 or max(m["r"], m["c"]) == 0 or r.random() < 0.3:
                s.op("vnadata_init", v, t, n0, n0, F0)
                m.update(type=t, r=n0, c=n0, F=F0, fz0=False)
            if m["r"] != m["c"] or m["type"] in (2, 3, 6, 7, 8, 9, 10):
                s.op("vnadata_resize", v, t, n0, n0, max(1, m["F"]))
                m.update(type=t, r=n0, c=n0, F=max(1, m["F"]))
            s.op("vnadata_set_fz0", v, int(r.integers(0, m["F"])), 0,
                 cx(self.cval()))
            m["fz0"] = True
            for _ in range(int(r.integers(2, 5))):
                what = int(r.integers(0, 4))
                n, F = m["r"], m["F"]
                if what == 0:
                    F = int(r.integers(0, F + 1))
                elif what == 1:
                    F = F + int(r.integers(1, 4))
                elif what == 2:
                    n = n + int(r.integers(1, 3))
                else:
                    n = max(1, n - 1)
                if r.random() < 0.25 and F > m["F"]:
                    for _k in range(F - m["F"]):
                        s.op("vnadata_add_frequency", v, hx(r.uniform(0, 1e10)))
                    n = m["r"]
                else:
                    s.op("vnadata_resize", v, m["type"] if m["type"] in
                         (1, 4, 5) else t, n, n, F)
                m.update(r=n, c=n, F=F)
                for fi in range(F):
                    s.op("vnadata_get_fz0_vector", v, fi)
                    if r.random() < 0.5:
                        s.op("vnadata_set_fz0", v, fi, int(r.integers(0, n)),
                             cx(self.cval()))
            s.op("dump_vnadata", v)
            return
        if k < 3:
            valid = r.random() < 0.8
            t, rows, cols, F = self.vd_dims(valid)
            op = "vnadata_init" if r.random() < 0.5 else "vnadata_resize"
            ln = s.op(op, v, t, rows, cols, F)
            if valid:
                m.update(type=t, r=rows, c=cols, F=F)
                if op == "vnadata_init":
                    m["fz0"] = False
            else:
                self.expect_fail(ln, FAIL_INT, "invalid type/dimensions")
        elif k == 3:
            t = int(r.integers(-1, 13))
            s.op("vnadata_set_type", v, t)
        elif k == 4:
            ln = s.op("vnadata_add_frequency", v, hx(r.uniform(0, 1e10)))
            m["F"] += 1
        elif k == 5:
            fi = self.idx(m["F"])
            ln = s.op("vnadata_get_frequency", v, fi)
            if fi < 0:
                self.expect_fail(ln, FAIL_REAL, "negative index")
            ln = s.op("vnadata_set_frequency", v, fi, hx(r.uniform(0, 1e10)))
            if fi < 0:
                self.expect_fail(ln, FAIL_INT, "negative index")
        elif k == 6:
            s.op("vnadata_get_fmin", v)
            s.op("vnadata_get_fmax", v)
            s.op("vnadata_get_frequency_vector", v)
            s.op("vnadata_set_frequency_vector", v, "auto")
            if r.random() < 0.3:
                s.op("vnadata_set_frequency_vector_own", v)
        elif k < 10:
            fi, row, col = self.idx(m["F"]), self.idx(m["r"]), self.idx(m["c"])
            ln = s.op("vnadata_set_cell", v, fi, row, col, cx(self.cval()))
            if min(fi, row, col) < 0:
                self.expect_fail(ln, FAIL_INT, "negative index")
            ln = s.op("vnadata_get_cell", v, fi, row, col)
            if min(fi, row, col) < 0:
                self.expect_fail(ln, FAIL_CPLX, "negative index")
        elif k == 10:
            fi = self.idx(m["F"])
            ln = s.op("vnadata_get_matrix", v, fi)
            if fi < 0:
                self.expect_fail(ln, FAIL_PTR, "negative index")
            ln = s.op("vnadata_set_matrix", v, fi, "auto")
            if fi < 0:
                self.expect_fail(ln, FAIL_INT, "negative index")
        elif k == 11:
            row, col = self.idx(m["r"]), self.idx(m["c"])
            ln = s.op("vnadata_get_to_vector", v, row, col)
            if min(row, col) < 0:
                self.expect_fail(ln, FAIL_INT, "negative index")
            ln = s.op("vnadata_set_from_vector", v, row, col, "auto")
            if min(row, col) < 0:
                self.expect_fail(ln, FAIL_INT, "negative index")
        elif k < 15:
            ports = max(m["r"], m["c"])
            port = self.idx(ports)
            ln = s.op("vnadata_get_z0", v, port)
            if port < 0:
                self.expect_fail(ln, FAIL_CPLX, "negative index")
            ln = s.op("vnadata_set_z0", v, port, cx(self.cval()))
            if port < 0:
                self.expect_fail(ln, FAIL_INT, "negative index")
            if r.random() < 0.3:
                s.op("vnadata_set_all_z0", v, cx(self.cval()))
            if r.random() < 0.3:
                s.op("vnadata_get_z0_vector", v)
                s.op("vnadata_set_z0_vector", v, "auto")
            if r.random() < 0.3 and m["F"] > 0:
                # impedances copied within the object through the pointer
                # its own getter returned
                s.op("vnadata_set_z0_vector_own", v,
                     str(r.choice(["f", "f", "z"])),
                     int(r.integers(0, m["F"])))
        elif k < 19:
            ports = max(m["r"], m["c"])
            fi, port = self.idx(m["F"]), self.idx(ports)
            ln = s.op("vnadata_set_fz0", v, fi, port, cx(self.cval()))
            if min(fi, port) < 0:
                self.expect_fail(ln, FAIL_INT, "negative index")
            ln = s.op("vnadata_get_fz0", v, fi, port)
            if min(fi, port) < 0:
                self.expect_fail(ln, FAIL_CPLX, "negative index")
            s.op("vnadata_has_fz0", v)
            if r.random() < 0.4:
                fi = self.idx(m["F"])
                ln = s.op("vnadata_get_fz0_vector", v, fi)
                if fi < 0:
                    self.expect_fail(ln, FAIL_PTR, "negative index")
                ln = s.op("vnadata_set_fz0_vector", v, fi, "auto")
                if fi < 0:
                    self.expect_fail(ln, FAIL_INT, "negative index")
            if r.random() < 0.4 and m["F"] > 0:
                s.op("vnadata_set_fz0_vector_own", v,
                     int(r.integers(0, m["F"])),
                     str(r.choice(["f", "f", "z"])),
                     int(r.integers(0, m["F"])))
        elif k < 22:
            other = str(r.choice(list(self.vds)))
            t = int(r.integers(0, 12))
            s.op("vnadata_convert", v, "$" + other, t)
            if other != name:
                self.vds[other].update(F=m["F"])
        elif k == 22:
            fmts = ["Sri", "Sma", "SdB", "ri", "ma", "dB", "Zri,Yma", "Zin",
                    "IL,RL,VSWR", "PRC,PRL,SRC,SRL", "Tri", "Hma,Gma", "", "xyz",
                    "S", "Sri,Sri", "zinri", ",", "SdB,IL", "ZindB", "zindb",
                    "Sri,ZindB", "PRCma", "ILri", "VSWRdB", "Zinma,Zindb"]
            s.op("vnadata_set_format", v, qs(str(r.choice(fmts))))
            s.op("vnadata_get_format", v)
            if r.random() < 0.4:
                s.op("vnadata_set_format_own", v)
        elif k == 23:
            s.op("vnadata_set_filetype", v, int(r.integers(-1, 6)))
            s.op("vnadata_get_filetype", v)
            p = int(r.choice([-1, 0, 1, 3, 6, 17, 40, 1000, 1001]))
            s.op("vnadata_set_fprecision", v, p)
            p = int(r.choice([-1, 0, 1, 3, 6, 17, 40, 1000, 1001]))
            s.op("vnadata_set_dprecision", v, p)
        elif k < 27:
            ext = str(r.choice([".s1p", ".s2p", ".s3p", ".s4p", ".ts", ".npd",
                                "", ".S2P", ".s5p"]))
            path = self.uid("f") + ext
            which = str(r.choice(["vnadata_save", "vnadata_cksave",
                                  "vnadata_fsave"]))
            s.op(which, v, qs(path))
            if which != "vnadata_cksave":
                self.files.append((path, "data"))
        elif k < 29:
            if self.files:
                path, kind = self.files[int(r.integers(0, len(self.files)))]
                which = "vnadata_load" if r.random() < 0.6 else "vnadata_fload"
                if which == "vnadata_fload":
                    # the driver must be able to open it; only use files this
                    # history certainly wrote
                    if kind != "data":
                        which = "vnadata_load"
                s.op(which, v, qs(path))
            else:
                ln = s.op("vnadata_load", v, qs("does-not-exist.s2p"))
                self.expect_fail(ln, FAIL_INT, "no such file")
        else:
            if len(self.vds) > 1 and r.random() < 0.5:
                s.op("vnadata_free", v)
                del self.vds[name]
            else:
                s.op("dump_vnadata", v)

    # ------------------------------------------------------------ property
    DESCR = [".", "a", "a.b", "a.b.c", "list[0]", "list[1]", "list[+]",
             "list[0+]", "list[2].x", "m{}", "list[]", "a.", "a.b.", "[0]",
             "[1]", "[+]", "[0].k", "two words", "esc\\.dot", "\\[x\\]",
             "a..b", "[x]", "[1", "", "a[", "a]", "{}", "[]", "a{}[]",
             ".a", "..", "a b.c d[3]", "x\xc3\xa9y", "list[9]", "a.b{}",
             "list[1][2]", "k-1", "_u"]

    def pr_step(self):
        r, s = self.rng, self.s
        if not self.prs or (len(self.prs) < 3 and r.random() < 0.1):
            name = self.uid("pr")
            s.op("%s=proot" % name)
            self.prs.append(name)
            return
        v = "$" + str(r.choice(self.prs))
        d = str(r.choice(self.DESCR))
        k = r.integers(0, 16)
        if k < 5:
            val = str(r.choice(["v", "", "1.5", "a=b", "#x", "multi\nline",
                                "~", "  sp  ", "x" * 100]))
            form = d + ("=" + val if r.random() < 0.8 else "#")
            s.op("vnaproperty_set", v, qs(form))
        elif k == 5:
            s.op("vnaproperty_set", v, qs(d))  # missing '=' : malformed
        elif k == 6:
            s.op("vnaproperty_get", v, qs(d))
        elif k == 7:
            s.op("vnaproperty_type", v, qs(d))
            s.op("vnaproperty_count", v, qs(d))
        elif k == 8:
            s.op("vnaproperty_keys", v, qs(d))
        elif k < 11:
            s.op("vnaproperty_delete", v, qs(d))
        elif k == 11:
            s.op("vnaproperty_get_subtree", v, qs(d))
        elif k == 12:
            if r.random() < 0.5:
                s.op("vnaproperty_set_subtree", v, qs(d))
            else:
                s.op("vnaproperty_set_subtree", v, qs(d), qs("sub.k=1"))
        elif k == 13:
            o = "$" + str(r.choice(self.prs))
            s.op("vnaproperty_copy", v, o)
        elif k == 14:
            s.op("vnaproperty_quote_key", qs(str(r.choice(
                ["a.b", "x[1]", " lead", "trail ", "{}", "\\", "", "é",
                 "a b", "#", "="]))))
            s.op("dump_property", v)
        else:
            path = self.uid("y") + ".yaml"
            s.op("vnaproperty_export_yaml_to_file", v, qs(path))
            s.op("vnaproperty_import_yaml_from_file", v, qs(path))
            if r.random() < 0.3:
                s.op("vnaproperty_import_yaml_from_string", v,
                     qs(str(r.choice(["a: 1\nb: [1, 2, {c: d}]\n", "- x\n- y\n",
                                      "{", "a: [", "? [1,2]\n: 3\nk: v\n",
                                      "", "~", "a: &x 1\nb: *x\n", "\t bad"]))))

    # ------------------------------------------------------------ vnacal
    def vc_new(self):
        r, s = self.rng, self.s
        name = self.uid("vc")
        if self.files and r.random() < 0.3:
            cand = [p for p, k in self.files if k == "cal"]
            if cand:
                s.op("%s=vnacal_load %s" % (name, qs(str(r.choice(cand)))))
                self.vcs[name] = dict(vns={}, params=[], ncal=2, scen=None)
                return name
        s.op("%s=vnacal_create" % name)
        self.vcs[name] = dict(vns={}, params=[], ncal=0, scen=None)
        return name

    def vn_new(self, vcname):
        r, s = self.rng, self.s
        vc = self.vcs[vcname]
        name = self.uid("vn")
        ctype = str(r.choice(physics.TYPES))
        p = int(r.choice([1, 2, 2, 3]))
        rr = cc = p
        if r.random() < 0.25:
            if ctype in physics.T_TYPES:
                rr = int(r.integers(1, p + 1))
            else:
                cc = int(r.integers(1, p + 1))
        F = int(r.choice([1, 2, 3]))
        sc = calgen.Scenario(ctype, rr, cc, F, r)
        sc.sufficient_recipe(extras=1)
        sc.choose_entries()
        if r.random() < 0.3:
            # some multi-port standards with only part of their S matrix
            # given (legal; the set may no longer be sufficient)
            for st in sc.stds:
                if st.n >= 2 and r.random() < 0.5:
                    sc.make_partial(st)
        if r.random() < 0.12:
            # invalid allocation
            bad = [("NOTYPE", rr, cc, F), (ctype, 0, cc, F), (ctype, rr, -1, F),
                   (ctype, rr, cc, -1), (7, rr, cc, F), (99, rr, cc, F)]
            if ctype in physics.T_TYPES:
                bad.append((ctype, cc + 1, cc, F))
            else:
                bad.append((ctype, rr, rr + 1, F))
            b = bad[int(r.integers(0, len(bad)))]
            ln = s.op("%s=vnacal_new_alloc $%s %s %d %d %d" % ((name, vcname) + b))
            self.expect_fail(ln, FAIL_PTR, "invalid type or dimensions")
            return
        s.op("%s=vnacal_new_alloc $%s %s %d %d %d" % (name, vcname, ctype, rr,
                                                     cc, F))
        fname = "fq_" + name
        s.rvec(fname, sc.freqs)
        vc["vns"][name] = dict(sc=sc, next=0, freq_set=False, fname=fname,
                               uid=[self.n * 1000], solved=False)
        if r.random() < 0.5:
            # fast path to a deep state: enter the whole (sufficient) recipe
            # and solve, so that later operations act on a solved calibration
            vn = vc["vns"][name]
            s.op("vnacal_new_set_frequency_vector $%s @%s" % (name, fname))
            vn["freq_set"] = True
            s.add("buf freq rvector %d %s" % (sc.F, " ".join(
                hx(x) for x in sc.freqs)))
            for st in sc.stds:
                self.n += 1
                sc.emit_std(s, st, self.n, vc=vcname, vn=name, uid=vn["uid"])
            vn["next"] = len(sc.stds)
            s.op("vnacal_new_solve $%s" % name)
            vn["solved"] = True
            if r.random() < 0.7:
                s.op("%s=vnacal_add_calibration $%s %s $%s" % (
                    self.uid("ci"), vcname, qs(str(r.choice(["A", "B", "C"]))),
                    name))
                vc["ncal"] += 1
                s.op("vnacal_new_solve $%s" % name)

    def mutate_add(self, line_no, vn, sc):
        """rewrite the add call on line_no with boundary / invalid arguments"""
        r, s = self.rng, self.s
        toks = s.lines[line_no - 1].split(" ")
        op = toks[0]
        is_m = op.endswith("_m")
        k = r.integers(0, 6)
        F = sc.F
        why = None
        nports_at = {"vnacal_new_add_single_reflect": 1,
                     "vnacal_new_add_double_reflect": 2,
                     "vnacal_new_add_through": 2, "vnacal_new_add_line": 2}
        base = op[:-2] if is_m else op
        if k < 2 and base in nports_at:
            # port numbers: 0, -1, p+1, duplicates
            n = nports_at[base]
            pos = len(toks) - n + int(r.integers(0, n))
            val = int(r.choice([0, -1, sc.p + 1, sc.p + 2]))
            toks[pos] = str(val)
            why = "port index %d out of range" % val
            if n == 2 and r.random() < 0.3:
                toks[-1] = toks[-2]
                why = "duplicate port"
        elif k < 4:
            # dimensions inconsistent with the calibration, buffer truthful
            mi = 2  # index of first matrix name
            if is_m:
                rows = int(r.choice([0, -1, sc.r + 1, sc.p + 2, 1, 2]))
                cols = int(r.choice([0, -1, sc.c + 1, sc.p + 2, 1, 2]))
                nm = self.uid("mm")
                s.lines.insert(line_no - 1, "buf %s cmatrix %d %d" % (
                    nm, max(0, rows) * max(0, cols), F))
                toks[mi] = "@" + nm
                toks[mi + 1] = str(rows)
                toks[mi + 2] = str(cols)
            else:
                rows = int(r.choice([0, sc.r + 1, 1, 2, sc.p + 2]))
                cols = int(r.choice([0, sc.c + 1, 1, 2, sc.p + 2]))
                ar = int(r.choice([1, cols, cols + 1, 0]))
                ac = int(r.choice([cols, cols + 1, 1]))
                na, nb = self.uid("ma"), self.uid("mb")
                s.lines.insert(line_no - 1, "buf %s cmatrix %d %d" % (
                    na, max(0, ar) * max(0, ac), F))
                s.lines.insert(line_no, "buf %s cmatrix %d %d" % (
                    nb, max(0, rows) * max(0, cols), F))
                toks[mi:mi + 6] = ["@" + na, str(ar), str(ac), "@" + nb,
                                   str(rows), str(cols)]
            why = None  # may happen to be valid
        elif k == 4:
            # NULL measurement matrix
            toks[2] = "NULL"
            if not is_m and r.random() < 0.5:
                toks[2] = toks[2]
                toks[5] = "NULL"
            why = "NULL measurement matrix"
            if not is_m and toks[5] != "NULL":
                why = None  # NULL 'a' with a 'b' is the m form: legal
        else:
            # a parameter handle that does not exist
            for i, t in enumerate(toks):
                if t.startswith("$p") or t in ("0", "1", "2") and i > 4:
                    pass
            if base in ("vnacal_new_add_single_reflect",
                        "vnacal_new_add_double_reflect"):
                pos = len(toks) - nports_at[base] - 1
                toks[pos] = str(int(r.choice([-1, 9999, 12345])))
                why = "invalid parameter handle"
        # recompute position (buffers may have been inserted before)
        for i in range(line_no - 1, min(len(s.lines), line_no + 3)):
            if s.lines[i].startswith(op + " "):
                s.lines[i] = " ".join(toks)
                if why:
                    self.expect_fail(i + 1, FAIL_INT, why)
                break

    def vc_step(self):
        r, s = self.rng, self.s
        if not self.vcs or (len(self.vcs) < 2 and r.random() < 0.05):
            self.vc_new()
            return
        vcname = str(r.choice(list(self.vcs)))
        vc = self.vcs[vcname]
        v = "$" + vcname
        k = r.integers(0, 40)
        if k < 2 or not vc["vns"]:
            if len(vc["vns"]) < 3:
                self.vn_new(vcname)
            return
        vnname = str(r.choice(list(vc["vns"])))
        vn = vc["vns"][vnname]
        sc = vn["sc"]
        w = "$" + vnname
        if k < 5 or not vn["freq_set"]:
            if r.random() < 0.1:
                bad = self.uid("fb")
                fr = list(sc.freqs[::-1]) if sc.F > 1 else [-1.0]
                s.rvec(bad, fr)
                ln = s.op("vnacal_new_set_frequency_vector", w, "@" + bad)
                self.expect_fail(ln, FAIL_INT, "non-ascending / negative "
                                 "frequencies")
            elif r.random() < 0.05:
                ln = s.op("vnacal_new_set_frequency_vector", w, "NULL")
                self.expect_fail(ln, FAIL_INT, "NULL frequency vector")
            else:
                s.op("vnacal_new_set_frequency_vector", w, "@" + vn["fname"])
                if not vn["freq_set"]:
                    # the scenario's emit_param uses @freq
                    pass
                vn["freq_set"] = True
            return
        if k < 20:
            # add the next standard of the scenario (valid or mutated)
            if vn["next"] >= len(sc.stds):
                vn["next"] = 0
                for st in sc.stds:
                    for row in st.sp:
                        for prm in row:
                            pass
            st = sc.stds[vn["next"]]
            idx = self.n = self.n + 1
            # parameters are per vnacal_t: emit_param needs @freq -> alias
            s.add("buf freq rvector %d %s" % (sc.F, " ".join(
                hx(x) for x in sc.freqs)))
            ln = sc.emit_std(s, st, idx, vc=vcname, vn=vnname, uid=vn["uid"])
            vn["next"] += 1
            if r.random() < 0.3:
                self.mutate_add(ln, vn, sc)
            return
        if k < 24:
            s.op("vnacal_new_solve", w)
            return
        if k < 27:
            if r.random() < 0.3 and vc["ncal"] > 0:
                # replace a calibration under the library's own name string
                s.op("%s=vnacal_add_calibration_own_name %s %d %s" % (
                    self.uid("ci"), v, int(r.integers(0, vc["ncal"] + 1)), w))
                return
            nm = str(r.choice(["A", "B", "C", "", "a name with spaces", "é"]))
            s.op("%s=vnacal_add_calibration %s %s %s" % (
                self.uid("ci"), v, qs(nm), w))
            vc["ncal"] += 1
            return
        if k == 27:
            ci = self.idx(vc["ncal"])
            s.op("vnacal_delete_calibration", v, ci)
            return
        if k == 28:
            ci = self.idx(vc["ncal"])
            for g in ("name", "type", "rows", "columns", "frequencies", "fmin",
                      "fmax", "frequency_vector", "z0"):
                ln = s.op("vnacal_get_" + g, v, ci)
                if ci < 0:
                    kind = {"name": FAIL_PTR, "frequency_vector": FAIL_PTR,
                            "fmin": FAIL_REAL, "fmax": FAIL_REAL,
                            "z0": FAIL_CPLX}.get(g, FAIL_INT)
                    self.expect_fail(ln, kind, "negative calibration index")
            s.op("vnacal_get_calibration_end", v)
            s.op("vnacal_find_calibration", v, qs(str(r.choice(
                ["A", "B", "nope", ""]))))
            s.op("vnacal_get_filename", v)
            return
        if k < 31:
            # parameters
            kk = r.integers(0, 8)
            pn = self.uid("q")
            if kk == 0:
                s.op("%s=vnacal_make_scalar_parameter %s %s" % (
                    pn, v, cx(self.cval())))
                vc["params"].append(pn)
            elif kk == 1:
                n = int(r.integers(0, 5))
                fr = np.sort(r.uniform(5e8, 9e9, max(n, 0)))
                if r.random() < 0.15 and n > 1:
                    fr = fr[::-1]
                s.rvec("pf" + pn, fr)
                s.cvec("pg" + pn, [self.cval() for _ in range(n)])
                s.op("%s=vnacal_make_vector_parameter %s @pf%s %d @pg%s" % (
                    pn, v, pn, n, pn))
                vc["params"].append(pn)
            elif kk == 2:
                guess = "$" + str(r.choice(vc["params"])) if vc["params"] and \
                    r.random() < 0.7 else str(int(r.choice([0, 1, 2, -1, 777])))
                s.op("%s=vnacal_make_unknown_parameter %s %s" % (pn, v, guess))
                vc["params"].append(pn)
            elif kk == 3:
                other = "$" + str(r.choice(vc["params"])) if vc["params"] and \
                    r.random() < 0.7 else str(int(r.choice([0, 1, 2, -1, 777])))
                n = int(r.integers(1, 4))
                fr = np.sort(r.uniform(5e8, 9e9, n))
                s.rvec("sf" + pn, fr)
                s.rvec("sv" + pn, r.uniform(0.001, 0.1, n))
                fa = "@sf" + pn if (n > 1 or r.random() < 0.5) else "NULL"
                if r.random() < 0.35:
                    # frequencies borrowed from a vector parameter at the end
                    # of the guess chain: vector -> unknown -> correlated
                    n = int(r.integers(2, 5))
                    fr2 = np.sort(r.uniform(5e8, 9e9, n))
                    s.rvec("bf" + pn, fr2)
                    s.cvec("bg" + pn, [self.cval() for _ in range(n)])
                    s.op("bv%s=vnacal_make_vector_parameter %s @bf%s %d @bg%s"
                         % (pn, v, pn, n, pn))
                    other = "$bv" + pn
                    if r.random() < 0.6:
                        s.op("bu%s=vnacal_make_unknown_parameter %s $bv%s" % (
                            pn, v, pn))
                        other = "$bu" + pn
                        vc["params"].append("bu" + pn)
                    vc["params"].append("bv" + pn)
                    s.rvec("sv" + pn, r.uniform(0.001, 0.1, n))
                    fa = "NULL"
                s.op("%s=vnacal_make_correlated_parameter %s %s %s %d @sv%s" % (
                    pn, v, other, fa, n, pn))
                vc["params"].append(pn)
            elif kk < 6:
                prm = "$" + str(r.choice(vc["params"])) if vc["params"] and \
                    r.random() < 0.8 else str(int(r.choice([0, 1, 2, -1, 3, 777])))
                s.op("vnacal_get_parameter_value", v, prm,
                     hx(r.choice([1e9, 5e9, 0.0, 1e12, -1.0])))
            else:
                prm = "$" + str(r.choice(vc["params"])) if vc["params"] and \
                    r.random() < 0.8 else str(int(r.choice([0, 1, 2, -1, 777])))
                s.op("vnacal_delete_parameter", v, prm)
            return
        if k < 33:
            ci = int(r.choice([-1, 0, 1, vc["ncal"], vc["ncal"] + 1, -2]))
            d = str(r.choice(self.DESCR))
            kk = r.integers(0, 8)
            if kk < 3:
                s.op("vnacal_property_set", v, ci, qs(d + "=val"))
            elif kk == 3:
                s.op("vnacal_property_get", v, ci, qs(d))
            elif kk == 4:
                s.op("vnacal_property_delete", v, ci, qs(d))
            elif kk == 5:
                s.op("vnacal_property_type", v, ci, qs(d))
                s.op("vnacal_property_count", v, ci, qs(d))
                s.op("vnacal_property_keys", v, ci, qs(d))
            elif kk == 6:
                s.op("vnacal_property_get_subtree", v, ci, qs(d))
            else:
                s.op("vnacal_property_set_subtree", v, ci, qs(d), qs("z=1"))
            return
        if k == 33:
            s.op("vnacal_set_fprecision", v, int(r.choice(
                [-1, 0, 1, 3, 7, 17, 30, 40, 1000, 1001])))
            s.op("vnacal_set_dprecision", v, int(r.choice(
                [-1, 0, 1, 3, 6, 17, 30, 40, 1000, 1001])))
            return
        if k < 36:
            path = self.uid("c") + ".vnacal"
            s.op("vnacal_save", v, qs(path))
            self.files.append((path, "cal"))
            if r.random() < 0.3:
                s.op("vnacal_save_own_filename", v)
            return
        if k < 38:
            # apply
            if not self.vds:
                self.vd_new()
            vd = "$" + str(r.choice(list(self.vds)))
            ci = int(r.choice([0, 0, 0, 1, -1, vc["ncal"], vc["ncal"] + 1]))
            p = int(r.choice([sc.p, sc.p, sc.p, 1, 2, 3, sc.p + 1]))
            F = int(r.choice([sc.F, sc.F, 1, 0, sc.F + 1]))
            fr = np.sort(r.uniform(sc.freqs[0], sc.freqs[-1] + 1, max(F, 0))) \
                if r.random() < 0.7 else np.sort(r.uniform(1e8, 2e10, max(F, 0)))
            fn = self.uid("af")
            s.rvec(fn, fr)
            mn = self.uid("am")
            cells = [[self.cval() for _ in range(max(F, 0))]
                     for _ in range(p * p)]
            s.add("buf %s cmatrix %d %d %s" % (
                mn, p * p, max(F, 0),
                " ".join(cx(x) for c_ in cells for x in c_)))
            if r.random() < 0.6:
                ln = s.op("vnacal_apply_m", v, ci, "@" + fn, F, "@" + mn, p, p, vd)
            else:
                an = self.uid("aa")
                ar = int(r.choice([p, 1, p + 1]))
                s.add("buf %s cmatrix %d %d %s" % (
                    an, ar * p, max(F, 0), " ".join(
                        cx(1.0 + self.cval() * 0.1)
                        for _ in range(ar * p * max(F, 0)))))
                ln = s.op("vnacal_apply", v, ci, "@" + fn, F, "@" + an, ar, p,
                          "@" + mn, p, p, vd)
            if ci < 0:
                self.expect_fail(ln, FAIL_INT, "negative calibration index")
            return
        if k == 38:
            # measurement error model and tolerances
            n = int(r.choice([1, sc.F, 2, 0, -1]))
            nn = max(n, 0)
            fn = self.uid("ef")
            lo, hi = sc.freqs[0], sc.freqs[-1]
            fr = np.linspace(lo * r.choice([0.5, 1.0, 1.2]),
                             hi * r.choice([0.8, 1.0, 2.0]) + 1, nn)
            s.rvec(fn, fr)
            s.rvec(fn + "n", r.uniform(1e-6, 1e-2, nn))
            s.rvec(fn + "t", r.uniform(1e-5, 1e-1, nn))
            s.op("vnacal_new_set_m_error", w,
                 "@" + fn if r.random() < 0.7 else "NULL", n,
                 "@" + fn + "n" if r.random() < 0.85 else "NULL",
                 "@" + fn + "t" if r.random() < 0.6 else "NULL")
            s.op("vnacal_new_set_pvalue_limit", w,
                 hx(r.choice([0.001, 0.05, 1.0, 0.0, -1.0, 2.0])))
            s.op("vnacal_new_set_p_tolerance", w,
                 hx(r.choice([1e-6, 1e-12, 0.0, -1.0, 1.0])))
            s.op("vnacal_new_set_et_tolerance", w,
                 hx(r.choice([1e-6, 1e-12, 0.0, -1.0, 1.0])))
            s.op("vnacal_new_set_iteration_limit", w,
                 int(r.choice([30, 1, 0, -1, 100])))
            s.op("vnacal_new_set_z0", w, cx(r.choice([50.0, 75.0, 50 + 5j, 0.0])))
            return
        # frees
        kk = r.integers(0, 3)
        if kk == 0 and len(vc["vns"]) > 1:
            s.op("vnacal_new_free", w)
            del vc["vns"][vnname]
        elif kk == 1 and len(self.vcs) > 1:
            s.op("vnacal_free", v)
            del self.vcs[vcname]
        else:
            s.op("dump_vnacal", v)

    # ------------------------------------------------------------ driver
    def generate(self, nops, weights=(0.3, 0.2, 0.5)):
        r = self.rng
        fams = [self.vd_step, self.pr_step, self.vc_step]
        for _ in range(nops):
            fams[int(r.choice(3, p=weights))]()
        return self.s.text()
