"""Seed files and structure-aware mutators for the parser-totality check (C09)."""
import re

import numpy as np

HAND_SEEDS = {
    "h_v1_2port.s2p": b"""! two-port, MA, GHz
# GHz S MA R 50
1.0 0.9 -10 0.1 80 0.1 80 0.8 -20
2.0 0.8 -20 0.2 70 0.2 70 0.7 -30 ! trailing comment
3.0 0.7 -30 0.3 60 0.3 60 0.6 -40
""",
    "h_v1_1port.s1p": b"""# MHz Z RI R 75
100 1.0 0.5
200 1.1 0.4
300 1.2 0.3
""",
    "h_v1_3port.s3p": b"""# Hz S DB R 50
1e9 -10 5 -20 10 -30 15
    -20 10 -11 6 -25 12
    -30 15 -25 12 -12 7
2e9 -11 5 -21 10 -31 15
    -21 10 -12 6 -26 12
    -31 15 -26 12 -13 7
""",
    "h_v1_4port.s4p": b"""# GHz S RI R 50
1 .1 .0 .2 .0 .3 .0 .4 .0
  .5 .0 .6 .0 .7 .0 .8 .0
  .9 .0 .10 .0 .11 .0 .12 .0
  .13 .0 .14 .0 .15 .0 .16 .0
2 .1 .1 .2 .1 .3 .1 .4 .1
  .5 .1 .6 .1 .7 .1 .8 .1
  .9 .1 .10 .1 .11 .1 .12 .1
  .13 .1 .14 .1 .15 .1 .16 .1
""",
    "h_v1_noise.s2p": b"""# GHz S MA R 50
1 0.9 -10 2.0 80 0.05 80 0.8 -20
2 0.8 -20 1.9 70 0.06 70 0.7 -30
! noise parameters
1 0.5 0.4 100 0.3
2 0.6 0.5 110 0.4
""",
    # noise parameters only: a two-port file without network data
    "h_v1_noiseonly.s2p": b"""# GHz H RI R 50
1 0.5 0.4 100 0.3
2 0.6 0.5 110 0.4
""",
    "h_v2_full.ts": b"""! Touchstone 2
[Version] 2.0
# GHz S RI R 50
[Number of Ports] 2
[Two-Port Data Order] 12_21
[Number of Frequencies] 2
[Reference] 50 75
[Matrix Format] Full
[Network Data]
1 .1 .2 .3 .4 .5 .6 .7 .8
2 .11 .21 .31 .41 .51 .61 .71 .81
[End]
""",
    "h_v2_lower.ts": b"""[Version] 2.0
# MHz Y MA
[Number of Ports] 3
[Number of Frequencies] 1
[Reference]
50 60 70
[Matrix Format] Lower
[Network Data]
100 .1 10
    .2 20 .3 30
    .4 40 .5 50 .6 60
[Noise Data]
[End]
""",
    "h_v2_noise.ts": b"""[Version] 2.0
# GHz S MA R 50
[Number of Ports] 2
[Two-Port Data Order] 21_12
[Number of Frequencies] 2
[Number of Noise Frequencies] 2
[Network Data]
1 0.9 -10 2.0 80 0.05 80 0.8 -20
2 0.8 -20 1.9 70 0.06 70 0.7 -30
[Noise Data]
1 0.5 0.4 100 0.3
2 0.6 0.5 110 0.4
[End]
""",
    # counts that do not fit: ports whose square overflows, more frequencies
    # than any file holds (the loaders must not size anything from them)
    "h_ts2_65536_ports.ts": b"""[Version] 2.0
# GHz S RI R 50
[Number of Ports] 65536
[Number of Frequencies] 1
[Network Data]
1.0 0.5 0.5
""",
    "h_ts2_many_frequencies.ts": b"""[Version] 2.0
# GHz S RI R 50
[Number of Ports] 3
[Number of Frequencies] 2147483647
[Network Data]
1.0 .1 .1 .1 .1 .1 .1 .1 .1 .1 .1 .1 .1 .1 .1 .1 .1 .1 .1
""",
    "h_npd_many_frequencies.npd": b"""#NPD
#:version 1.0
#:ports 2
#:frequencies 2147483647
#:parameters Sri
1e9 .1 .1 .1 .1 .1 .1 .1 .1
""",
    "h_npd_huge_ports_three_formats.npd": b"""#NPD
#:version 1.0
#:ports 2147483647
#:frequencies 2
#:parameters Sri,Zma,IL
1e9 1 2 3
""",
    "h_npd_huge_ports_z0.npd": b"""#NPD
#:version 1.0
#:ports 2147483647
#:frequencies 2
#:parameters Sri
#:z0 75.0 +0.0j 50.0 +0.0j
""",
    # network parameter data with the older #:rows / #:columns keywords
    "h_npd_rows_columns.npd": b"""#NPD
#:version 1.0
#:rows 2
#:columns 2
#:frequencies 2
#:parameters Sri
#:z0 50 0 75 0
1e9 0.1 0.2 0.3 0.4 0.5 0.6 0.7 0.8
2e9 0.2 0.1 0.4 0.3 0.6 0.5 0.8 0.7
""",
    # pre-release calibration file that names its type
    "h_legacy_typed.vnacal": b"""#VNACAL 2.0
%YAML 1.1
---
sets:
- name: cal
  type: E12
  rows: 1
  columns: 1
  frequencies: 2
  z0: +5.0e+01 +0.0e+00j
  data:
  - f: 1.0e+09
    e:
    - - - +1.0e-02 -2.0e-02j
        - +9.9e-01 +1.0e-02j
        - +3.0e-02 +1.0e-02j
  - f: 2.0e+09
    e:
    - - - +2.0e-02 -1.0e-02j
        - +9.8e-01 +2.0e-02j
        - +1.0e-02 +3.0e-02j
""",
    "h_yaml_1.yaml": b"""a: 1
b: [1, 2, {c: d}]
e:
  f: ~
  g: "quoted"
  h: |
    literal
    block
list:
- x
- - nested
  - 2
""",
    "h_yaml_2.yaml": b"""? [complex, key]
: value
&anchor k: v
alias: *anchor
""",
    # aliases that refer to a collection containing them (libyaml registers
    # the anchor when the collection starts: the node graph has a cycle)
    "h_yaml_3.yaml": b"""top: &a
  inner: *a
  other: 1
""",
    "h_yaml_4.yaml": b"""- &l [1, 2, *l]
- {k: &m {x: [*m]}}
""",
}

# a long list that contains itself: with a guard on nesting depth only, the
# importer needs (number of nodes)^2 insertions before it gives up
HAND_SEEDS["h_yaml_5.yaml"] = b"- &l [1, " + b"2," * 1500 + b" *l]\n"

KEYWORDS = [b"[Version]", b"[Number of Ports]", b"[Two-Port Data Order]",
            b"[Number of Frequencies]", b"[Number of Noise Frequencies]",
            b"[Reference]", b"[Matrix Format]", b"[Network Data]",
            b"[Noise Data]", b"[End]", b"Full", b"Upper", b"Lower", b"12_21",
            b"21_12", b"#", b"GHz", b"MHz", b"kHz", b"Hz", b"S", b"Z", b"Y",
            b"H", b"G", b"MA", b"DB", b"RI", b"R", b"#:version", b"#:rows",
            b"#:columns", b"#:frequencies", b"#:parameters", b"#:z0",
            b"#:fprecision", b"#:dprecision", b"#:ports", b"name:", b"type:",
            b"rows:", b"columns:", b"frequencies:", b"z0:", b"data:", b"f:",
            b"properties:", b"calibrations:", b"ts:", b"ti:", b"tx:", b"tm:",
            b"um:", b"ui:", b"ux:", b"us:", b"el:", b"er:", b"em:", b"et:",
            b"T8", b"U8", b"TE10", b"UE10", b"T16", b"U16", b"UE14", b"E12",
            b"#VNACal 1.0", b"#VNACAL 2.0", b"#VNACAL 3.0", b"#VNACal 2.0",
            b"#VNACal 0.9", b"%YAML 1.1", b"---", b"...", b"~", b"[", b"]",
            b"{", b"}", b"- ", b": ", b"|", b">", b"&a", b"*a", b"!!str"]

NUMBERS = [b"0", b"-1", b"1", b"1e308", b"1e309", b"-1e309", b"nan", b"inf",
           b"-inf", b"0x1p+0", b"1e-320", b"99999999999999999999", b"2147483648",
           b"-2147483649", b"1.5.2", b"1e", b"+", b"-", b".", b"1e+", b"0x",
           b"1,5", b"4294967296", b"65536"]

_tok = re.compile(rb"\S+|\s+")
_num = re.compile(rb"^[+-]?(\d+\.?\d*|\.\d+)([eE][+-]?\d+)?j?$")


def splice(data, other, rng):
    """insert 1..3 consecutive lines of another file of the same kind at a
    random line boundary: header lines that no single writer produces
    together (two forms of one keyword, repeated sections ...)"""
    a, b = data.split(b"\n"), other.split(b"\n")
    i = int(rng.integers(0, len(b)))
    chunk = b[i:i + int(rng.integers(1, 4))]
    j = int(rng.integers(0, len(a) + 1))
    return b"\n".join(a[:j] + chunk + a[j:])


def mutate(data, rng):
    """one structure-aware mutation (may be composed)"""
    n = int(rng.integers(0, 23))
    if data[:4].upper() == b"#VNA" and rng.random() < 0.2:
        n = 21 + int(rng.integers(0, 2))   # calibration files: key / value edits
    if b"[Number of " in data and rng.random() < 0.25:
        # Touchstone 2: the value of one "[Number of ...]" keyword replaced
        # by a small, a boundary or an overflowing count (products of two
        # such counts size the loader's tables).  Port counts whose square
        # still fits an int (46340: 34 GB per frequency) are left out: the
        # loaders allocate what a file declares before they read it, which
        # is a resource question this check does not assert (DESIGN 7.5)
        lines = data.split(b"\n")
        hdr = [k for k, ln in enumerate(lines) if ln.lstrip().lower().startswith(
            b"[number of ")]
        if hdr:
            k = hdr[int(rng.integers(0, len(hdr)))]
            head = lines[k].split(b"]")[0] + b"]"
            val = bytes(rng.choice([b"0", b"-1", b"1", b"2", b"3", b"5", b"9",
                                    b"65535", b"65536", b"46341",
                                    b"131072", b"2147483647", b"2147483648",
                                    b"4294967296", b"4294967297"]))
            lines[k] = head + b" " + val
            return b"\n".join(lines)
    if data[:4] == b"#NPD" and rng.random() < 0.35:
        # NPD header: a "#:keyword value" line inserted or its value replaced
        lines = data.split(b"\n")
        hdr = [k for k, ln in enumerate(lines) if ln.startswith(b"#:")]
        if hdr:
            kws = [b"ports", b"rows", b"columns", b"frequencies", b"z0",
                   b"parameters", b"fprecision", b"dprecision", b"version"]
            kw = bytes(kws[int(rng.integers(0, len(kws)))])
            if rng.random() < 0.3:
                kw = bytes(kws[int(rng.integers(0, 3))])   # a dimension
            if kw == b"z0":
                val = bytes(rng.choice([b"PER-FREQUENCY", b"50 0", b"50 0 75 0",
                                        b"50 0 75 0 60 -1", b"1 0 1 0 1 0 1 0"]))
            elif kw == b"parameters":
                # a parameter name x a coordinate system, also the pairs
                # that do not exist (ZindB, PRCma, ILri ...), in any case
                nm = bytes(rng.choice([b"S", b"Z", b"Y", b"T", b"U", b"H", b"G",
                                       b"A", b"B", b"Zin", b"PRC", b"PRL",
                                       b"SRC", b"SRL", b"IL", b"RL", b"VSWR",
                                       b""]))
                co = bytes(rng.choice([b"ri", b"ma", b"dB", b"", b"db", b"RI",
                                       b"DB", b"mA"]))
                val = nm + co
                if rng.random() < 0.3:
                    val = bytes(rng.choice([b"Sri", b"Zma", b"ri"])) + b"," + val
                if rng.random() < 0.3:
                    val = val.lower() if rng.random() < 0.5 else val.upper()
            elif kw == b"version":
                val = bytes(rng.choice([b"1.0", b"1.1", b"2.0", b"0.9"]))
            else:
                val = bytes(rng.choice([b"0", b"1", b"2", b"3", b"4", b"5", b"8",
                                        b"-1", b"65536", b"46341", b"65535",
                                        b"2147483647", b"4294967297"]))
                if rng.random() < 0.5:
                    # a little more than the dimensions the header states
                    ints = [int(x) for ln in lines if ln.startswith(b"#:")
                            for x in ln.split()[1:2] if x.isdigit()]
                    if ints:
                        val = b"%d" % (max(ints) + int(rng.integers(1, 3)))
            k = hdr[int(rng.integers(0, len(hdr)))]
            if rng.random() < 0.5:
                k = hdr[-1]       # at the end of the header
            if rng.random() < 0.6:
                lines.insert(k + 1, b"#:" + kw + b" " + val)
            else:
                lines[k] = lines[k].split(b" ", 1)[0] + b" " + val
            return b"\n".join(lines)
    if not data:
        return bytes(rng.integers(0, 256, int(rng.integers(0, 20)), dtype=np.uint8))
    if n == 0:      # truncate
        return data[:int(rng.integers(0, len(data) + 1))]
    if n == 1:      # drop final newline / add junk at end
        return data.rstrip(b"\n") if rng.random() < 0.5 else \
            data + bytes(rng.choice(KEYWORDS))
    toks = _tok.findall(data)
    idx = [i for i, t in enumerate(toks) if not t.isspace()]
    if not idx:
        return data + b"x"
    i = idx[int(rng.integers(0, len(idx)))]
    if n == 2:      # delete token
        del toks[i]
    elif n == 3:    # duplicate token
        toks.insert(i, toks[i] + b" ")
    elif n == 4:    # swap two tokens
        j = idx[int(rng.integers(0, len(idx)))]
        toks[i], toks[j] = toks[j], toks[i]
    elif n in (5, 6):    # number perturbation
        nums = [k for k in idx if _num.match(toks[k])]
        if nums:
            k = nums[int(rng.integers(0, len(nums)))]
            toks[k] = bytes(rng.choice(NUMBERS))
        else:
            toks[i] = bytes(rng.choice(NUMBERS))
    elif n == 7:    # keyword replace
        toks[i] = bytes(rng.choice(KEYWORDS))
    elif n == 8:    # keyword insert
        toks.insert(i, bytes(rng.choice(KEYWORDS)) + b" ")
    elif n == 9:    # line delete / duplicate / swap
        lines = data.split(b"\n")
        a = int(rng.integers(0, len(lines)))
        k = rng.integers(0, 3)
        if k == 0:
            del lines[a]
        elif k == 1:
            lines.insert(a, lines[a])
        else:
            b_ = int(rng.integers(0, len(lines)))
            lines[a], lines[b_] = lines[b_], lines[a]
        return b"\n".join(lines)
    elif n in (21, 22):   # "key: value" line inserted / value replaced
        lines = data.split(b"\n")
        cand = [k for k, ln in enumerate(lines)
                if re.match(rb"^\s*(- )?[A-Za-z_]+:( |$)", ln)]
        if not cand:
            return data
        k = cand[int(rng.integers(0, len(cand)))]
        ind = re.match(rb"^(\s*)(- )?", lines[k])
        indent = ind.group(1) + (b"  " if ind.group(2) else b"")
        keys = [kw for kw in KEYWORDS if kw.endswith(b":") and
                not kw.startswith(b"#")]
        vals = [b"T8", b"U8", b"TE10", b"UE10", b"T16", b"U16", b"UE14",
                b"E12", b"0", b"1", b"2", b"3", b"-1", b"1e9", b"x",
                b"+5.0e+01 +0.0e+00j", b"[1, 2]", b"{a: b}", b"~", b""]
        val = bytes(vals[int(rng.integers(0, len(vals)))])
        if n == 22 and lines[k].split(b":", 1)[0].strip(b" -") == b"type" \
                and rng.random() < 0.7:
            val = bytes(vals[int(rng.integers(0, 8))])     # another type name
        if n == 21:
            key = bytes(keys[int(rng.integers(0, len(keys)))])
            if rng.random() < 0.3:
                key, val = b"type:", bytes(vals[int(rng.integers(0, 8))])
            lines.insert(k + int(rng.integers(0, 2)),
                         indent + key + b" " + val)
        else:
            head = lines[k].split(b":", 1)[0]
            lines[k] = head + b": " + val
        return b"\n".join(lines)
    elif n == 20:   # delete a block of consecutive lines (a whole section)
        lines = data.split(b"\n")
        a = int(rng.integers(0, len(lines)))
        b_ = min(len(lines), a + int(rng.integers(2, 8)))
        return b"\n".join(lines[:a] + lines[b_:])
    elif n == 10:   # byte flips
        b_ = bytearray(data)
        for _ in range(int(rng.integers(1, 4))):
            p = int(rng.integers(0, len(b_)))
            b_[p] = int(rng.integers(0, 256))
        return bytes(b_)
    elif n == 11:   # insert random / invalid UTF-8 bytes
        p = int(rng.integers(0, len(data) + 1))
        junk = bytes(rng.integers(0, 256, int(rng.integers(1, 6)), dtype=np.uint8))
        return data[:p] + junk + data[p:]
    elif n == 12:   # YAML node type substitution on a "key: value" line
        lines = data.split(b"\n")
        cand = [k for k, ln in enumerate(lines) if b": " in ln or ln.endswith(b":")]
        if cand:
            k = cand[int(rng.integers(0, len(cand)))]
            head = lines[k].split(b":", 1)[0]
            lines[k] = head + b": " + bytes(rng.choice(
                [b"[1, 2]", b"{a: b}", b"scalar", b"~", b"", b"[]", b"{}",
                 b"[[1]]", b"- x", b"'", b"\"", b"|"]))
        return b"\n".join(lines)
    elif n == 13:   # change indentation of a line (YAML structure)
        lines = data.split(b"\n")
        k = int(rng.integers(0, len(lines)))
        lines[k] = (b"  " + lines[k]) if rng.random() < 0.5 else lines[k].lstrip()
        return b"\n".join(lines)
    elif n == 14:   # repeat a chunk many times (long lines / many fields)
        p = int(rng.integers(0, len(data)))
        q = min(len(data), p + int(rng.integers(1, 40)))
        return data[:p] + data[p:q] * int(rng.integers(2, 60)) + data[q:]
    elif n in (17, 18):   # stretch one token to a buffer-boundary length
        L = int(rng.choice([15, 16, 31, 32, 63, 64, 65, 127, 128, 129, 255,
                            256, 257, 511, 512, 1023, 1024, 4096]))
        t = toks[i]
        if _num.match(t) and not t.endswith(b"j"):
            # keep it a valid number: pad the fraction with zeros
            if b"e" in t.lower():
                mant, ex = re.split(rb"[eE]", t, 1)
                ex = b"e" + ex
            else:
                mant, ex = t, b""
            if b"." not in mant:
                mant += b"."
            pad = L - len(mant) - len(ex)
            toks[i] = mant + b"0" * max(pad, 0) + ex
        elif t.startswith(b"[") and t.endswith(b"]"):
            toks[i] = b"[" + (t[1:-1] * (L // max(1, len(t) - 2) + 1))[:L - 2] + b"]"
        else:
            toks[i] = (t * (L // len(t) + 1))[:L]
    elif n in (15, 16):   # copy a value between two lines with the same key
        # (e.g. make two "f:" entries equal, or two rows of numbers equal)
        lines = data.split(b"\n")
        keyed = {}
        for k, ln in enumerate(lines):
            st = ln.strip()
            if b":" in st:
                key = st.lstrip(b"- ").split(b":", 1)[0]
                keyed.setdefault(key, []).append(k)
            elif st and st.split()[0][:1].isdigit() or st[:1] in b"+-.":
                keyed.setdefault(b"<row>", []).append(k)
        multi = [v for v in keyed.values() if len(v) >= 2]
        if multi:
            grp = multi[int(rng.integers(0, len(multi)))]
            a, b_ = rng.choice(len(grp), 2, replace=False)
            src, dst = lines[grp[int(a)]], lines[grp[int(b_)]]
            if b":" in src and b":" in dst:
                lines[grp[int(b_)]] = dst.split(b":", 1)[0] + b":" + \
                    src.split(b":", 1)[1]
            else:
                # copy the first field (the frequency of a data row)
                fs, fd = src.split(None, 1), dst.split(None, 1)
                if fs and fd:
                    lead = dst[:len(dst) - len(dst.lstrip())]
                    lines[grp[int(b_)]] = lead + fs[0] + b" " + \
                        (fd[1] if len(fd) > 1 else b"")
        return b"\n".join(lines)
    else:           # empty / whitespace / NULs
        return bytes(rng.choice([b"", b"\n", b" ", b"\x00", b"#", b"# ",
                                 b"[Version] 2.0", b"#VNACal 1.0\n", b"---\n",
                                 b"\xef\xbb\xbf" + data]))
    return b"".join(toks)


def synth_cal_file(rng):
    """a well-formed calibration file for a random type and random
    dimensions 1..3 x 1..3 - including the shapes the type does not allow
    (T types with more rows than columns, U types and E12 with fewer): every
    matrix has the shape those dimensions call for, so only the loader's own
    type / shape rule can refuse the file"""
    import vcalfile as V
    types = ["T8", "U8", "TE10", "UE10", "T16", "U16", "UE14", "E12"]
    ctype = types[int(rng.integers(0, 8))]
    r, c = int(rng.integers(1, 4)), int(rng.integers(1, 4))
    F = int(rng.integers(1, 3))

    def num():
        return "%+.6e %+.6ej" % (rng.standard_normal(), rng.standard_normal())
    cal = V.Cal()
    cal.name, cal.type, cal.rows, cal.cols, cal.nfreq = "s", ctype, r, c, F
    cal.z0_text = "+5.0e+01 +0.0e+00j"
    cal.props = None
    cal.freq_text = ["%.6e" % (1e9 * (k + 1)) for k in range(F)]
    cal.text = []
    for k in range(F):
        d = {}
        for name, shp in V.expected_shapes(ctype, r, c).items():
            if len(shp) == 1:
                d[name] = [num() for _ in range(shp[0])]
            else:
                d[name] = [[("~" if (ctype, name) in V.NO_DIAGONAL and i == j
                             else num()) for j in range(shp[1])]
                           for i in range(shp[0])]
        cal.text.append(d)
    cf = V.CalFile()
    cf.props = None
    cf.cals = [cal]
    legacy = ctype == "E12" and rng.random() < 0.3
    return V.write_text(cf, version="VNACAL 2.0" if legacy else
                        str(rng.choice(["VNACal 1.0", "VNACAL 3.0"]))
                        ).encode("latin-1")


def loader_for(name):
    if name.endswith(".vnacal"):
        return "vnacal"
    if name.endswith(".yaml"):
        return "yaml"
    return "vnadata"
