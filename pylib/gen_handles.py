"""Generator of vnacal_t histories for C16: calibration-table operations,
parameter-handle operations and 1..3 vnacal_new_t per vnacal_t, interleaved.

Every top-level operation is tagged:
  'del_inuse'  vnacal_delete_parameter of a handle some live vnacal_new_t uses
  'probe'      a use of a deleted handle that must be refused
The twin script is the same history without the lines of those two kinds; the
property says the remaining operations cannot tell the difference.
"""
import numpy as np

import calgen
import physics
from runner import Script, cx, hx, qs

NAMES = ["A", "B", "AB", "C", "A B", "\xc3\xa9t\xc3\xa9", "B2"]
MAXP = 1000   # VNACAL_MAX_PRECISION


class VnState(object):
    def __init__(self, name, sc, kappa, idx):
        self.name, self.sc, self.kappa, self.idx = name, sc, kappa, idx
        self.next = 0
        self.uid = [idx * 1000]
        self.used = []        # parameter variables ("$p12") of added standards
        self.solved_after_last_add = False
        self.any_solve = False


class HandleGen(object):
    def __init__(self, rng, nvc=1):
        self.rng = rng
        self.s = Script()
        self.tags = {}          # line -> tag
        self.applies = []       # dict(apply=, dump=, addcal=, sc=, duts=, kappa=)
        self.addcals = {}       # line -> dict(sc, complete)
        self.unknown_checks = []  # dict(solve=, line=, truth=, kappa=)
        self.n = 0
        self.vcs = {}
        self.nops = 0
        for k in range(nvc):
            self.new_vc()

    def uid(self, pfx):
        self.n += 1
        return "%s%d" % (pfx, self.n)

    def tag(self, line, t):
        self.tags[line] = t

    # ------------------------------------------------------------ objects
    def new_vc(self):
        name = self.uid("vc")
        self.s.op("%s=vnacal_create" % name)
        self.vcs[name] = dict(vns={}, params={}, held_dead=set(), dead=[],
                              civars=[], nvn=0)
        return name

    def scenario(self):
        r = self.rng
        for _ in range(8):
            ctype = str(r.choice(["T8", "U8", "TE10", "UE10", "UE14", "E12",
                                  "T8", "U8", "T16", "U16"]))
            p = int(r.choice([1, 1, 2, 2, 2]))
            if ctype in ("T16", "U16") and r.random() < 0.6:
                p = 1
            rr = cc = p
            if p == 2 and r.random() < 0.2:
                if ctype in physics.T_TYPES:
                    rr = 1
                else:
                    cc = 1
            if not physics.dims_ok(ctype, rr, cc):
                continue
            F = int(r.choice([1, 2, 3]))
            sc = calgen.Scenario(ctype, rr, cc, F, r)
            sc.sufficient_recipe(extras=int(r.integers(0, 2)))
            sc.choose_entries()
            ok, kappa = sc.well_determined(1e4)
            if ok and len(sc.stds) <= 26:
                return sc, kappa
        return None, None

    def new_vn(self, vcname):
        s, r = self.s, self.rng
        vc = self.vcs[vcname]
        sc, kappa = self.scenario()
        if sc is None:
            return
        if r.random() < 0.35:
            # one more reflect standard whose value the library must solve for
            g = complex(r.standard_normal(), r.standard_normal()) * 0.4
            st = sc.add_reflect([int(r.integers(1, min(sc.r, sc.c) + 1))], [calgen.Param(
                "scalar", np.full(sc.F, g, dtype=complex))])
            st.entry, st.form = "single_reflect", sc.form
            st.full_rows = st.full_cols = True
            st.use_null_map = False
            st.unknown = g
            sc.iterative = True
        name = self.uid("vn")
        vc["nvn"] += 1
        s.op("%s=vnacal_new_alloc $%s %s %d %d %d" % (
            name, vcname, sc.ctype, sc.r, sc.c, sc.F))
        s.rvec("freq", sc.freqs)
        s.op("vnacal_new_set_frequency_vector $%s @freq" % name)
        if getattr(sc, "iterative", False):
            # the unknown makes the solve iterative: ask for full precision
            s.op("vnacal_new_set_p_tolerance $%s %s" % (name, hx(1e-13)))
            s.op("vnacal_new_set_et_tolerance $%s %s" % (name, hx(1e-13)))
        if r.random() < 0.3:
            sc.z0 = complex(r.choice([75.0, 50 + 5j, 1.0]))
            s.op("vnacal_new_set_z0 $%s %s" % (name, cx(sc.z0)))
        self.nops += 2
        vc["vns"][name] = VnState(name, sc, kappa, self.n)

    # ------------------------------------------------------------ steps
    def step_add(self, vcname):
        vc = self.vcs[vcname]
        cand = [v for v in vc["vns"].values() if v.next < len(v.sc.stds)]
        if not cand:
            return False
        vn = cand[int(self.rng.integers(0, len(cand)))]
        burst = int(self.rng.choice([1, 1, 2, 4]))
        for _ in range(burst):
            if vn.next >= len(vn.sc.stds):
                break
            st = vn.sc.stds[vn.next]
            self.s.rvec("freq", vn.sc.freqs)
            self.n += 1
            unk = getattr(st, "unknown", None)
            if unk is not None:
                guess = unk * (1 + 0.05 * self.rng.standard_normal()) + 0.02
                self.s.op("ug%d=vnacal_make_scalar_parameter $%s %s" % (
                    self.n, vcname, cx(guess)))
                self.s.op("uu%d=vnacal_make_unknown_parameter $%s $ug%d" % (
                    self.n, vcname, self.n))
                st.sp[0][0].var = "$uu%d" % self.n
                vc["params"]["$ug%d" % self.n] = dict(kind="scalar", g=guess)
                vn.unknown = dict(var="$uu%d" % self.n, truth=unk)
            vn.sc.emit_std(self.s, st, self.n, vc=vcname, vn=vn.name,
                           uid=vn.uid)
            for row in st.sp:
                for prm in row:
                    if prm.var and prm.var.startswith("$"):
                        vn.used.append(prm.var)
                        vc["params"][prm.var] = dict(kind=prm.kind, prm=prm,
                                                     sc=vn.sc)
            if unk is not None:
                vc["params"][vn.unknown["var"]]["kind"] = "unknown"
            vn.next += 1
            vn.solved_after_last_add = False
            self.nops += 1
        return True

    def step_solve(self, vcname):
        vc = self.vcs[vcname]
        if not vc["vns"]:
            return False
        vns = list(vc["vns"].values())
        full = [v for v in vns if v.next >= len(v.sc.stds)
                and not v.solved_after_last_add]
        vn = full[0] if full and self.rng.random() < 0.8 else \
            vns[int(self.rng.integers(0, len(vns)))]
        ls = self.s.op("vnacal_new_solve $%s" % vn.name)
        vn.any_solve = True
        if vn.next >= len(vn.sc.stds):
            vn.solved_after_last_add = True
            unk = getattr(vn, "unknown", None)
            if unk is not None and not vc["params"][unk["var"]].get("dead"):
                self.s.rvec("freq", vn.sc.freqs)
                ln = self.s.op("vnacal_get_parameter_values $%s %s @freq" % (
                    vcname, unk["var"]))
                self.unknown_checks.append(dict(solve=ls, line=ln,
                                                truth=unk["truth"],
                                                kappa=vn.kappa))
        return True

    def step_addcal(self, vcname):
        r = self.rng
        vc = self.vcs[vcname]
        if not vc["vns"]:
            return False
        vns = list(vc["vns"].values())
        ready = [v for v in vns if v.solved_after_last_add]
        if ready and r.random() < 0.85:
            vn = ready[int(r.integers(0, len(ready)))]
        else:
            vn = vns[int(r.integers(0, len(vns)))]
        name = str(r.choice(NAMES[:int(r.choice([2, 3, 5, 7]))]))
        civ = self.uid("ci")
        if vc["civars"] and r.random() < 0.15:
            # replace a calibration under the very string vnacal_get_name
            # returns for it (the model resolves the name from the index)
            old = vc["civars"][int(r.integers(0, len(vc["civars"])))][0]
            # (not bound to a variable: the driver skips the call when the
            # slot is empty)
            self.s.op("vnacal_add_calibration_own_name $%s $%s $%s"
                      % (vcname, old, vn.name))
            vn.solved_after_last_add = False
            self.s.op("vnacal_get_name $%s $%s" % (vcname, old))
            self.s.op("dump_vnacal $%s" % vcname)
            return True
        ln = self.s.op("%s=vnacal_add_calibration $%s %s $%s" % (
            civ, vcname, qs(name.encode("latin-1")), vn.name))
        self.addcals[ln] = dict(sc=vn.sc, kappa=vn.kappa,
                                complete=vn.solved_after_last_add)
        vc["civars"].append((civ, ln, vn.sc))
        # the library hands the solved calibration over
        vn.solved_after_last_add = False
        self.s.op("vnacal_find_calibration $%s %s" % (
            vcname, qs(name.encode("latin-1"))))
        self.s.op("vnacal_get_name $%s $%s" % (vcname, civ))
        self.s.op("vnacal_get_type $%s $%s" % (vcname, civ))
        self.s.op("dump_vnacal $%s" % vcname)
        return True

    def step_manycal(self, vcname):
        """a burst of solve + add_calibration under many different names:
        the calibration table grows past 8 and 16 slots (with holes from
        earlier deletions in it)"""
        r = self.rng
        vc = self.vcs[vcname]
        full = [v for v in vc["vns"].values() if v.next >= len(v.sc.stds)]
        if not full:
            return False
        vn = full[int(r.integers(0, len(full)))]
        for _ in range(int(r.integers(3, 11))):
            self.s.op("vnacal_new_solve $%s" % vn.name)
            vn.any_solve = True
            name = "M%d" % int(r.integers(0, 20))
            civ = self.uid("ci")
            ln = self.s.op("%s=vnacal_add_calibration $%s %s $%s" % (
                civ, vcname, qs(name), vn.name))
            self.addcals[ln] = dict(sc=vn.sc, kappa=vn.kappa, complete=True)
            vc["civars"].append((civ, ln, vn.sc))
            self.s.op("vnacal_find_calibration $%s %s" % (vcname, qs(name)))
            if r.random() < 0.25:
                self.s.op("vnacal_delete_calibration $%s %s" % (
                    vcname, self.some_ci(vcname)))
        vn.solved_after_last_add = False
        self.s.op("vnacal_get_calibration_end $%s" % vcname)
        self.s.op("dump_vnacal $%s" % vcname)
        return True

    def some_ci(self, vcname):
        r = self.rng
        vc = self.vcs[vcname]
        if vc["civars"] and r.random() < 0.7:
            return "$" + vc["civars"][int(r.integers(0, len(vc["civars"])))][0]
        return str(int(r.choice([-1, 0, 0, 1, 1, 2, 3, 4, 7, 8, 9, 15, 16, 17,
                                 100, -2])))

    def step_reload(self, vcname):
        """save the vnacal_t and load the file into a NEW vnacal_t that takes
        part in the rest of the history: loaded calibrations are queried,
        replaced, deleted and applied next to calibrations added later (the
        model adopts the loaded table from the first dump; everything after
        that is predicted)"""
        if len(self.vcs) >= 4:
            return False
        s = self.s
        self.n += 1
        path = "reload%d.vnacal" % self.n
        s.op("vnacal_save $%s %s" % (vcname, qs(path)))
        name = self.uid("vc")
        s.op("%s=vnacal_load %s" % (name, qs(path)))
        s.op("dump_vnacal $%s" % name)
        s.op("vnacal_get_calibration_end $%s" % name)
        self.vcs[name] = dict(vns={}, params={}, held_dead=set(), dead=[],
                              civars=[], nvn=0)
        return True

    def step_delcal(self, vcname):
        self.s.op("vnacal_delete_calibration $%s %s" % (
            vcname, self.some_ci(vcname)))
        self.s.op("vnacal_get_calibration_end $%s" % vcname)
        self.s.op("dump_vnacal $%s" % vcname)
        return True

    def step_query(self, vcname):
        r, s = self.rng, self.s
        k = r.integers(0, 4)
        if k == 0:
            nm = str(r.choice(NAMES + ["nope", ""]))
            s.op("vnacal_find_calibration $%s %s" % (
                vcname, qs(nm.encode("latin-1"))))
        elif k == 1:
            s.op("vnacal_get_calibration_end $%s" % vcname)
        else:
            ci = self.some_ci(vcname)
            for g in r.permutation(["name", "type", "rows", "columns",
                                    "frequencies", "fmin", "fmax",
                                    "frequency_vector", "z0"])[:int(
                                        r.integers(2, 10))]:
                s.op("vnacal_get_%s $%s %s" % (g, vcname, ci))
        return True

    def step_prop(self, vcname):
        r, s = self.rng, self.s
        ci = "-1" if r.random() < 0.4 else self.some_ci(vcname)
        key = str(r.choice(["k1", "k2", "k3", "grp.k1", "grp.k2", "k1"]))
        k = r.integers(0, 10)
        if k < 5:
            self.n += 1
            s.op("vnacal_property_set $%s %s %s" % (
                vcname, ci, qs("%s=v%d" % (key, self.n))))
        elif k < 7:
            s.op("vnacal_property_delete $%s %s %s" % (vcname, ci, qs(key)))
        elif k == 7:
            s.op("vnacal_property_get $%s %s %s" % (vcname, ci, qs(key)))
        elif k == 8:
            d = str(r.choice([".", "grp"]))
            s.op("vnacal_property_count $%s %s %s" % (vcname, ci, qs(d)))
            s.op("vnacal_property_type $%s %s %s" % (vcname, ci, qs(d)))
            s.op("vnacal_property_keys $%s %s %s" % (vcname, ci, qs(d)))
        else:
            s.op("dump_vnacal_property $%s %s" % (vcname, ci))
        s.op("dump_vnacal $%s" % vcname)
        return True

    def live_params(self, vc, kinds=None):
        return [v for v, d in vc["params"].items()
                if not d.get("dead") and (kinds is None or d["kind"] in kinds)]

    def step_make(self, vcname):
        r, s = self.rng, self.s
        vc = self.vcs[vcname]
        pn = self.uid("q")
        k = r.integers(0, 8)
        if k < 2:
            g = complex(r.choice([0.0, 1.0, -1.0, 0.5, 1j])) \
                if r.random() < 0.3 else \
                complex(r.standard_normal(), r.standard_normal())
            s.op("%s=vnacal_make_scalar_parameter $%s %s" % (
                pn, vcname, cx(g)))
            if g not in (0, 1, -1):
                vc["params"]["$" + pn] = dict(kind="scalar", g=g)
        elif k < 4:
            n = int(r.integers(1, 5))
            fr = np.sort(r.uniform(5e8, 9e9, n))
            gv = r.standard_normal(n) + 1j * r.standard_normal(n)
            s.rvec("pf_" + pn, fr)
            s.cvec("pg_" + pn, gv)
            s.op("%s=vnacal_make_vector_parameter $%s @pf_%s %d @pg_%s" % (
                pn, vcname, pn, n, pn))
            vc["params"]["$" + pn] = dict(kind="vector", fbuf="pf_" + pn)
            s.op("vnacal_get_parameter_values $%s $%s @pf_%s" % (
                vcname, pn, pn))
        elif k < 6:
            base = self.live_params(vc, ("scalar", "vector"))
            g = str(r.choice(base)) if base and r.random() < 0.7 else \
                str(int(r.choice([0, 1, 2])))
            s.op("%s=vnacal_make_unknown_parameter $%s %s" % (pn, vcname, g))
            vc["params"]["$" + pn] = dict(kind="unknown", other=g)
        else:
            base = self.live_params(vc)
            o = str(r.choice(base)) if base and r.random() < 0.7 else \
                str(int(r.choice([0, 1, 2])))
            s.rvec("sv_" + pn, [float(r.uniform(0.001, 0.1))])
            s.op("%s=vnacal_make_correlated_parameter $%s %s NULL 1 @sv_%s" % (
                pn, vcname, o, pn))
            vc["params"]["$" + pn] = dict(kind="correlated", other=o)
        return True

    def in_use(self, vc):
        out = set()
        for vn in vc["vns"].values():
            out.update(vn.used)
        return out

    def step_delparam(self, vcname):
        r, s = self.rng, self.s
        vc = self.vcs[vcname]
        used = self.in_use(vc)
        live_used = [v for v in used if not vc["params"][v].get("dead")]
        live_free = [v for v in self.live_params(vc) if v not in used]
        k = r.integers(0, 10)
        if k < 5 and live_used:
            v = live_used[int(r.integers(0, len(live_used)))]
            ln = s.op("vnacal_delete_parameter $%s %s" % (vcname, v))
            self.tag(ln, "del_inuse")
            vc["params"][v]["dead"] = True
            vc["held_dead"].add(v)
        elif k < 8 and live_free:
            v = live_free[int(r.integers(0, len(live_free)))]
            # a parameter that others refer to may stay referenced: plain
            # deletes are part of both twins
            s.op("vnacal_delete_parameter $%s %s" % (vcname, v))
            vc["params"][v]["dead"] = True
            vc["dead"].append(v)
        elif k == 8:
            h = int(r.choice([0, 1, 2]))
            s.op("vnacal_delete_parameter $%s %d" % (vcname, h))
            s.op("vnacal_get_parameter_value $%s %d %s" % (
                vcname, h, hx(2e9)))
        else:
            s.op("vnacal_delete_parameter $%s %d" % (
                vcname, int(r.choice([-1, -7, 9999, 123456]))))
        return True

    def step_probe(self, vcname):
        """uses of deleted handles; all lines are tagged 'probe'"""
        r, s = self.rng, self.s
        vc = self.vcs[vcname]
        held = sorted(vc["held_dead"])
        plain = vc["dead"]
        if not held and not plain:
            return False
        k = r.integers(0, 6)
        if held and (k < 3 or not plain):
            v = held[int(r.integers(0, len(held)))]
            if k == 0 and vc["vns"]:
                vn = list(vc["vns"].values())[int(r.integers(0, len(vc["vns"])))]
                sc = vn.sc
                nm = self.uid("pm")
                s.add("buf %s cmatrix %d %d" % (nm, sc.r * sc.c, sc.F))
                ln = s.op("vnacal_new_add_single_reflect_m $%s @%s %d %d %s 1"
                          % (vn.name, nm, sc.r, sc.c, v))
                self.tag(ln, "probe")
                return True
        else:
            v = plain[int(r.integers(0, len(plain)))]
        kk = r.integers(0, 4)
        pn = self.uid("x")
        if kk == 0:
            ln = s.op("%s=vnacal_make_unknown_parameter $%s %s" % (
                pn, vcname, v))
        elif kk == 1:
            s.rvec("sv_" + pn, [0.01])
            ln = s.op("%s=vnacal_make_correlated_parameter $%s %s NULL 1 "
                      "@sv_%s" % (pn, vcname, v, pn))
        elif kk == 2:
            ln = s.op("vnacal_get_parameter_value $%s %s %s" % (
                vcname, v, hx(2e9)))
        else:
            ln = s.op("vnacal_delete_parameter $%s %s" % (vcname, v))
        self.tag(ln, "probe")
        return True

    def step_value(self, vcname):
        r, s = self.rng, self.s
        vc = self.vcs[vcname]
        live = self.live_params(vc)
        if live and r.random() < 0.8:
            v = live[int(r.integers(0, len(live)))]
            d = vc["params"][v]
            if d["kind"] == "vector" and "prm" in d:
                s.rvec("freq", d["sc"].freqs)
                s.op("vnacal_get_parameter_values $%s %s @freq" % (vcname, v))
            elif d["kind"] == "vector":
                s.op("vnacal_get_parameter_values $%s %s @%s" % (
                    vcname, v, d["fbuf"]))
                if r.random() < 0.3:
                    s.op("vnacal_get_parameter_value $%s %s %s" % (
                        vcname, v, hx(float(r.choice([1e6, 1e12])))))
            else:
                s.op("vnacal_get_parameter_value $%s %s %s" % (
                    vcname, v, hx(float(r.uniform(1e9, 8e9)))))
        else:
            s.op("vnacal_get_parameter_value $%s %d %s" % (
                vcname, int(r.choice([0, 1, 2])), hx(3e9)))
        return True

    def step_free(self, vcname):
        r, s = self.rng, self.s
        vc = self.vcs[vcname]
        if len(vc["vns"]) < 2:
            return False
        names = list(vc["vns"])
        name = names[int(r.integers(0, len(names)))]
        vn = vc["vns"].pop(name)
        s.op("vnacal_new_free $%s" % name)
        still = self.in_use(vc)
        for v in list(vc["held_dead"]):
            if v not in still:
                vc["held_dead"].discard(v)
                vc["dead"].append(v)
        return True

    def step_apply(self, vcname):
        r, s = self.rng, self.s
        vc = self.vcs[vcname]
        cand = [(civ, ln, sc) for civ, ln, sc in vc["civars"]
                if self.addcals[ln]["complete"] and sc.can_apply()]
        if not cand:
            return False
        civ, ln, sc = cand[int(r.integers(0, len(cand)))]
        duts = sc.rand_dut()
        vd = self.uid("vd")
        s.op("%s=vnadata_alloc" % vd)
        s.rvec("freq", sc.freqs)
        la, ld = sc.emit_apply(s, duts, "x", vc=vcname, ci="$" + civ, vd=vd,
                               tag=self.uid("d"))
        s.op("vnadata_free $%s" % vd)
        self.applies.append(dict(apply=la, dump=ld, addcal=ln, sc=sc,
                                 duts=duts, kappa=self.addcals[ln]["kappa"]))
        return True

    def step_foreign(self, vcname):
        """a vnacal_new_t of another vnacal_t must be refused"""
        others = [n for n in self.vcs if n != vcname and self.vcs[n]["vns"]]
        if not others:
            return False
        o = others[0]
        vn = list(self.vcs[o]["vns"].values())[0]
        self.s.op("%s=vnacal_add_calibration $%s %s $%s" % (
            self.uid("cx"), vcname, qs("foreign"), vn.name))
        self.s.op("dump_vnacal $%s" % vcname)
        return True

    # ------------------------------------------------------------ driver
    def generate(self, nops=100):
        r = self.rng
        steps = [(self.step_add, 30), (self.step_solve, 7),
                 (self.step_addcal, 9), (self.step_delcal, 5),
                 (self.step_query, 6), (self.step_prop, 8),
                 (self.step_make, 7), (self.step_delparam, 9),
                 (self.step_probe, 7), (self.step_value, 5),
                 (self.step_free, 2), (self.step_apply, 4),
                 (self.step_foreign, 1), (self.step_reload, 2),
                 (self.step_manycal, 2)]
        w = np.array([x[1] for x in steps], dtype=float)
        w /= w.sum()
        guard = 0
        while self.nops < nops and guard < nops * 6:
            guard += 1
            vcname = str(r.choice(list(self.vcs)))
            vc = self.vcs[vcname]
            if len(vc["vns"]) == 0 or (len(vc["vns"]) < 3 and vc["nvn"] < 6
                                       and r.random() < 0.06):
                self.new_vn(vcname)
                continue
            fn = steps[int(r.choice(len(steps), p=w))][0]
            if fn(vcname):
                self.nops += 1
        # closing: every vnacal_t is saved at full precision (twin compare)
        for k, vcname in enumerate(self.vcs):
            self.s.op("dump_vnacal $%s" % vcname)
            self.s.op("vnacal_set_fprecision $%s %d" % (vcname, MAXP))
            self.s.op("vnacal_set_dprecision $%s %d" % (vcname, MAXP))
            self.s.op("vnacal_save $%s %s" % (vcname, qs("out%d.vnacal" % k)))
            self.s.op("read_file %s" % qs("out%d.vnacal" % k))
        return self.s.text()

    def twin(self):
        """the same script without deletions-in-use and probes"""
        drop = set(self.tags)
        return "\n".join(l for i, l in enumerate(self.s.lines, 1)
                         if i not in drop) + "\n"


class ResolveGen(object):
    """One unknown reflect parameter handle solved more than once: by two
    vnacal_new_t of the same vnacal_t (and by re-solving the first one) on two
    frequency grids that do not overlap, with the same or a different number
    of points.  After every solve vnacal_get_parameter_value must return what
    that solve found on that solve's grid (consistent data: the truth) and must
    refuse the frequencies of the other grid."""

    def __init__(self, rng):
        self.rng = rng
        self.s = Script()
        self.checks = []      # dict(solve=, line=, truth=[...], kappa=, what=)
        self.outside = []     # dict(solve=, line=, what=): every value must fail
        self.shape = None

    def scenario(self, F, lo, hi):
        r = self.rng
        for _ in range(12):
            ctype = str(r.choice(["T8", "U8", "TE10", "UE10", "UE14", "E12",
                                  "T16", "U16"]))
            p = int(r.choice([1, 1, 2]))
            if ctype in ("T16", "U16"):
                p = 1
            sc = calgen.Scenario(ctype, p, p, F, r, fmin=lo, fmax=hi)
            sc.sufficient_recipe(extras=0)
            sc.choose_entries()
            ok, kappa = sc.well_determined(1e3)
            if ok and len(sc.stds) <= 16:
                return sc, kappa
        return None, None

    def unknown_stds(self, sc, var, base):
        """two measurements of the same unknown reflect: over-determined"""
        r = self.rng
        F = sc.F
        g = base + complex(r.standard_normal(), r.standard_normal()) * 0.05
        slope = complex(r.standard_normal(), r.standard_normal()) * 0.03
        truth = np.array([g + slope * i for i in range(F)], dtype=complex)
        out = []
        for _ in range(2):
            prm = calgen.Param("vector", truth)
            prm.var = var
            st = sc.add_reflect([int(r.integers(1, sc.p + 1))], [prm])
            st.entry, st.form = "single_reflect", sc.form
            st.full_rows = st.full_cols = True
            st.use_null_map = False
            out.append(st)
        return truth, g

    def emit_vn(self, name, sc, idx0):
        s = self.s
        s.op("%s=vnacal_new_alloc $vc %s %d %d %d" % (name, sc.ctype, sc.r,
                                                      sc.c, sc.F))
        s.rvec("freq", sc.freqs)
        s.op("vnacal_new_set_frequency_vector $%s @freq" % name)
        if getattr(self, "kind", "unknown") == "unknown":
            # full precision for the truth comparison; a correlated parameter
            # (weighted problem) keeps the default tolerances
            s.op("vnacal_new_set_p_tolerance $%s %s" % (name, hx(1e-13)))
            s.op("vnacal_new_set_et_tolerance $%s %s" % (name, hx(1e-13)))
        uid = [idx0 * 1000]
        order = self.rng.permutation(len(sc.stds))
        for k, i in enumerate(order):
            sc.emit_std(s, sc.stds[int(i)], idx0 * 100 + k, vn=name, uid=uid)

    def query(self, solve_line, grid_name, truth, kappa, what):
        ln = self.s.op("vnacal_get_parameter_values $vc $uu @%s" % grid_name)
        if truth is None:
            self.outside.append(dict(solve=solve_line, line=ln, what=what))
        else:
            self.checks.append(dict(solve=solve_line, line=ln, truth=truth,
                                    kappa=kappa, what=what))

    def generate(self):
        r, s = self.rng, self.s
        F1 = int(r.integers(2, 6))
        same = r.random() < 0.7
        F2 = F1 if same else int(r.choice([f for f in range(1, 7) if f != F1]))
        bands = [(1.0e9, 2.5e9), (6.0e9, 1.0e10)]
        if r.random() < 0.5:
            bands.reverse()
        sc1, k1 = self.scenario(F1, *bands[0])
        sc2, k2 = self.scenario(F2, *bands[1])
        if sc1 is None or sc2 is None:
            return None
        variant = str(r.choice(["second_new", "free_first", "resolve_first"]))
        self.shape = (variant, "same_count" if same else "other_count",
                      sc1.ctype, sc2.ctype)
        s.op("vc=vnacal_create")
        base = complex(r.standard_normal(), r.standard_normal()) * 0.4
        guess = base + complex(r.standard_normal(), r.standard_normal()) * 0.03
        s.op("pg=vnacal_make_scalar_parameter $vc %s" % cx(guess))
        self.kind = "correlated" if r.random() < 0.25 else "unknown"
        if self.kind == "correlated":
            # tied to $pg with a prior: the solved value is pulled towards the
            # guess, so only "finite on its own grid / refused elsewhere" is
            # asserted for it
            s.rvec("sg", [float(r.uniform(0.02, 0.2))])
            s.op("uu=vnacal_make_correlated_parameter $vc $pg NULL 1 @sg")
        else:
            s.op("uu=vnacal_make_unknown_parameter $vc $pg")
        self.shape = self.shape + (self.kind,)
        t1, _ = self.unknown_stds(sc1, "$uu", base)
        t2, _ = self.unknown_stds(sc2, "$uu", base)
        s.rvec("grid1", sc1.freqs)
        s.rvec("grid2", sc2.freqs)
        # unsolved: must fail
        self.query(None, "grid1", None, k1, "before any solve")
        self.emit_vn("vn1", sc1, 1)
        l1 = s.op("vnacal_new_solve $vn1")
        self.query(l1, "grid1", t1, k1, "first solve, its own grid")
        self.query(l1, "grid2", None, k1, "first solve, other grid")
        if variant == "free_first":
            s.op("vnacal_new_free $vn1")
        self.emit_vn("vn2", sc2, 2)
        l2 = s.op("vnacal_new_solve $vn2")
        self.query(l2, "grid2", t2, k2, "second solve (%s), its own grid" % (
            "same point count" if same else "different point count"))
        self.query(l2, "grid1", None, k2, "second solve, first grid")
        if variant == "resolve_first":
            l3 = s.op("vnacal_new_solve $vn1")
            self.query(l3, "grid1", t1, k1, "first vnacal_new_t solved again, "
                       "its own grid")
            self.query(l3, "grid2", None, k1, "first vnacal_new_t solved "
                       "again, other grid")
            l4 = s.op("vnacal_new_solve $vn2")
            self.query(l4, "grid2", t2, k2, "second vnacal_new_t solved again")
        s.op("ci=vnacal_add_calibration $vc \"two\" $vn2")
        s.op("dump_vnacal $vc")
        return s.text()


class ShiftGen(object):
    """Handle numbers are arbitrary.  The same calibration - noisy data, an
    unknown reflect seen by two or three standards, the first of them early
    and the last one at the end - is built twice in one script: in a fresh
    vnacal_t (handles 4, 5, 6 ...) and in a vnacal_t that already holds 9..70
    parameters, some of them deleted again, with more foreign parameters
    created between the standards (handles shifted, sparse and not ascending).
    Solve verdict, solved value and corrected device must agree."""

    def __init__(self, rng):
        self.rng = rng
        self.s = Script()
        self.shape = None
        self.L = {}

    def scenario(self):
        r = self.rng
        for _ in range(12):
            ctype = str(r.choice(["T8", "U8", "TE10", "UE10", "UE14", "E12",
                                  "T16", "U16"]))
            p = int(r.choice([1, 2, 2, 2, 3]))
            if ctype in ("T16", "U16"):
                p = int(r.choice([1, 2]))
            F = int(r.choice([1, 2]))
            sc = calgen.Scenario(ctype, p, p, F, r, form="m")
            sc.sufficient_recipe(extras=int(r.integers(0, 3)))
            sc.choose_entries()
            for st in sc.stds:
                st.full_rows = st.full_cols = True
            ok, kappa = sc.well_determined(100.0)
            if ok and len(sc.stds) <= 24:
                return sc, kappa
        return None, None

    def generate(self):
        r, s = self.rng, self.s
        sc, kappa = self.scenario()
        if sc is None:
            return None
        self.sc, self.kappa = sc, kappa
        F = sc.F
        g = complex(r.standard_normal(), r.standard_normal()) * 0.5
        truth = np.full(F, g, dtype=complex)
        guess = calgen.Param("scalar", truth + 0.02 * complex(
            r.standard_normal(), r.standard_normal()))
        unk = calgen.Param.unknown(truth, guess)
        known = list(sc.stds)
        mine = []
        for _ in range(int(r.choice([2, 2, 3]))):
            st = sc.add_reflect([int(r.integers(1, sc.p + 1))], [unk])
            st.entry, st.form = "single_reflect", "m"
            st.full_rows = st.full_cols = True
            st.use_null_map = False
            mine.append(st)
        order = [known[int(i)] for i in r.permutation(len(known))]
        order.insert(int(r.integers(0, min(3, len(order)) + 1)), mine[0])
        for st in mine[1:-1]:
            order.insert(int(r.integers(1, len(order) + 1)), st)
        order.append(mine[-1])
        sc.stds = order
        sc.add_noise(10.0 ** r.uniform(-4, -2.7))
        duts = sc.rand_dut()
        nparams = len(set(id(prm) for st in sc.stds for row in st.sp
                          for prm in row))
        shift = int(r.integers(9, 71))
        holes = r.random() < 0.5
        between = [int(x) for x in r.choice([0, 0, 1, 2, 5], len(sc.stds) + 1)]
        # how the shared unknown is made: plainly; with its guess deleted
        # right away (the unknown holds it); wrapped in a correlated
        # parameter and then deleted (the correlated parameter holds it)
        held = str(r.choice(["plain", "plain", "guess-deleted",
                             "wrapped-and-deleted", "both-deleted"]))
        self.shape = (sc.ctype, sc.p, F, len(mine),
                      "params>=9" if nparams >= 9 else "params<9",
                      "holes" if holes else "dense", held)
        self.info = dict(shift=shift, holes=holes, parameters=nparams,
                         standards=len(sc.stds))
        for side in ("a", "b"):
            vc, vn = "v" + side, "n" + side
            sc.reset_vars()
            guess.var = None
            s.op("%s=vnacal_create" % vc)
            if side == "b":
                for j in range(shift):
                    s.op("fp%d=vnacal_make_scalar_parameter $%s %s" % (
                        j, vc, cx(0.01 * j + 0.5j)))
                if holes:
                    for j in sorted(set(int(x) for x in r.integers(
                            0, shift, max(1, shift // 4)))):
                        s.op("vnacal_delete_parameter $%s $fp%d" % (vc, j))
            s.op("%s=vnacal_new_alloc $%s %s %d %d %d" % (
                vn, vc, sc.ctype, sc.r, sc.c, F))
            s.rvec("freq", sc.freqs)
            s.op("vnacal_new_set_frequency_vector $%s @freq" % vn)
            s.op("vnacal_new_set_p_tolerance $%s %s" % (vn, hx(1e-11)))
            s.op("vnacal_new_set_et_tolerance $%s %s" % (vn, hx(1e-11)))
            s.op("vnacal_new_set_iteration_limit $%s 100" % vn)
            uid = [0 if side == "a" else 5000]
            s.op("hg%s=vnacal_make_scalar_parameter $%s %s" % (
                side, vc, cx(guess.values[0])))
            s.op("hu%s=vnacal_make_unknown_parameter $%s $hg%s" % (
                side, vc, side))
            unk.var = "$hu" + side
            if held in ("guess-deleted", "both-deleted"):
                s.op("vnacal_delete_parameter $%s $hg%s" % (vc, side))
            if held in ("wrapped-and-deleted", "both-deleted"):
                s.rvec("hs", [0.05])
                s.op("hc%s=vnacal_make_correlated_parameter $%s $hu%s NULL 1 "
                     "@hs" % (side, vc, side))
                s.op("vnacal_delete_parameter $%s $hu%s" % (vc, side))
                unk.var = "$hc" + side
            adds = []
            for i, st in enumerate(sc.stds):
                if side == "b":
                    for j in range(between[i]):
                        s.op("fq%d_%d=vnacal_make_scalar_parameter $%s %s" % (
                            i, j, vc, cx(0.3 + 0.01j * j)))
                adds.append(sc.emit_std(s, st, i, vc=vc, vn=vn, uid=uid))
            ls = s.op("vnacal_new_solve $%s" % vn)
            lv = s.op("vnacal_get_parameter_values $%s %s @freq" % (
                vc, unk.var))
            lc = s.op("ci%s=vnacal_add_calibration $%s \"c\" $%s" % (
                side, vc, vn))
            s.op("vd%s=vnadata_alloc" % side)
            la, ld = sc.emit_apply(s, duts, "c", form="m", vc=vc,
                                   ci="$ci" + side, vd="vd" + side)
            self.L[side] = dict(add=adds, solve=ls, value=lv, addcal=lc,
                                apply=la, dump=ld)
        self.truth = g
        return s.text()
