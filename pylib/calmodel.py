"""calmodel: the abstract vnacal_t of vnacal(3) / vnacal_parameter(3) and an
offline monitor that replays a driver event log against it.

Written from the manual pages only:

  calibration table (sparse, keyed by index and by name)
    * vnacal_add_calibration returns the index at which vnacal_find_calibration,
      vnacal_get_name, vnacal_get_type, ... then see the calibration;
    * adding an existing name replaces that calibration in place ("deletes and
      replaces the existing calibration": the old calibration's properties go
      with it);
    * vnacal_delete_calibration empties exactly that slot, nothing is
      renumbered;
    * vnacal_get_calibration_end is one past the highest live index;
    * WHICH free slot a new name takes is not specified: the model only
      requires that the returned index was not live and that every other
      calibration stayed where and what it was;
    * the global (ci = -1) and per-calibration property roots are separate.
  parameter handles
    * handles returned by the vnacal_make_*_parameter functions are pairwise
      distinct while live and distinct from the predefined 0 / 1 / 2, except
      that vnacal_make_scalar_parameter(0 | 1 | -1) may return the predefined
      handle of that value;
    * the predefined handles are permanent (whatever vnacal_delete_parameter
      returns for them) and evaluate to 0, 1, -1;
    * a deleted handle is refused for new use (-1 / EINVAL) by
      vnacal_make_unknown_parameter, vnacal_make_correlated_parameter,
      vnacal_delete_parameter, vnacal_get_parameter_value and the
      vnacal_new_add_* functions;
    * vnacal_get_parameter_value returns the supplied scalar, the supplied
      vector values at its knots, fails for an unsolved unknown parameter.
  The numbering policy of handles is NOT asserted.

Monitor.feed(script_text, events) -> list of (what, function, detail).
"""
import math

PREDEF = {0: 0j, 1: 1 + 0j, 2: -1 + 0j}
CTYPES = {"T8": 0, "U8": 1, "TE10": 2, "UE10": 3, "T16": 4, "U16": 5,
          "UE14": 6, "E12": 8, "NOTYPE": -1}


# ----------------------------------------------------------------------
# small helpers
# ----------------------------------------------------------------------
class Bad(object):
    def __init__(self, why):
        self.why = why

    def __eq__(self, other):
        return False

    def __ne__(self, other):
        return True

    def __repr__(self):
        return "Bad(%s)" % self.why


def prop_from_dump(obj):
    """driver dump of a property tree -> None | str | dict | list"""
    if obj is None or isinstance(obj, str):
        return obj
    if isinstance(obj, dict):
        if "m" in obj:
            kv = obj["m"]
            d = {}
            for i in range(0, len(kv) - 1, 2):
                if kv[i] in d:
                    return Bad("duplicate key %r" % kv[i])
                d[kv[i]] = prop_from_dump(kv[i + 1])
            return d
        if "l" in obj:
            return [prop_from_dump(x) for x in obj["l"]]
        if "bad" in obj:
            return Bad(obj["bad"])
    return Bad("unparsable dump %r" % (obj,))


def has_bad(p):
    if isinstance(p, Bad):
        return True
    if isinstance(p, dict):
        return any(has_bad(v) for v in p.values())
    if isinstance(p, list):
        return any(has_bad(v) for v in p)
    return False


def split_tokens(line):
    """tokenise a script line like the driver does (quoted strings with C
    escapes); returns list of (text, quoted)"""
    out = []
    i, n = 0, len(line)
    while i < n:
        ch = line[i]
        if ch in " \t\r\n":
            i += 1
            continue
        if ch == '"':
            i += 1
            buf = []
            while i < n and line[i] != '"':
                if line[i] == "\\" and i + 1 < n:
                    i += 1
                    c = line[i]
                    if c == "n":
                        buf.append("\n")
                    elif c == "t":
                        buf.append("\t")
                    elif c == "r":
                        buf.append("\r")
                    elif c == "0":
                        buf.append("\0")
                    elif c == "x" and i + 2 < n:
                        try:
                            buf.append(chr(int(line[i + 1:i + 3], 16)))
                            i += 2
                        except ValueError:
                            buf.append("x")
                    else:
                        buf.append(c)
                    i += 1
                else:
                    buf.append(line[i])
                    i += 1
            i += 1
            s = "".join(buf)
            # the C side sees a NUL-terminated string
            z = s.find("\0")
            out.append((s if z < 0 else s[:z], True))
        else:
            j = i
            while j < n and line[j] not in " \t\r\n":
                j += 1
            out.append((line[i:j], False))
            i = j
    return out


def fnum(tok):
    try:
        if tok.lower().startswith(("0x", "-0x", "+0x")):
            return float.fromhex(tok)
        return float(tok)
    except ValueError:
        return float("nan")


def ceq(a, b, tol=0.0):
    """a: [re, im] from the log, b: complex"""
    if not isinstance(a, list) or len(a) != 2:
        return False
    z = complex(a[0], a[1])
    if z == b:
        return True
    return tol > 0 and abs(z - b) <= tol * max(1.0, abs(b))


class Cal(object):
    __slots__ = ("name", "type", "rows", "cols", "F", "freq", "z0", "prop",
                 "tag")

    def __init__(self, name, type_, rows, cols, F, freq, z0, prop=None,
                 tag=None):
        self.name, self.type, self.rows, self.cols = name, type_, rows, cols
        self.F, self.freq, self.z0, self.prop, self.tag = F, freq, z0, prop, tag

    def brief(self):
        return dict(name=self.name, type=self.type, rows=self.rows,
                    cols=self.cols, F=self.F)


class Vn(object):
    def __init__(self, vc, type_, rows, cols, F):
        self.vc, self.type, self.rows, self.cols, self.F = vc, type_, rows, cols, F
        self.freq = None
        self.z0 = 50 + 0j
        self.cal = "none"     # none | fresh | maybe
        self.holds = set()
        self.nstd = 0
        self.tag = None


class Param(object):
    __slots__ = ("kind", "gamma", "freq", "values", "other", "solved")

    def __init__(self, kind, gamma=None, freq=None, values=None, other=None):
        self.kind, self.gamma, self.freq = kind, gamma, freq
        self.values, self.other, self.solved = values, other, False


class Vc(object):
    def __init__(self):
        self.cals = {}
        self.gprop = None
        self.params = {}
        self.known = True      # False after vnacal_load until a dump adopts
        self.vns = set()

    def end(self):
        return 1 + max(self.cals) if self.cals else 0

    def find(self, name):
        for ci, c in self.cals.items():
            if c.name == name:
                return ci
        return None

    def live(self, h):
        return h in PREDEF or h in self.params

    def shape(self):
        n = len(self.cals)
        holes = self.end() - n
        return (min(n, 4), min(holes, 2), min(len(self.params), 6) // 2,
                min(len(self.vns), 3))


# ----------------------------------------------------------------------
# simple property semantics for the descriptors the C16 generator uses:
# "key", "grp.key" (maps only).  Anything else: (None, UNKNOWN)
# ----------------------------------------------------------------------
UNKNOWN = object()


def _simple_path(d):
    parts = d.split(".")
    if not parts or len(parts) > 3:
        return None
    for p in parts:
        if not p or not all(ch.isalnum() or ch == "_" for ch in p):
            return None
    return parts


def simple_set(root, arg):
    """-> new root or UNKNOWN"""
    if "=" not in arg:
        return UNKNOWN
    d, val = arg.split("=", 1)
    path = _simple_path(d)
    if path is None:
        return UNKNOWN
    import copy
    new = copy.deepcopy(root) if isinstance(root, dict) else {}
    cur = new
    for p in path[:-1]:
        if not isinstance(cur.get(p), dict):
            cur[p] = {}
        cur = cur[p]
    cur[path[-1]] = val
    return new


def simple_lookup(root, d):
    """-> (found, value) or UNKNOWN"""
    if d == ".":
        return (True, root)
    path = _simple_path(d)
    if path is None:
        return UNKNOWN
    cur = root
    for p in path:
        if not isinstance(cur, dict) or p not in cur:
            return (False, None)
        cur = cur[p]
    return (True, cur)


def simple_delete(root, d):
    """-> (ok, new root) or UNKNOWN"""
    if d == ".":
        return (True, None)
    path = _simple_path(d)
    if path is None:
        return UNKNOWN
    import copy
    new = copy.deepcopy(root)
    cur = new
    for p in path[:-1]:
        if not isinstance(cur, dict) or p not in cur:
            return (False, root)
        cur = cur[p]
    if not isinstance(cur, dict) or path[-1] not in cur:
        return (False, root)
    del cur[path[-1]]
    return (True, new)


# ----------------------------------------------------------------------
# the monitor
# ----------------------------------------------------------------------
ADD_HANDLE_ARGS = {
    # op -> (positions of int handle args, position of ivec of handles)
    "vnacal_new_add_single_reflect": ((7,), None),
    "vnacal_new_add_single_reflect_m": ((4,), None),
    "vnacal_new_add_double_reflect": ((7, 8), None),
    "vnacal_new_add_double_reflect_m": ((4, 5), None),
    "vnacal_new_add_through": ((), None),
    "vnacal_new_add_through_m": ((), None),
    "vnacal_new_add_line": ((), 7),
    "vnacal_new_add_line_m": ((), 4),
    "vnacal_new_add_mapped_matrix": ((), 7),
    "vnacal_new_add_mapped_matrix_m": ((), 4),
}
GETTERS = ("name", "type", "rows", "columns", "frequencies", "fmin", "fmax",
           "frequency_vector", "z0")
LOOKUP_ERRNOS = ("EINVAL", "ENOENT")


class Monitor(object):
    """replays one case.  `strict_props`: property descriptors are the simple
    ones and are modelled exactly; otherwise the target root is adopted from
    the next dump and only the other roots are required to stay unchanged."""

    def __init__(self, strict_props=True, vec_tol=1e-12):
        self.v = []
        self.env = {}        # script variable -> int / float value
        self.bufs = {}       # buffer name -> list of numbers / ints
        self.vcs = {}        # variable -> Vc
        self.vnm = {}        # variable -> Vn
        self.strict_props = strict_props
        self.vec_tol = vec_tol
        self.shapes = set()
        self.counts = {}
        self.apply_seen = {}  # line of apply -> (ci, tag of the calibration)
        self.values_seen = {}  # line of get_parameter_values -> (live, solved)

    # ------------------------------------------------------------ plumbing
    def bad(self, what, fn, detail):
        self.v.append((what, fn, detail))

    def val(self, tok):
        if tok.startswith("$"):
            return self.env.get(tok[1:])
        try:
            return int(tok, 0)
        except ValueError:
            return None

    def count(self, k):
        self.counts[k] = self.counts.get(k, 0) + 1

    def feed(self, text, events):
        lines = text.split("\n")
        for ev in events:
            i = ev.get("i")
            if not isinstance(i, int) or i < 1 or i > len(lines):
                continue
            toks = split_tokens(lines[i - 1])
            if not toks:
                continue
            bind = None
            first = toks[0][0]
            if not toks[0][1] and "=" in first:
                bind, first = first.split("=", 1)
                toks = [(first, False)] + toks[1:] if first else toks[1:]
            if not toks:
                continue
            op = toks[0][0]
            args = [t[0] for t in toks[1:]]
            self.step(op, args, bind, ev)
        return self.v

    # ------------------------------------------------------------ one op
    def step(self, op, a, bind, ev):
        if op == "buf":
            self.do_buf(a)
            return
        if "ret" not in ev:
            if bind and op in ("vnacal_new_alloc", "vnacal_create",
                               "vnacal_load"):
                self.vcs.pop(bind, None)
                self.vnm.pop(bind, None)
            return
        ret = ev["ret"]
        if bind is not None and isinstance(ret, (int, float)) and \
                not isinstance(ret, bool):
            self.env[bind] = ret
        fn = getattr(self, "op_" + op, None)
        vc = None
        if a and a[0].startswith("$"):
            vc = self.vcs.get(a[0][1:])
            if vc is None and a[0][1:] in self.vnm:
                vc = self.vnm[a[0][1:]].vc
        if vc is not None:
            self.shapes.add((op, vc.shape()))
        if fn is not None:
            fn(a, bind, ev, ret)

    def do_buf(self, a):
        if len(a) < 3:
            return
        name, kind = a[0], a[1]
        if kind == "ivector":
            n = int(a[2])
            vals = [self.val(t) for t in a[3:3 + n]]
            vals += [0] * (n - len(vals))
            self.bufs[name] = vals
        elif kind == "rvector":
            n = int(a[2])
            vals = [fnum(t) for t in a[3:3 + n]]
            vals += [0.0] * (n - len(vals))
            self.bufs[name] = vals
        elif kind == "cvector":
            n = int(a[2])
            raw = [fnum(t) for t in a[3:3 + 2 * n]]
            raw += [0.0] * (2 * n - len(raw))
            self.bufs[name] = [complex(raw[2 * i], raw[2 * i + 1])
                               for i in range(n)]
        else:
            self.bufs[name] = None

    def bufv(self, tok):
        if tok == "NULL" or not tok.startswith("@"):
            return None
        return self.bufs.get(tok[1:])

    # ------------------------------------------------------------ objects
    def _rebind_vc(self, bind, vc):
        old = self.vcs.pop(bind, None)
        if old is not None:
            self.vnm = {k: v for k, v in self.vnm.items() if v.vc is not old}
        if vc is not None:
            self.vcs[bind] = vc

    def op_vnacal_create(self, a, bind, ev, ret):
        if bind:
            self._rebind_vc(bind, None if ret is None else Vc())

    def op_vnacal_load(self, a, bind, ev, ret):
        if bind:
            vc = None
            if ret is not None:
                vc = Vc()
                vc.known = False
            self._rebind_vc(bind, vc)

    def op_vnacal_free(self, a, bind, ev, ret):
        vc = self.vcs.pop(a[0][1:], None)
        if vc is not None:
            self.vnm = {k: v for k, v in self.vnm.items() if v.vc is not vc}

    def op_vnacal_new_alloc(self, a, bind, ev, ret):
        vc = self.vcs.get(a[0][1:])
        if bind:
            old = self.vnm.pop(bind, None)
            if old is not None:
                old.vc.vns.discard(old)
        if vc is None or ret is None or not bind:
            return
        t = CTYPES.get(a[1].upper())
        if t is None:
            t = self.val(a[1])
        vn = Vn(vc, t, self.val(a[2]), self.val(a[3]), self.val(a[4]))
        self.vnm[bind] = vn
        vc.vns.add(vn)

    def op_vnacal_new_free(self, a, bind, ev, ret):
        vn = self.vnm.pop(a[0][1:], None)
        if vn is not None:
            vn.vc.vns.discard(vn)

    def op_vnacal_new_set_frequency_vector(self, a, bind, ev, ret):
        vn = self.vnm.get(a[0][1:])
        if vn is None:
            return
        fv = self.bufv(a[1])
        if ret == 0:
            vn.freq = list(fv[:vn.F]) if fv is not None else None
            if vn.cal == "fresh":
                vn.cal = "maybe"

    def op_vnacal_new_set_z0(self, a, bind, ev, ret):
        vn = self.vnm.get(a[0][1:])
        if vn is not None and ret == 0:
            vn.z0 = complex(fnum(a[1]), fnum(a[2]))
            if vn.cal == "fresh":
                vn.cal = "maybe"

    def handles_of_add(self, op, a):
        pos, ivpos = ADD_HANDLE_ARGS[op]
        hs = []
        for p in pos:
            if p < len(a):
                hs.append(self.val(a[p]))
        if ivpos is not None and ivpos < len(a):
            b = self.bufv(a[ivpos])
            if b is None:
                return None
            n = 4
            if "mapped" in op:
                r, c = self.val(a[ivpos + 1]), self.val(a[ivpos + 2])
                if r is None or c is None or r < 0 or c < 0:
                    return None
                n = r * c
            if n > len(b):
                return None
            hs += b[:n]
        return hs

    def add_std(self, op, a, ev, ret):
        vn = self.vnm.get(a[0][1:])
        if vn is None:
            return
        vc = vn.vc
        hs = self.handles_of_add(op, a)
        if hs is not None:
            dead = [h for h in hs if h is None or not vc.live(h)]
            if dead:
                self.count("add_with_dead_handle")
                if ret != -1:
                    self.bad("dead-handle-accepted", op,
                             "handle(s) %r are not live (live: %s) but the "
                             "call returned %r" % (dead, sorted(vc.params),
                                                   ret))
                elif ev.get("errno") != "EINVAL":
                    self.bad("dead-handle-errno", op,
                             "refused with errno %s" % ev.get("errno"))
        if ret == 0:
            vn.nstd += 1
            if hs:
                vn.holds.update(h for h in hs if h is not None)
            if vn.cal == "fresh":
                vn.cal = "maybe"

    def op_vnacal_new_solve(self, a, bind, ev, ret):
        vn = self.vnm.get(a[0][1:])
        if vn is None:
            return
        if ret == 0:
            vn.cal = "fresh"
            vn.solved_z0, vn.solved_freq = vn.z0, vn.freq
            for h in vn.holds:
                p = vn.vc.params.get(h)
                if p is not None and p.kind in ("unknown", "correlated"):
                    p.solved = True
        elif vn.cal != "none":
            vn.cal = "maybe"

    # ------------------------------------------------------------ table
    def op_vnacal_add_calibration(self, a, bind, ev, ret):
        vc = self.vcs.get(a[0][1:])
        vn = self.vnm.get(a[2][1:]) if len(a) > 2 else None
        if vc is None or not vc.known:
            return
        name = a[1]
        if vn is None or vn.vc is not vc:
            if vn is not None and isinstance(ret, int) and ret >= 0:
                self.bad("foreign-new-accepted", "vnacal_add_calibration",
                         "vnacal_new_t of another vnacal_t accepted: %r" % ret)
            return
        if ret == -1:
            if vn.cal == "fresh":
                self.bad("add-after-solve-refused", "vnacal_add_calibration",
                         "refused right after a successful vnacal_new_solve: "
                         "%s" % ev)
            return
        if not isinstance(ret, int) or ret < 0:
            self.bad("add-return-value", "vnacal_add_calibration",
                     "returned %r" % (ret,))
            return
        if vn.cal == "none":
            self.bad("unsolved-added", "vnacal_add_calibration",
                     "accepted a vnacal_new_t that was never solved")
        self.count("add_calibration_ok")
        old = vc.find(name)
        if old is not None:
            self.count("add_calibration_replace")
            if ret != old:
                self.bad("replace-moved", "vnacal_add_calibration",
                         "name %r lives at index %d but adding it again "
                         "returned %d" % (name, old, ret))
                del vc.cals[old]
        elif ret in vc.cals:
            self.bad("add-overwrote-other", "vnacal_add_calibration",
                     "new name %r was given index %d where %r lives" % (
                         name, ret, vc.cals[ret].name))
        else:
            self.count("add_calibration_new_in_hole" if ret < vc.end()
                       else "add_calibration_new_at_end")
        # z0 / frequencies changed between solve and add: which values the
        # stored calibration carries is not documented
        z0 = vn.z0 if getattr(vn, "solved_z0", None) == vn.z0 else None
        fr = vn.freq if getattr(vn, "solved_freq", None) == vn.freq else None
        vc.cals[ret] = Cal(name, vn.type, vn.rows, vn.cols, vn.F,
                           list(fr) if fr else None, z0, None, ev.get("i"))
        vn.cal = "maybe"    # whether it can be added twice is not documented

    def op_vnacal_add_calibration_own_name(self, a, bind, ev, ret):
        """harness alias: vnacal_add_calibration under the string
        vnacal_get_name(vc, ci) returned (skipped, i.e. no event value, when
        there is no calibration at ci)"""
        vc = self.vcs.get(a[0][1:])
        if vc is None or not vc.known:
            return
        ci = self.val(a[1])
        if ci in vc.cals:
            self.op_vnacal_add_calibration([a[0], vc.cals[ci].name, a[2]],
                                           bind, ev, ret)
        else:
            # the library has a calibration the model does not know about:
            # stop asserting on this vnacal_t
            vc.known = False

    def op_vnacal_delete_calibration(self, a, bind, ev, ret):
        vc = self.vcs.get(a[0][1:])
        if vc is None or not vc.known:
            return
        ci = self.val(a[1])
        if ci in vc.cals:
            if ret != 0:
                self.bad("delete-live-failed", "vnacal_delete_calibration",
                         "index %d is live (%r) but -> %s" % (
                             ci, vc.cals[ci].name, ev))
            else:
                del vc.cals[ci]
                self.count("delete_calibration_ok")
        else:
            self.lookup_failed("vnacal_delete_calibration", ev, ret, -1,
                               "no calibration at index %r" % ci)

    def lookup_failed(self, fn, ev, ret, want, why):
        ok = (ret == want) if not isinstance(want, str) else False
        if want == "inf":
            ok = isinstance(ret, float) and math.isinf(ret)
        elif want == "cinf":
            ok = isinstance(ret, list) and isinstance(ret[0], float) and \
                math.isinf(ret[0])
        if not ok:
            self.bad("missing-not-reported", fn, "%s but returned %r" % (
                why, ret))
        elif ev.get("errno") not in LOOKUP_ERRNOS:
            self.bad("missing-errno", fn, "%s: errno %s" % (
                why, ev.get("errno")))

    def op_vnacal_find_calibration(self, a, bind, ev, ret):
        vc = self.vcs.get(a[0][1:])
        if vc is None or not vc.known:
            return
        ci = vc.find(a[1])
        if ci is None:
            self.lookup_failed("vnacal_find_calibration", ev, ret, -1,
                               "no calibration named %r" % a[1])
        elif ret != ci:
            self.bad("find-wrong-index", "vnacal_find_calibration",
                     "%r lives at %d, find returned %r" % (a[1], ci, ret))
        else:
            self.count("find_ok")

    def op_vnacal_get_calibration_end(self, a, bind, ev, ret):
        vc = self.vcs.get(a[0][1:])
        if vc is None or not vc.known:
            return
        if ret != vc.end():
            self.bad("calibration-end", "vnacal_get_calibration_end",
                     "live indices %s: expected %d, got %r" % (
                         sorted(vc.cals), vc.end(), ret))

    def getter(self, which, a, ev, ret):
        vc = self.vcs.get(a[0][1:])
        if vc is None or not vc.known:
            return
        fn = "vnacal_get_" + which
        ci = self.val(a[1])
        c = vc.cals.get(ci)
        if c is None:
            want = {"name": None, "frequency_vector": None, "fmin": "inf",
                    "fmax": "inf", "z0": "cinf"}.get(which, -1)
            self.lookup_failed(fn, ev, ret, want,
                               "no calibration at index %r" % ci)
            return
        self.count("getter_live")
        exp = None
        if which == "name":
            exp, ok = c.name, ret == c.name
        elif which == "type":
            exp, ok = c.type, ret == c.type
        elif which == "rows":
            exp, ok = c.rows, ret == c.rows
        elif which == "columns":
            exp, ok = c.cols, ret == c.cols
        elif which == "frequencies":
            exp, ok = c.F, ret == c.F
        elif which == "fmin":
            exp = c.freq[0] if c.freq else None
            ok = exp is None or ret == exp
        elif which == "fmax":
            exp = c.freq[-1] if c.freq else None
            ok = exp is None or ret == exp
        elif which == "frequency_vector":
            exp = c.freq
            ok = exp is None or ret == exp
        else:
            exp = c.z0
            ok = exp is None or ceq(ret, exp)
        if not ok:
            self.bad("getter-wrong", fn, "index %d (%r): expected %r, got %r"
                     % (ci, c.name, exp, ret))

    def op_vnacal_apply(self, a, bind, ev, ret):
        vc = self.vcs.get(a[0][1:])
        if vc is None or not vc.known:
            return
        ci = self.val(a[1])
        c = vc.cals.get(ci)
        self.apply_seen[ev.get("i")] = (ci, None if c is None else c.tag)
        if c is None:
            self.count("apply_missing_index")
            if ret != -1:
                self.bad("missing-not-reported", ev["op"],
                         "no calibration at index %r but returned %r" % (
                             ci, ret))

    op_vnacal_apply_m = op_vnacal_apply

    # ------------------------------------------------------------ dump
    def op_dump_vnacal(self, a, bind, ev, ret):
        vc = self.vcs.get(a[0][1:])
        out = ev.get("out")
        if vc is None or not isinstance(out, dict):
            return
        slots = out.get("slots", [])
        gp = prop_from_dump(out.get("gprop"))
        if not vc.known:
            vc.cals = {}
            for ci, s in enumerate(slots):
                if s is not None:
                    vc.cals[ci] = Cal(s["name"], s["type"], s["rows"],
                                      s["cols"], s["F"], s["freq"],
                                      complex(*s["z0"]),
                                      prop_from_dump(s["prop"]))
            vc.gprop = gp
            vc.known = True
            return
        fn = "dump_vnacal"
        if out.get("end") != vc.end():
            self.bad("calibration-end", "vnacal_get_calibration_end",
                     "live indices %s: expected %d, got %r" % (
                         sorted(vc.cals), vc.end(), out.get("end")))
        for ci in range(max(len(slots), vc.end())):
            s = slots[ci] if ci < len(slots) else None
            c = vc.cals.get(ci)
            if c is None and s is None:
                continue
            if c is None:
                self.bad("ghost-calibration", fn,
                         "index %d should be empty but shows %r" % (
                             ci, s.get("name")))
                continue
            if s is None:
                self.bad("calibration-vanished", fn,
                         "index %d should hold %r but is empty" % (ci, c.name))
                continue
            diffs = []
            if s["name"] != c.name:
                diffs.append("name %r != %r" % (s["name"], c.name))
            if s["type"] != c.type:
                diffs.append("type %r != %r" % (s["type"], c.type))
            if (s["rows"], s["cols"], s["F"]) != (c.rows, c.cols, c.F):
                diffs.append("dims %r != %r" % (
                    (s["rows"], s["cols"], s["F"]), (c.rows, c.cols, c.F)))
            if c.freq is not None and s["freq"] != c.freq:
                diffs.append("frequency vector differs")
            if c.freq is not None and c.freq and (
                    s["fmin"] != c.freq[0] or s["fmax"] != c.freq[-1]):
                diffs.append("fmin/fmax differ")
            if c.z0 is not None and not ceq(s["z0"], c.z0):
                diffs.append("z0 %r != %r" % (s["z0"], c.z0))
            if s["find"] != ci and vc.find(c.name) == ci:
                diffs.append("find(%r) = %r" % (c.name, s["find"]))
            sp = prop_from_dump(s["prop"])
            if has_bad(sp):
                diffs.append("property dump inconsistent: %r" % (sp,))
            elif c.prop is UNKNOWN:
                c.prop = sp
            elif sp != c.prop:
                diffs.append("properties %r != %r" % (sp, c.prop))
            if diffs:
                self.bad("calibration-differs", fn, "index %d: %s" % (
                    ci, "; ".join(diffs)))
                # resynchronise to avoid cascades
                c.prop = sp if not has_bad(sp) else c.prop
        if has_bad(gp):
            self.bad("calibration-differs", fn,
                     "global property dump inconsistent: %r" % (gp,))
        elif vc.gprop is UNKNOWN:
            vc.gprop = gp
        elif gp != vc.gprop:
            self.bad("global-properties-differ", fn, "%r != %r" % (
                gp, vc.gprop))
            vc.gprop = gp

    # ------------------------------------------------------------ properties
    def prop_root(self, a):
        vc = self.vcs.get(a[0][1:])
        if vc is None or not vc.known:
            return None, None, None
        ci = self.val(a[1])
        if ci == -1:
            return vc, ci, True
        return vc, ci, (ci in vc.cals)

    def get_root(self, vc, ci):
        return vc.gprop if ci == -1 else vc.cals[ci].prop

    def set_root(self, vc, ci, p):
        if ci == -1:
            vc.gprop = p
        else:
            vc.cals[ci].prop = p

    def prop_common(self, fn, a, ev, ret, failv):
        """returns (vc, ci, root) when the root exists, else checks the
        failure and returns None"""
        vc, ci, exists = self.prop_root(a)
        if vc is None:
            return None
        if not exists:
            if ret != failv:
                self.bad("missing-not-reported", fn,
                         "no calibration at index %r but returned %r" % (
                             ci, ret))
            elif ev.get("errno") not in LOOKUP_ERRNOS:
                self.bad("missing-errno", fn, "errno %s" % ev.get("errno"))
            return None
        return vc, ci, self.get_root(vc, ci)

    def op_vnacal_property_set(self, a, bind, ev, ret):
        fn = "vnacal_property_set"
        r = self.prop_common(fn, a, ev, ret, -1)
        if r is None:
            return
        vc, ci, root = r
        new = simple_set(root, a[2]) if root is not UNKNOWN and \
            self.strict_props else UNKNOWN
        if new is UNKNOWN:
            if ret == 0:
                self.set_root(vc, ci, UNKNOWN)
            return
        self.count("property_set")
        if ret != 0:
            self.bad("property-set-failed", fn, "%r on %r -> %s" % (
                a[2], root, ev))
        else:
            self.set_root(vc, ci, new)

    def op_vnacal_property_set_subtree(self, a, bind, ev, ret):
        r = self.prop_common("vnacal_property_set_subtree", a, ev, ret, None)
        if r is None:
            return
        vc, ci, root = r
        if ret is not None:
            self.set_root(vc, ci, UNKNOWN)

    def op_vnacal_property_delete(self, a, bind, ev, ret):
        fn = "vnacal_property_delete"
        r = self.prop_common(fn, a, ev, ret, -1)
        if r is None:
            return
        vc, ci, root = r
        res = simple_delete(root, a[2]) if root is not UNKNOWN and \
            self.strict_props else UNKNOWN
        if res is UNKNOWN:
            if ret == 0:
                self.set_root(vc, ci, UNKNOWN)
            return
        ok, new = res
        self.count("property_delete")
        if ok:
            if ret != 0:
                self.bad("property-delete-failed", fn, "%r on %r -> %s" % (
                    a[2], root, ev))
            else:
                self.set_root(vc, ci, new)
        elif ret != -1:
            self.bad("property-delete-missing-accepted", fn,
                     "%r not in %r but returned %r" % (a[2], root, ret))

    def op_vnacal_property_get(self, a, bind, ev, ret):
        fn = "vnacal_property_get"
        r = self.prop_common(fn, a, ev, ret, None)
        if r is None:
            return
        vc, ci, root = r
        res = simple_lookup(root, a[2]) if root is not UNKNOWN and \
            self.strict_props else UNKNOWN
        if res is UNKNOWN:
            return
        found, val = res
        self.count("property_get")
        if found and isinstance(val, str):
            if ret != val:
                self.bad("property-get-wrong", fn, "%r in %r: got %r" % (
                    a[2], root, ret))
        elif ret is not None:
            self.bad("property-get-wrong", fn, "%r in %r: got %r" % (
                a[2], root, ret))

    def op_vnacal_property_count(self, a, bind, ev, ret):
        fn = "vnacal_property_count"
        r = self.prop_common(fn, a, ev, ret, -1)
        if r is None:
            return
        vc, ci, root = r
        res = simple_lookup(root, a[2]) if root is not UNKNOWN and \
            self.strict_props else UNKNOWN
        if res is UNKNOWN:
            return
        found, val = res
        if found and isinstance(val, (dict, list)):
            if ret != len(val):
                self.bad("property-count-wrong", fn, "%r in %r: got %r" % (
                    a[2], root, ret))
        elif ret != -1:
            self.bad("property-count-wrong", fn, "%r in %r: got %r" % (
                a[2], root, ret))

    def op_vnacal_property_type(self, a, bind, ev, ret):
        fn = "vnacal_property_type"
        r = self.prop_common(fn, a, ev, ret, -1)
        if r is None:
            return
        vc, ci, root = r
        res = simple_lookup(root, a[2]) if root is not UNKNOWN and \
            self.strict_props else UNKNOWN
        if res is UNKNOWN:
            return
        found, val = res
        if found and val is not None:
            want = ord("m") if isinstance(val, dict) else \
                ord("l") if isinstance(val, list) else ord("s")
            if ret != want:
                self.bad("property-type-wrong", fn, "%r in %r: got %r" % (
                    a[2], root, ret))
        elif not found and ret != -1:
            self.bad("property-type-wrong", fn, "%r in %r: got %r" % (
                a[2], root, ret))

    def op_vnacal_property_keys(self, a, bind, ev, ret):
        fn = "vnacal_property_keys"
        r = self.prop_common(fn, a, ev, ret, None)
        if r is None:
            return
        vc, ci, root = r
        res = simple_lookup(root, a[2]) if root is not UNKNOWN and \
            self.strict_props else UNKNOWN
        if res is UNKNOWN:
            return
        found, val = res
        if found and isinstance(val, dict):
            if not isinstance(ret, list) or sorted(ret) != sorted(val):
                self.bad("property-keys-wrong", fn, "%r in %r: got %r" % (
                    a[2], root, ret))
        elif ret is not None:
            self.bad("property-keys-wrong", fn, "%r in %r: got %r" % (
                a[2], root, ret))

    def op_vnacal_property_get_subtree(self, a, bind, ev, ret):
        self.prop_common("vnacal_property_get_subtree", a, ev, ret, None)

    def op_dump_vnacal_property(self, a, bind, ev, ret):
        vc, ci, exists = self.prop_root(a)
        if vc is None or not exists or ret != 0:
            return
        root = self.get_root(vc, ci)
        got = prop_from_dump(ev.get("out"))
        if root is UNKNOWN:
            self.set_root(vc, ci, got)
        elif got != root:
            self.bad("properties-differ", "vnacal_property_get_subtree",
                     "ci %d: %r != %r" % (ci, got, root))

    # ------------------------------------------------------------ parameters
    def new_handle(self, fn, vc, ret, param, predefined_ok=None):
        if not isinstance(ret, int) or ret < 0:
            self.bad("make-failed", fn, "valid arguments but returned %r" % (
                ret,))
            return
        if ret in PREDEF:
            if predefined_ok is not None and PREDEF[ret] == predefined_ok:
                self.count("scalar_predefined")
                return
            self.bad("handle-is-predefined", fn,
                     "returned the predefined handle %d" % ret)
            return
        if ret in vc.params:
            self.bad("handle-not-unique", fn,
                     "returned %d which is a live %s parameter" % (
                         ret, vc.params[ret].kind))
        vc.params[ret] = param
        self.count("make_" + param.kind)

    def op_vnacal_make_scalar_parameter(self, a, bind, ev, ret):
        vc = self.vcs.get(a[0][1:])
        if vc is None:
            return
        g = complex(fnum(a[1]), fnum(a[2]))
        self.new_handle("vnacal_make_scalar_parameter", vc, ret,
                        Param("scalar", gamma=g), predefined_ok=g)

    def op_vnacal_make_vector_parameter(self, a, bind, ev, ret):
        fn = "vnacal_make_vector_parameter"
        vc = self.vcs.get(a[0][1:])
        if vc is None:
            return
        fv, n, gv = self.bufv(a[1]), self.val(a[2]), self.bufv(a[3])
        valid = fv is not None and gv is not None and n is not None and \
            n >= 1 and len(fv) >= n and len(gv) >= n and fv[0] >= 0 and \
            all(fv[i] < fv[i + 1] for i in range(n - 1)) and \
            all(math.isfinite(x) for x in fv[:n])
        if valid:
            self.new_handle(fn, vc, ret, Param("vector", freq=list(fv[:n]),
                                               values=list(gv[:n])))
            return
        invalid = n is not None and (
            n < 1 or fv is None or gv is None or (
                len(fv) >= n and (fv[0] < 0 or any(
                    fv[i] >= fv[i + 1] for i in range(n - 1)))))
        if invalid:
            self.count("make_vector_invalid")
            if ret != -1:
                self.bad("invalid-vector-accepted", fn, "n=%r f=%r -> %r" % (
                    n, fv, ret))
                if isinstance(ret, int) and ret > 2:
                    vc.params[ret] = Param("vector", freq=None, values=None)
        elif isinstance(ret, int) and ret > 2:
            vc.params[ret] = Param("vector", freq=None, values=None)

    def op_vnacal_make_unknown_parameter(self, a, bind, ev, ret):
        fn = "vnacal_make_unknown_parameter"
        vc = self.vcs.get(a[0][1:])
        if vc is None:
            return
        g = self.val(a[1])
        if not vc.live(g):
            self.count("make_on_dead_handle")
            if ret != -1:
                self.bad("dead-handle-accepted", fn, "initial guess %r is "
                         "not live (live: %s) but returned %r" % (
                             g, sorted(vc.params), ret))
                if isinstance(ret, int) and ret > 2:
                    vc.params[ret] = Param("unknown", other=g)
            elif ev.get("errno") != "EINVAL":
                self.bad("dead-handle-errno", fn, "errno %s" % ev.get("errno"))
            return
        kind = "scalar" if g in PREDEF else vc.params[g].kind
        if kind in ("scalar", "vector"):
            self.new_handle(fn, vc, ret, Param("unknown", other=g))
        elif isinstance(ret, int) and ret > 2:
            if ret in vc.params:
                self.bad("handle-not-unique", fn, "returned live %d" % ret)
            vc.params[ret] = Param("unknown", other=g)

    def op_vnacal_make_correlated_parameter(self, a, bind, ev, ret):
        fn = "vnacal_make_correlated_parameter"
        vc = self.vcs.get(a[0][1:])
        if vc is None:
            return
        o = self.val(a[1])
        if not vc.live(o):
            self.count("make_on_dead_handle")
            if ret != -1:
                self.bad("dead-handle-accepted", fn, "other %r is not live "
                         "(live: %s) but returned %r" % (
                             o, sorted(vc.params), ret))
                if isinstance(ret, int) and ret > 2:
                    vc.params[ret] = Param("correlated", other=o)
            elif ev.get("errno") != "EINVAL":
                self.bad("dead-handle-errno", fn, "errno %s" % ev.get("errno"))
            return
        n = self.val(a[3])
        sv = self.bufv(a[4])
        simple = n == 1 and sv is not None and len(sv) >= 1 and sv[0] > 0
        if simple:
            self.new_handle(fn, vc, ret, Param("correlated", other=o))
        elif isinstance(ret, int) and ret > 2:
            if ret in vc.params:
                self.bad("handle-not-unique", fn, "returned live %d" % ret)
            vc.params[ret] = Param("correlated", other=o)

    def op_vnacal_delete_parameter(self, a, bind, ev, ret):
        fn = "vnacal_delete_parameter"
        vc = self.vcs.get(a[0][1:])
        if vc is None:
            return
        h = self.val(a[1])
        if h in PREDEF:
            self.count("delete_predefined")
            return              # return value not documented; handle stays
        if h in vc.params:
            if ret != 0:
                self.bad("delete-live-failed", fn, "handle %d is live: %s" % (
                    h, ev))
            else:
                del vc.params[h]
                self.count("delete_parameter_ok")
        else:
            self.count("delete_dead_handle")
            if ret != -1:
                self.bad("dead-handle-accepted", fn, "handle %r is not live "
                         "(live: %s) but returned %r" % (
                             h, sorted(vc.params), ret))
            elif ev.get("errno") != "EINVAL":
                self.bad("dead-handle-errno", fn, "errno %s" % ev.get("errno"))

    def eval_param(self, fn, vc, h, f, got, ev):
        """got: [re, im]"""
        failed = isinstance(got, list) and isinstance(got[0], float) and \
            math.isinf(got[0])
        if h in PREDEF:
            self.count("value_predefined")
            if not ceq(got, PREDEF[h]):
                self.bad("predefined-value", fn, "handle %d at %r -> %r" % (
                    h, f, got))
            return
        p = vc.params.get(h)
        if p is None:
            self.count("value_dead_handle")
            if not failed:
                self.bad("dead-handle-accepted", fn, "handle %r is not live "
                         "(live: %s) but returned %r" % (
                             h, sorted(vc.params), got))
            return
        if p.kind == "scalar":
            self.count("value_scalar")
            if not ceq(got, p.gamma) and not (
                    p.gamma != p.gamma and got[0] != got[0]):
                self.bad("scalar-value", fn, "handle %d made with %r -> %r" % (
                    h, p.gamma, got))
        elif p.kind == "vector" and p.freq is not None:
            if f in p.freq:
                self.count("value_vector_knot")
                want = p.values[p.freq.index(f)]
                if want == want and abs(want) != float("inf") and \
                        not ceq(got, want, self.vec_tol):
                    self.bad("vector-value", fn,
                             "handle %d at knot %r: supplied %r, got %r" % (
                                 h, f, want, got))
            elif f == f and (f < 0.5 * p.freq[0] or f > 2 * p.freq[-1]):
                self.count("value_vector_outside")
                if not failed:
                    self.bad("vector-out-of-range-accepted", fn,
                             "handle %d spans %r..%r, f=%r -> %r" % (
                                 h, p.freq[0], p.freq[-1], f, got))
        elif p.kind in ("unknown", "correlated"):
            if not p.solved:
                self.count("value_unsolved")
                if not failed:
                    self.bad("unsolved-value", fn, "%s parameter %d was "
                             "never solved but evaluates to %r" % (
                                 p.kind, h, got))

    def op_vnacal_get_parameter_value(self, a, bind, ev, ret):
        vc = self.vcs.get(a[0][1:])
        if vc is None:
            return
        self.eval_param("vnacal_get_parameter_value", vc, self.val(a[1]),
                        fnum(a[2]) if not a[2].startswith("$") else
                        self.env.get(a[2][1:]), ret, ev)

    def op_vnacal_get_parameter_values(self, a, bind, ev, ret):
        vc = self.vcs.get(a[0][1:])
        fv = self.bufv(a[2])
        if vc is None or fv is None or not isinstance(ret, list):
            return
        p_ = vc.params.get(self.val(a[1]))
        self.values_seen[ev.get("i")] = (p_ is not None,
                                         bool(p_ is not None and p_.solved))
        for f, got in zip(fv, ret):
            self.eval_param("vnacal_get_parameter_value", vc, self.val(a[1]),
                            f, got, ev)


def _mk_add(op):
    def f(self, a, bind, ev, ret):
        self.add_std(op, a, ev, ret)
    return f


def _mk_get(which):
    def f(self, a, bind, ev, ret):
        self.getter(which, a, ev, ret)
    return f


for _op in ADD_HANDLE_ARGS:
    setattr(Monitor, "op_" + _op, _mk_add(_op))
for _g in GETTERS:
    setattr(Monitor, "op_vnacal_get_" + _g, _mk_get(_g))
