"""docmodel: the abstract property document of vnaproperty(3).

Everything here is written from the manual page (src/vnaproperty.3), never
from the implementation:

  * a document is None (null), bytes (scalar), dict bytes->document (map,
    insertion ordered, compared as a set) or list of documents;
  * `parse()` is a descriptor parser following the section "Syntax of the
    Descriptor";
  * `apply()` gives, for one API call on a document, the list of acceptable
    outcomes (return value, acceptable errno names, resulting document).  Where
    the manual is silent the result is UNSPECIFIED or several outcomes are
    listed / the errno set is None (= not checked): an oracle must never demand
    more than the manual states;
  * `canon()` / `fnv1a()` reproduce the driver's sorted canonical dump text
    (harness/ops_prop.inc dump_prop(sort=1)) and its 64-bit FNV-1a hash.

What the manual leaves open (and what therefore is never asserted):
  - white space at token boundaries (only spaces *between the words of a key*
    are defined) -> such descriptors are flagged `ambiguous`;
  - a '.' separator directly in front of a '{}' / '[]' suffix ("a.{}");
  - vnaproperty_set / vnaproperty_delete with a '{}' or '[]' suffix;
  - text after the '#' of the null form of vnaproperty_set;
  - which errno is reported when several documented error conditions hold at
    once (any of them is accepted), and whether a look-up through a null node
    is "does not exist" (ENOENT) or "is not a map/list" (EINVAL);
  - errno of type/count/get/keys on a null node and of keys on a non-map;
  - errno after a successful call, except for get_subtree returning NULL for an
    empty subtree, where the manual defines errno == 0 as the success mark.
"""

EINVAL = "EINVAL"
ENOENT = "ENOENT"


class Malformed(Exception):
    ambiguous = False
    elems = ()


class _Unspecified(object):
    def __repr__(self):
        return "UNSPECIFIED"


UNSPECIFIED = _Unspecified()

# ----------------------------------------------------------------------
# canonical text and hash (must match dump_prop(sort=1) + sb_jstr + fnv1a)
# ----------------------------------------------------------------------
_JTAB = []
for _c in range(256):
    if _c in (0x22, 0x5c):
        _JTAB.append(b"\\" + bytes([_c]))
    elif _c < 0x20 or _c >= 0x7f:
        _JTAB.append(b"\\u%04x" % _c)
    else:
        _JTAB.append(bytes([_c]))


def jstr(b):
    return b'"' + b"".join([_JTAB[c] for c in b]) + b'"'


def canon(doc, sort=True):
    """canonical dump text; keys sorted bytewise (strcmp order) when sort"""
    out = []
    _canon(doc, sort, out)
    return b"".join(out)


def _canon(doc, sort, out):
    if doc is None:
        out.append(b"null")
    elif isinstance(doc, bytes):
        out.append(jstr(doc))
    elif isinstance(doc, dict):
        out.append(b'{"m":[')
        keys = sorted(doc) if sort else list(doc)
        first = True
        for k in keys:
            if not first:
                out.append(b",")
            first = False
            out.append(jstr(k))
            out.append(b",")
            _canon(doc[k], sort, out)
        out.append(b"]}")
    elif isinstance(doc, list):
        out.append(b'{"l":[')
        for i, v in enumerate(doc):
            if i:
                out.append(b",")
            _canon(v, sort, out)
        out.append(b"]}")
    elif isinstance(doc, Bad):
        # an inconsistency the driver's dump noticed (a key listed by keys()
        # that cannot be looked up ...): shown, never equal to anything
        out.append(b'{"BAD":' + jstr(str(doc.why).encode("latin-1",
                                                         "replace")) + b"}")
    else:
        raise TypeError("not a document: %r" % (doc,))


_FNV_CACHE = {}
_M64 = (1 << 64) - 1


def fnv1a(data):
    h = _FNV_CACHE.get(data)
    if h is None:
        h = 1469598103934665603
        for c in data:
            h = ((h ^ c) * 1099511628211) & _M64
        if len(_FNV_CACHE) > 400000:
            _FNV_CACHE.clear()
        _FNV_CACHE[data] = h
    return h


def doc_hash(doc):
    """the string the driver prints with prop_autohash / hash_property"""
    return "%016x" % fnv1a(canon(doc, True))


def from_dump(obj):
    """driver dump (parsed JSON) -> document; a {"bad":..} marker becomes a
    Bad object that equals nothing"""
    if obj is None:
        return None
    if isinstance(obj, str):
        return obj.encode("latin-1")
    if isinstance(obj, dict):
        if "m" in obj:
            a = obj["m"]
            d = {}
            for i in range(0, len(a) - 1, 2):
                k = a[i].encode("latin-1")
                if k in d:
                    return Bad("duplicate key %r" % k)
                d[k] = from_dump(a[i + 1])
            return d
        if "l" in obj:
            return [from_dump(x) for x in obj["l"]]
        return Bad(obj.get("bad", "?"))
    return Bad("unexpected %r" % (obj,))


class Bad(object):
    def __init__(self, why):
        self.why = why

    def __eq__(self, other):
        return False

    def __ne__(self, other):
        return True

    def __repr__(self):
        return "Bad(%r)" % (self.why,)

    __hash__ = None


def clone(doc):
    if isinstance(doc, dict):
        return {k: clone(v) for k, v in doc.items()}
    if isinstance(doc, list):
        return [clone(v) for v in doc]
    return doc


def show(doc):
    """short printable form for descriptions"""
    return canon(doc, False).decode("latin-1")


def depth(doc):
    if isinstance(doc, dict):
        return 1 + max([depth(v) for v in doc.values()] or [0])
    if isinstance(doc, list):
        return 1 + max([depth(v) for v in doc] or [0])
    return 0


def size(doc):
    if isinstance(doc, dict):
        return 1 + sum(size(v) for v in doc.values())
    if isinstance(doc, list):
        return 1 + sum(size(v) for v in doc)
    return 1


# ----------------------------------------------------------------------
# descriptor grammar (vnaproperty(3), "Syntax of the Descriptor")
# ----------------------------------------------------------------------
def _is_letter(c):
    return 0x41 <= c <= 0x5a or 0x61 <= c <= 0x7a


def _is_digit(c):
    return 0x30 <= c <= 0x39


def _key_start(c):
    # letter, underscore, UTF-8 encoded character, backslash-quoted character
    return _is_letter(c) or c == 0x5f or c >= 0x80 or c == 0x5c


def _key_cont(c):
    # ... digits and minuses; words separated by spaces
    return _key_start(c) or _is_digit(c) or c == 0x2d or c == 0x20


_WS = frozenset(b" \t\n\r\f\v")


class Desc(object):
    """parsed descriptor.
    elems : list of ("k", key) | ("i", n) | ("ins", n) | ("app",)
    suffix: None | "dot" | "map" | "list"
    end   : offset of the first byte not belonging to the descriptor
    ambiguous: the text uses something the manual does not define"""
    __slots__ = ("elems", "suffix", "end", "ambiguous")

    def __init__(self, elems, suffix, end, ambiguous):
        self.elems = elems
        self.suffix = suffix
        self.end = end
        self.ambiguous = ambiguous

    def last_kind(self):
        if self.suffix == "map":
            return "map"
        if self.suffix == "list":
            return "list"
        if not self.elems:
            return "root"
        k = {"k": "key", "i": "index", "ins": "insert",
             "app": "append"}[self.elems[-1][0]]
        return k + ("-dot" if self.suffix == "dot" else "")

    def __repr__(self):
        return "Desc(%r,%r,end=%d%s)" % (self.elems, self.suffix, self.end,
                                         ",ambiguous" if self.ambiguous else "")


def _parse_key(s, p):
    """key starting at p (s[p] is a key-start byte) -> (key bytes, newpos,
    ambiguous)"""
    n = len(s)
    out = bytearray()
    protected = 0      # length of `out` that ends in a quoted character
    while p < n and _key_cont(s[p]):
        c = s[p]
        if c == 0x5c:
            if p + 1 >= n or s[p + 1] == 0:
                raise Malformed("backslash at end of descriptor", p)
            out.append(s[p + 1])
            protected = len(out)
            p += 2
        else:
            out.append(c)
            p += 1
    amb = False
    # unquoted spaces after the last word are not "between words"
    while len(out) > protected and out[-1] == 0x20:
        out.pop()
        amb = True
    if not out:
        raise Malformed("empty key", p)
    return bytes(out), p, amb


def _parse_subscript(s, p):
    """s[p] == '['.  -> (elem or None for the [] suffix, newpos)"""
    n = len(s)
    p += 1
    if p < n and s[p] == 0x5d:          # []
        return None, p + 1
    if p < n and s[p] == 0x2b:          # [+]
        if p + 1 < n and s[p + 1] == 0x5d:
            return ("app",), p + 2
        raise Malformed("bad append subscript", p + 1)
    q = p
    while q < n and _is_digit(s[q]):
        q += 1
    if q == p:
        raise Malformed("subscript is not a non-negative integer", p)
    val = int(s[p:q])
    if q < n and s[q] == 0x5d:
        return ("i", val), q + 1
    if q + 1 < n and s[q] == 0x2b and s[q + 1] == 0x5d:
        return ("ins", val), q + 2
    raise Malformed("unterminated subscript", q + 1)


def parse(s, pos=0):
    """Greedy parse of one descriptor at s[pos:].  Raises Malformed when no
    descriptor can be read there.  Unquoted white space anywhere but between
    the words of a key is not defined by the manual: the result (or the
    Malformed exception) is then marked ambiguous."""
    elems = []
    try:
        d = _parse(s, pos, elems)
    except Malformed as e:
        at = e.args[1] if len(e.args) > 1 else len(s)
        e.ambiguous = any(c in _WS for c in s[pos:at + 1])
        e.elems = list(elems)       # the well-formed part read so far
        raise
    if d.end < len(s) and s[d.end] in _WS:
        d.ambiguous = True
    return d


def _parse(s, pos, elems):
    n = len(s)
    p = pos
    amb = False

    def at(i):
        return s[i] if i < n else -1

    def skip_ws(i):
        # white space at a token boundary: undefined by the manual
        j = i
        while j < n and s[j] in _WS:
            j += 1
        return j

    if at(p) in _WS:
        amb = True
        p = skip_ws(p)
    lead = False
    if at(p) == 0x2e:
        lead = True
        p += 1
    dot = True          # a key may start here (start of path or after '.')
    sep = False         # the last thing consumed was a separator dot
    while True:
        if at(p) in _WS:
            amb = True
            p = skip_ws(p)
        c = at(p)
        if c != -1 and _key_start(c) and dot:
            key, p, a = _parse_key(s, p)
            amb = amb or a
            elems.append(("k", key))
        elif c == 0x5b:
            el, p2 = _parse_subscript(s, p)
            if el is None:
                # "a.[]": dot in front of a suffix is not defined
                return Desc(elems, "list", p2, amb or (sep and bool(elems)))
            elems.append(el)
            p = p2
        elif c == 0x7b:
            if at(p + 1) != 0x7d:
                raise Malformed("'{' without '}'", p + 1)
            return Desc(elems, "map", p + 2, amb or (sep and bool(elems)))
        else:
            break
        dot = False
        sep = False
        if at(p) == 0x2e:
            nxt = at(p + 1)
            if nxt in _WS:
                amb = True
                nxt = at(skip_ws(p + 1))
            if nxt != -1 and (_key_start(nxt) or nxt in (0x5b, 0x7b)):
                p += 1
                dot = True
                sep = True
                continue
            return Desc(elems, "dot", p + 1, amb)
    if sep:
        raise Malformed("dangling separator", p)
    if not elems:
        if lead:
            return Desc([], "dot", p, amb)       # "." = the root
        raise Malformed("empty descriptor", p)
    return Desc(elems, None, p, amb)


def quote(key):
    """model-side quoting of an arbitrary non-empty key (independent of the
    library's vnaproperty_quote_key): quote whatever is not allowed bare"""
    out = bytearray()
    n = len(key)
    last_nonspace = n
    while last_nonspace > 0 and key[last_nonspace - 1] == 0x20:
        last_nonspace -= 1
    for i, c in enumerate(key):
        bare = (_key_start(c) if i == 0 else _key_cont(c)) and c != 0x5c
        if c == 0x20 and i >= last_nonspace:
            bare = False
        if not bare:
            out.append(0x5c)
        out.append(c)
    return bytes(out)


# ----------------------------------------------------------------------
# operation semantics
# ----------------------------------------------------------------------
class Outcome(object):
    __slots__ = ("ret", "errnos", "doc", "sub", "note")

    def __init__(self, ret, errnos, doc, sub=None, note=""):
        self.ret = ret          # model return value (see apply())
        self.errnos = errnos    # set of names accepted on failure; None = any
        self.doc = doc          # document after the call
        self.sub = sub          # get_subtree: the subtree
        self.note = note

    def __repr__(self):
        return "Outcome(ret=%r, errno=%r, doc=%s%s)" % (
            self.ret, sorted(self.errnos) if self.errnos is not None else "any",
            show(self.doc), (", " + self.note) if self.note else "")


class _Fail(Exception):
    def __init__(self, errnos):
        self.errnos = set(errnos)


_NULLNODE = (ENOENT, EINVAL)   # look-up through a null node: either reading


def _lookup(doc, d):
    """non-modifying walk.  Returns the addressed node; raises _Fail"""
    node = doc
    for el in d.elems:
        t = el[0]
        if t == "k":
            if node is None:
                raise _Fail(_NULLNODE)
            if not isinstance(node, dict):
                raise _Fail([EINVAL])
            if el[1] not in node:
                raise _Fail([ENOENT])
            node = node[el[1]]
        elif t == "i":
            if node is None:
                raise _Fail(_NULLNODE)
            if not isinstance(node, list):
                raise _Fail([EINVAL])
            if el[1] >= len(node):
                raise _Fail([ENOENT])
            node = node[el[1]]
        else:
            # insert / append form in a non-set function: EINVAL; when the
            # node it is applied to is null or not a list, that documented
            # condition holds at the same time
            errs = {EINVAL}
            if node is None:
                errs |= set(_NULLNODE)
            raise _Fail(errs)
    if d.suffix == "map":
        if node is None:
            raise _Fail(_NULLNODE)
        if not isinstance(node, dict):
            raise _Fail([EINVAL])
    elif d.suffix == "list":
        if node is None:
            raise _Fail(_NULLNODE)
        if not isinstance(node, list):
            raise _Fail([EINVAL])
    return node


def _has_insert(d):
    return any(el[0] in ("ins", "app") for el in d.elems)


class _Box(object):
    """a settable slot: root, dict entry or list item"""
    __slots__ = ("holder", "key")

    def __init__(self, holder, key):
        self.holder = holder
        self.key = key

    def get(self):
        return self.holder[self.key]

    def set(self, v):
        self.holder[self.key] = v


def _force(rootbox, d):
    """set-style walk: create and replace along the path.  Returns the slot of
    the addressed node."""
    box = rootbox
    for el in d.elems:
        t = el[0]
        node = box.get()
        if t == "k":
            if not isinstance(node, dict):
                node = {}
                box.set(node)
            if el[1] not in node:
                node[el[1]] = None
            box = _Box(node, el[1])
        else:
            if not isinstance(node, list):
                node = []
                box.set(node)
            if t == "i":
                while len(node) <= el[1]:
                    node.append(None)
                box = _Box(node, el[1])
            elif t == "ins":
                if el[1] >= len(node):
                    while len(node) <= el[1]:
                        node.append(None)
                else:
                    node.insert(el[1], None)
                box = _Box(node, el[1])
            else:
                node.append(None)
                box = _Box(node, len(node) - 1)
    if d.suffix == "map":
        if not isinstance(box.get(), dict):
            box.set({})
    elif d.suffix == "list":
        if not isinstance(box.get(), list):
            box.set([])
    return box


def _syntax(op, s):
    """-> (Desc or None when malformed, text-after-the-descriptor?).  For
    non-set calls the whole string has to be one descriptor."""
    try:
        d = parse(s, 0)
    except Malformed as e:
        if e.ambiguous:
            return UNSPECIFIED, True
        return e, True
    return d, d.end != len(s)


FAILRET = {"type": -1, "count": -1, "keys": None, "get": None, "set": -1,
           "delete": -1, "get_subtree": None, "set_subtree": None, "copy": -1}
MODIFYING = ("set", "delete", "set_subtree", "copy")


def apply(doc, op, arg):
    """Outcomes of one call.
    op: type count keys get get_subtree set set_subtree delete copy
    arg: descriptor text (bytes; for set the complete "descr=value" string),
         for copy the source document.
    Return value conventions: type -> ord('m'/'l'/'s') or -1; count -> int;
    keys -> frozenset of keys or None; get -> bytes or None; set/delete/copy
    -> 0/-1; get_subtree -> "node"/None (Outcome.sub is the subtree);
    set_subtree -> "addr"/None.
    The input document is never modified."""
    if op == "copy":
        return [Outcome(0, None, clone(arg))]
    s = arg
    if b"\0" in s:
        return UNSPECIFIED
    fail = FAILRET[op]

    if op == "set":
        return _apply_set(doc, s)

    d, synerr = _syntax(op, s)
    if d is UNSPECIFIED:
        return UNSPECIFIED
    if isinstance(d, Malformed):
        # EINVAL; an implementation that walks the tree while it reads the
        # descriptor may meet a look-up error of the well-formed part first
        errs = {EINVAL}
        if op != "set_subtree":
            try:
                _lookup(doc, Desc(list(d.elems), None, 0, False))
            except _Fail as f:
                errs |= f.errnos
        return [Outcome(fail, errs, doc, note="malformed descriptor")]
    if d.ambiguous:
        return UNSPECIFIED
    if synerr:
        # well-formed descriptor followed by something: EINVAL; a look-up
        # error of the well-formed part holds at the same time
        errs = {EINVAL}
        try:
            _lookup(doc, d)
        except _Fail as f:
            if op != "set_subtree":
                errs |= f.errnos
        return [Outcome(fail, errs, doc, note="text after the descriptor")]

    if op in ("type", "count", "keys", "get", "get_subtree"):
        try:
            node = _lookup(doc, d)
        except _Fail as f:
            return [Outcome(fail, f.errnos, doc)]
        if op == "get_subtree":
            if node is None:
                return [Outcome(None, {"0"}, doc, sub=None,
                                note="empty subtree: NULL with errno 0")]
            return [Outcome("node", None, doc, sub=node)]
        if op == "type":
            if node is None:
                return [Outcome(-1, None, doc, note="null node")]
            return [Outcome(ord("m") if isinstance(node, dict) else
                            ord("l") if isinstance(node, list) else ord("s"),
                            None, doc)]
        if op == "count":
            if isinstance(node, (dict, list)):
                return [Outcome(len(node), None, doc)]
            if node is None:
                return [Outcome(-1, None, doc, note="null node")]
            return [Outcome(-1, {EINVAL}, doc)]
        if op == "keys":
            if isinstance(node, dict):
                return [Outcome(frozenset(node), None, doc)]
            return [Outcome(None, None, doc, note="not a map")]
        if op == "get":
            if isinstance(node, bytes):
                return [Outcome(node, None, doc)]
            if node is None:
                return [Outcome(None, None, doc, note="null node")]
            return [Outcome(None, {EINVAL}, doc)]

    if op == "set_subtree":
        new = [clone(doc)]
        _force(_Box(new, 0), d)
        return [Outcome("addr", None, new[0])]

    if op == "delete":
        if d.suffix in ("map", "list"):
            return UNSPECIFIED
        if _has_insert(d):
            errs = {EINVAL}
            try:
                _lookup(doc, d)
            except _Fail as f:
                errs |= f.errnos
            return [Outcome(-1, errs, doc)]
        if not d.elems:
            return [Outcome(0, None, None)]          # "." : everything
        if d.suffix == "dot":
            try:
                _lookup(doc, d)
            except _Fail as f:
                return [Outcome(-1, f.errnos, doc)]
            new = [clone(doc)]
            _force(_Box(new, 0), d).set(None)
            return [Outcome(0, None, new[0])]
        # remove the entry itself
        parent_d = Desc(d.elems[:-1], None, 0, False)
        try:
            parent = _lookup(doc, parent_d)
            _lookup(doc, d)
        except _Fail as f:
            return [Outcome(-1, f.errnos, doc)]
        new = [clone(doc)]
        pbox = _force(_Box(new, 0), parent_d)
        last = d.elems[-1]
        del pbox.get()[last[1]]
        return [Outcome(0, None, new[0])]

    raise ValueError("unknown op %r" % (op,))


def _apply_set(doc, s):
    try:
        d = parse(s, 0)
    except Malformed as e:
        if e.ambiguous:
            return UNSPECIFIED
        return [Outcome(-1, {EINVAL}, doc, note="malformed descriptor")]
    if d.ambiguous:
        return UNSPECIFIED
    rest = s[d.end:]
    if rest[:1] == b"=":
        value = rest[1:]
        isnull = False
    elif rest == b"#":
        value = None
        isnull = True
    elif rest[:1] == b"#":
        # text after '#': neither documented form; both readings accepted
        if d.suffix in ("map", "list"):
            return UNSPECIFIED
        new = [clone(doc)]
        _force(_Box(new, 0), d).set(None)
        return [Outcome(-1, {EINVAL}, doc), Outcome(0, None, new[0])]
    else:
        return [Outcome(-1, {EINVAL}, doc,
                        note="neither descriptor=value nor descriptor#")]
    if d.suffix in ("map", "list"):
        return UNSPECIFIED
    new = [clone(doc)]
    _force(_Box(new, 0), d).set(None if isnull else value)
    return [Outcome(0, None, new[0])]


def quote_key_ok(key, quoted):
    """does `quoted` address exactly `key` when used as a descriptor
    component, according to the manual's grammar?"""
    if quoted is None or key == b"":
        return False
    try:
        d = parse(quoted, 0)
    except Malformed:
        return False
    return (d.end == len(quoted) and not d.ambiguous and d.suffix is None and
            d.elems == [("k", key)])
