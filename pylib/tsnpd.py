"""Independent reader and writer for Touchstone 1.x, Touchstone 2.0 and the
libvna "NPD" (network parameter data) text format.

Nothing here calls libvna and nothing is transcribed from its loader/saver.
Sources:
  * Touchstone File Format Specification rev 1.1 and Version 2.0 (IBIS Open
    Forum): option line "# <unit> <parameter> <format> R <n>" (any order, case
    insensitive, defaults GHz S MA R 50); '!' comments; v1 data layout
    (1-port: f + 1 pair; 2-port: f + N11 N21 N12 N22 on one line; 3+ ports:
    one matrix row per line, row-major, at most four pairs per line, the first
    line of a frequency carries the frequency); v1 Z/Y/H/G values are
    normalised to R; v1 two-port noise rows (five numbers) after the network
    data; v2 keywords [Version] 2.0, [Number of Ports], [Two-Port Data Order],
    [Number of Frequencies], [Number of Noise Frequencies], [Reference],
    [Matrix Format] Full|Lower|Upper, [Network Data], [Noise Data], [End];
    v2 data are never normalised.
  * vnadata(3) and the self-describing NPD header ("#:" keyword lines and the
    "# field N:" key that every NPD file carries): one line per frequency:
    frequency in Hz, (per-frequency z0 as re/im pairs when "#:z0
    PER-FREQUENCY"), then for each entry of "#:parameters" its fields:
      X[ri|ma|dB]  ports x ports pairs, row-major   (X in S T U Z Y H G A B)
      Zin[ri|ma]   one pair per port
      PRC PRL SRC SRL   (R, C|L) per port    equivalent circuit of Zin
      IL           one dB value per ordered off-diagonal pair, row-major
      RL, VSWR     one value per port
    Numbers may be C99 hexadecimal floats.
"""
import cmath
import math
import re

import numpy as np

MATRIX_PARAMS = ("S", "T", "U", "Z", "Y", "H", "G", "A", "B")
TS_PARAMS = ("S", "Z", "Y", "H", "G")
UNIT_MULT = {"HZ": 1.0, "KHZ": 1.0e3, "MHZ": 1.0e6, "GHZ": 1.0e9}
MAX_PRECISION = 1000


class FormatError(Exception):
    """the bytes are not a well-formed file of the expected format"""


# ----------------------------------------------------------------------
# numbers
# ----------------------------------------------------------------------
class Num(object):
    """a numeric token: value, source text, whether hexadecimal, number of
    significant decimal digits printed, number of decimals after the point
    (None when the token has an exponent or is hexadecimal)"""
    __slots__ = ("v", "text", "hex", "sig", "dec")

    def __init__(self, v, text, hx, sig, dec):
        self.v = v
        self.text = text
        self.hex = hx
        self.sig = sig
        self.dec = dec

    def __repr__(self):
        return "Num(%s)" % self.text


_dec_re = re.compile(r"^[+-]?(\d+\.?\d*|\.\d+)([eE][+-]?\d+)?$")
_hex_re = re.compile(r"^[+-]?0[xX]([0-9a-fA-F]+\.?[0-9a-fA-F]*|\.[0-9a-fA-F]+)"
                     r"([pP][+-]?\d+)?$")


def parse_num(text):
    t = text.strip()
    if _hex_re.match(t):
        return Num(float.fromhex(t), t, True, None, None)
    m = _dec_re.match(t)
    if not m:
        raise FormatError("not a number: %r" % text)
    mant = m.group(1)
    digits = mant.replace(".", "").lstrip("0")
    sig = len(digits) if digits else 0
    dec = None
    if m.group(2) is None:
        dec = len(mant.split(".")[1]) if "." in mant else 0
    return Num(float(t), t, False, sig, dec)


def is_number(text):
    t = text.strip()
    return bool(_hex_re.match(t) or _dec_re.match(t))


# ----------------------------------------------------------------------
# coordinate systems
# ----------------------------------------------------------------------
def decode_pair(coord, a, b):
    """two real fields -> complex value"""
    c = coord.upper()
    if c == "RI":
        return complex(a, b)
    if c == "MA":
        return cmath.rect(a, math.radians(b)) if a != 0 else complex(0, 0)
    if c == "DB":
        return cmath.rect(10.0 ** (a / 20.0), math.radians(b))
    raise ValueError(coord)


def encode_pair(coord, z):
    """complex value -> two real fields"""
    c = coord.upper()
    z = complex(z)
    if c == "RI":
        return z.real, z.imag
    ang = math.degrees(math.atan2(z.imag, z.real)) if z != 0 else 0.0
    if c == "MA":
        return abs(z), ang
    if c == "DB":
        return 20.0 * math.log10(abs(z)), ang
    raise ValueError(coord)


def ts_normalise(ptype, m, r):
    """Touchstone 1 normalisation of a Z/Y/H/G matrix to the reference
    resistance r (S is stored as is)"""
    m = np.array(m, dtype=complex)
    if ptype == "Z":
        return m / r
    if ptype == "Y":
        return m * r
    if ptype == "H":
        m = m.copy()
        m[0, 0] = m[0, 0] / r
        m[1, 1] = m[1, 1] * r
        return m
    if ptype == "G":
        m = m.copy()
        m[0, 0] = m[0, 0] * r
        m[1, 1] = m[1, 1] / r
        return m
    return m


def ts_denormalise(ptype, m, r):
    m = np.array(m, dtype=complex)
    if ptype == "Z":
        return m * r
    if ptype == "Y":
        return m / r
    if ptype == "H":
        m = m.copy()
        m[0, 0] = m[0, 0] * r
        m[1, 1] = m[1, 1] / r
        return m
    if ptype == "G":
        m = m.copy()
        m[0, 0] = m[0, 0] / r
        m[1, 1] = m[1, 1] * r
        return m
    return m


# ----------------------------------------------------------------------
# Touchstone reader
# ----------------------------------------------------------------------
class TSFile(object):
    """result of read_touchstone"""

    def __init__(self):
        self.kind = None        # "ts1" | "ts2"
        self.version = None
        self.unit = "GHZ"
        self.ptype = "S"
        self.coord = "MA"
        self.R = 50.0
        self.R_num = None
        self.option_given = set()
        self.ports = None
        self.freqs = []         # Hz
        self.freq_nums = []
        self.z0 = []            # per port, complex
        self.z0_nums = None     # [Reference] tokens or None
        self.fz0 = None
        self.matrix_format = "FULL"
        self.two_port_order = None
        self.raw = []           # [F] -> n x n array of (Num, Num)
        self.raw_values = []    # [F] -> n x n complex as stored in the file
        self.values = []        # [F] -> n x n complex, de-normalised
        self.normalised = False
        self.noise = []         # list of [5 Num]
        self.notes = []         # deviations from the specification


def _ts_lines(data):
    text = data.decode("latin-1") if isinstance(data, (bytes, bytearray)) \
        else data
    out = []
    for ln in text.split("\n"):
        ln = ln.rstrip("\r")
        k = ln.find("!")
        if k >= 0:
            ln = ln[:k]
        ln = ln.strip()
        if ln:
            out.append(ln)
    return out


_kw_re = re.compile(r"^\[([^\]]*)\]\s*(.*)$")


def _kw(line):
    m = _kw_re.match(line)
    if not m:
        return None, None
    return " ".join(m.group(1).upper().split()), m.group(2).strip()


def _parse_option_line(ts, line):
    toks = line[1:].upper().split()
    i = 0
    while i < len(toks):
        t = toks[i]
        if t in UNIT_MULT:
            ts.unit = t
            ts.option_given.add("unit")
        elif t in TS_PARAMS:
            ts.ptype = t
            ts.option_given.add("param")
        elif t in ("RI", "MA", "DB"):
            ts.coord = t
            ts.option_given.add("format")
        elif t == "R":
            i += 1
            if i >= len(toks):
                raise FormatError("option line: R without a value")
            ts.R_num = parse_num(toks[i])
            ts.R = ts.R_num.v
            ts.option_given.add("R")
        else:
            raise FormatError("option line: unknown field %r" % t)
        i += 1


def _num_line(line):
    return [parse_num(t) for t in line.replace(",", " ").split()]


def _place(ts, pairs):
    """pairs: flat list of (Num, Num) for one frequency in file order ->
    n x n object array in matrix position"""
    n = ts.ports
    cells = [[None] * n for _ in range(n)]
    if ts.matrix_format == "FULL":
        if len(pairs) != n * n:
            raise FormatError("expected %d pairs, found %d" % (n * n, len(pairs)))
        order = [(r, c) for r in range(n) for c in range(n)]
        if n == 2 and ts.two_port_order == "21_12":
            order = [(0, 0), (1, 0), (0, 1), (1, 1)]
        for (r, c), p in zip(order, pairs):
            cells[r][c] = p
    else:
        if len(pairs) != n * (n + 1) // 2:
            raise FormatError("expected %d pairs, found %d" % (
                n * (n + 1) // 2, len(pairs)))
        if ts.matrix_format == "UPPER":
            order = [(r, c) for r in range(n) for c in range(r, n)]
        else:
            order = [(r, c) for r in range(n) for c in range(0, r + 1)]
        for (r, c), p in zip(order, pairs):
            cells[r][c] = p
            cells[c][r] = p
    return cells


def _finish_frequency(ts, fnum, pairs):
    mult = UNIT_MULT[ts.unit]
    ts.freq_nums.append(fnum)
    ts.freqs.append(mult * fnum.v)
    cells = _place(ts, pairs)
    n = ts.ports
    rawv = np.array([[decode_pair(ts.coord, cells[r][c][0].v, cells[r][c][1].v)
                      for c in range(n)] for r in range(n)], dtype=complex)
    ts.raw.append(cells)
    ts.raw_values.append(rawv)
    if ts.normalised:
        ts.values.append(ts_denormalise(ts.ptype, rawv, ts.R))
    else:
        ts.values.append(rawv)


def read_touchstone(data):
    """parse Touchstone 1.x / 2.0 bytes; raises FormatError"""
    ts = TSFile()
    lines = _ts_lines(data)
    if not lines:
        raise FormatError("empty file")
    pos = 0
    name, arg = _kw(lines[0])
    if name is not None:
        if name != "VERSION":
            raise FormatError("first keyword must be [Version]")
        if arg != "2.0":
            raise FormatError("unsupported [Version] %r" % arg)
        ts.version = 2
        pos = 1
    else:
        ts.version = 1
    ts.kind = "ts%d" % ts.version
    if pos >= len(lines) or not lines[pos].startswith("#"):
        raise FormatError("option line expected, found %r" % (
            lines[pos] if pos < len(lines) else "<EOF>"))
    _parse_option_line(ts, lines[pos])
    pos += 1
    if ts.version == 1:
        _read_v1(ts, lines[pos:])
    else:
        _read_v2(ts, lines[pos:])
    if ts.ptype in ("H", "G") and ts.ports != 2:
        raise FormatError("%s parameters need two ports" % ts.ptype)
    for f0, f1 in zip(ts.freqs, ts.freqs[1:]):
        if not f1 > f0:
            raise FormatError("frequencies not strictly increasing")
    return ts


def _read_v1(ts, lines):
    ts.normalised = ts.ptype in ("Z", "Y", "H", "G")
    records = []
    for ln in lines:
        if ln.startswith("#"):
            continue        # later option lines are ignored (spec 1.1)
        if ln.startswith("["):
            raise FormatError("keyword %r in a version 1 file" % ln)
        nums = _num_line(ln)
        if len(nums) % 2 == 1:
            records.append(list(nums))
        else:
            if not records:
                raise FormatError("data do not start with a frequency")
            records[-1].extend(nums)
    if not records:
        raise FormatError("no data")
    first = len(records[0])
    npairs = (first - 1) // 2
    n = int(round(math.sqrt(npairs)))
    if n < 1 or n * n != npairs:
        raise FormatError("first frequency has %d numbers" % first)
    ts.ports = n
    ts.matrix_format = "FULL"
    ts.two_port_order = "21_12" if n == 2 else None
    ts.z0 = [complex(ts.R)] * n
    in_noise = False
    for rec in records:
        if not in_noise and len(rec) == first:
            pairs = [(rec[1 + 2 * k], rec[2 + 2 * k]) for k in range(npairs)]
            _finish_frequency(ts, rec[0], pairs)
        elif n == 2 and len(rec) == 5:
            in_noise = True
            ts.noise.append(rec)
        else:
            raise FormatError("record of %d numbers (expected %d)" % (
                len(rec), first))


def _read_v2(ts, lines):
    nfreq = None
    nnoise = None
    pos = 0
    n_lines = len(lines)
    seen = []
    ref = None
    while pos < n_lines:
        name, arg = _kw(lines[pos])
        if name is None:
            raise FormatError("keyword expected, found %r" % lines[pos])
        pos += 1
        seen.append(name)
        if name == "NUMBER OF PORTS":
            ts.ports = int(arg)
            if len(seen) != 1:
                ts.notes.append(("number-of-ports-not-first",
                                 "[Number of Ports] must be the first keyword "
                                 "after the option line"))
        elif name in ("TWO-PORT DATA ORDER", "TWO-PORT ORDER"):
            if name == "TWO-PORT ORDER":
                # the specification's keyword is [Two-Port Data Order]
                ts.notes.append(("two-port-order-keyword",
                                 "[Two-Port Order] is not a Touchstone 2.0 "
                                 "keyword; the specification has "
                                 "[Two-Port Data Order]"))
            if arg.upper() not in ("12_21", "21_12"):
                raise FormatError("bad two-port order %r" % arg)
            ts.two_port_order = arg.upper()
        elif name == "NUMBER OF FREQUENCIES":
            nfreq = int(arg)
        elif name == "NUMBER OF NOISE FREQUENCIES":
            nnoise = int(arg)
        elif name == "REFERENCE":
            if ts.ports is None:
                raise FormatError("[Reference] before [Number of Ports]")
            toks = arg.split()
            while len(toks) < ts.ports and pos < n_lines and \
                    not lines[pos].startswith("["):
                toks += lines[pos].split()
                pos += 1
            if len(toks) != ts.ports:
                raise FormatError("[Reference] needs %d values" % ts.ports)
            ref = [parse_num(t) for t in toks]
        elif name == "MATRIX FORMAT":
            if arg.upper() not in ("FULL", "LOWER", "UPPER"):
                raise FormatError("bad [Matrix Format] %r" % arg)
            ts.matrix_format = arg.upper()
        elif name == "BEGIN INFORMATION":
            while pos < n_lines and _kw(lines[pos])[0] != "END INFORMATION":
                pos += 1
            if pos >= n_lines:
                raise FormatError("[Begin Information] not closed")
            pos += 1
        elif name == "MIXED-MODE ORDER":
            raise FormatError("[Mixed-Mode Order] not supported by this reader")
        elif name == "NETWORK DATA":
            break
        else:
            raise FormatError("unexpected keyword [%s]" % name)
    else:
        raise FormatError("[Network Data] missing")
    if ts.ports is None or ts.ports < 1:
        raise FormatError("[Number of Ports] missing")
    if nfreq is None or nfreq < 1:
        raise FormatError("[Number of Frequencies] missing")
    n = ts.ports
    if n == 2 and ts.two_port_order is None:
        raise FormatError("[Two-Port Data Order] required for two ports")
    if n != 2 and ts.two_port_order is not None:
        raise FormatError("[Two-Port Data Order] given for %d ports" % n)
    if ref is not None:
        ts.z0_nums = ref
        ts.z0 = [complex(x.v) for x in ref]
    else:
        ts.z0 = [complex(ts.R)] * n
    ts.normalised = False
    npairs = n * n if ts.matrix_format == "FULL" else n * (n + 1) // 2
    nums = []
    while pos < n_lines and not lines[pos].startswith("["):
        nums += _num_line(lines[pos])
        pos += 1
    per = 1 + 2 * npairs
    if len(nums) != per * nfreq:
        raise FormatError("[Network Data] holds %d numbers, expected %d" % (
            len(nums), per * nfreq))
    for k in range(nfreq):
        rec = nums[k * per:(k + 1) * per]
        pairs = [(rec[1 + 2 * j], rec[2 + 2 * j]) for j in range(npairs)]
        _finish_frequency(ts, rec[0], pairs)
    name, arg = _kw(lines[pos]) if pos < n_lines else (None, None)
    if name == "NOISE DATA":
        pos += 1
        nz = []
        while pos < n_lines and not lines[pos].startswith("["):
            nz += _num_line(lines[pos])
            pos += 1
        if nnoise is None or len(nz) != 5 * nnoise:
            raise FormatError("[Noise Data] size does not match "
                              "[Number of Noise Frequencies]")
        ts.noise = [nz[5 * k:5 * k + 5] for k in range(nnoise)]
        name, arg = _kw(lines[pos]) if pos < n_lines else (None, None)
    elif nnoise:
        raise FormatError("[Noise Data] missing")
    if name != "END":
        raise FormatError("[End] expected")
    pos += 1
    if pos != n_lines:
        raise FormatError("text after [End]")


# ----------------------------------------------------------------------
# NPD
# ----------------------------------------------------------------------
class Spec(object):
    """one entry of an NPD "#:parameters" list / vnadata_set_format list

    param: S T U Z Y H G A B ZIN or None (bare coordinate)
    form:  RI MA DB PRC PRL SRC SRL IL RL VSWR
    """
    __slots__ = ("text", "param", "form")

    def __init__(self, text, param, form):
        self.text = text
        self.param = param
        self.form = form

    def source(self):
        """which parameter the values derive from"""
        if self.form in ("IL", "RL", "VSWR"):
            return "S"
        if self.form in ("PRC", "PRL", "SRC", "SRL"):
            return "ZIN"
        return self.param

    def is_complex(self):
        """carries complex values from which data can be reconstructed"""
        return self.form not in ("IL", "RL", "VSWR")

    def nfields(self, ports):
        if self.form in ("RI", "MA", "DB"):
            return 2 * ports if self.param == "ZIN" else 2 * ports * ports
        if self.form in ("PRC", "PRL", "SRC", "SRL"):
            return 2 * ports
        if self.form == "IL":
            return ports * (ports - 1)
        return ports

    def names(self, ports):
        """(name, what) of every field, as the "# field" key spells them"""
        sep = "," if ports > 9 else ""
        out = []
        if self.form in ("RI", "MA", "DB"):
            first = {"RI": "real", "MA": "magnitude", "DB": "magnitude"}
            second = {"RI": "imaginary", "MA": "angle", "DB": "angle"}
            if self.param == "ZIN":
                for p in range(ports):
                    out.append(("Zin%d" % (p + 1), first[self.form]))
                    out.append(("Zin%d" % (p + 1), second[self.form]))
            else:
                for r in range(ports):
                    for c in range(ports):
                        nm = "%s%d%s%d" % (self.param, r + 1, sep, c + 1)
                        out.append((nm, first[self.form]))
                        out.append((nm, second[self.form]))
        elif self.form in ("PRC", "PRL", "SRC", "SRL"):
            for p in range(ports):
                out.append(("%s%d" % (self.form, p + 1), "R"))
                out.append(("%s%d" % (self.form, p + 1), self.form[2]))
        elif self.form == "IL":
            for r in range(ports):
                for c in range(ports):
                    if r != c:
                        out.append(("IL%d%s%d" % (r + 1, sep, c + 1),
                                    "magnitude"))
        elif self.form == "RL":
            out = [("RL%d" % (p + 1), "magnitude") for p in range(ports)]
        else:
            out = [("VSWR%d" % (p + 1), "") for p in range(ports)]
        return out


_spec_re = re.compile(r"^(zin|[stuzyhgab])?(ri|ma|db)?$")


def parse_spec(text):
    t = "".join(text.split()).lower()
    if t in ("prc", "prl", "src", "srl"):
        return Spec(text, "ZIN", t.upper())
    if t in ("il", "rl", "vswr"):
        return Spec(text, "S", t.upper())
    m = _spec_re.match(t)
    if not m or t == "":
        raise FormatError("bad parameter specifier %r" % text)
    param = m.group(1).upper() if m.group(1) else None
    form = (m.group(2) or "ri").upper()
    if param == "ZIN" and form == "DB":
        raise FormatError("bad parameter specifier %r" % text)
    return Spec(text, param, form)


def parse_spec_list(text):
    return [parse_spec(t) for t in text.split(",")]


def derive_fields(spec, ports, m, zin, f):
    """real fields of one parameter block computed from ground truth:
    m = matrix of spec.source() (None when not a matrix form), zin = vector of
    input impedances, f = frequency in Hz.  Exact definitions:
       IL_ij = -20 log10 |S_ij|, RL_i = -20 log10 |S_ii|,
       VSWR_i = (1+|S_ii|)/(1-|S_ii|),
       PRx: 1/Zin = 1/R + j w C  or  1/R + 1/(j w L)
       SRx: Zin = R + 1/(j w C)  or  R + j w L
    """
    out = []
    w = 2.0 * math.pi * f
    if spec.form in ("RI", "MA", "DB"):
        vals = zin if spec.param == "ZIN" else np.asarray(m).reshape(-1)
        for z in vals:
            out.extend(encode_pair(spec.form, z))
    elif spec.form in ("PRC", "PRL", "SRC", "SRL"):
        for z in zin:
            z = complex(z)
            if spec.form[0] == "P":
                y = 1.0 / z
                r = 1.0 / y.real
                x = y.imag / w if spec.form == "PRC" else -1.0 / (w * y.imag)
            else:
                r = z.real
                x = -1.0 / (w * z.imag) if spec.form == "SRC" else z.imag / w
            out.extend([r, x])
    elif spec.form == "IL":
        for r in range(ports):
            for c in range(ports):
                if r != c:
                    out.append(-20.0 * math.log10(abs(m[r][c])))
    elif spec.form == "RL":
        out = [-20.0 * math.log10(abs(m[p][p])) for p in range(ports)]
    elif spec.form == "VSWR":
        out = [(1.0 + abs(m[p][p])) / (1.0 - abs(m[p][p]))
               for p in range(ports)]
    return out


def rebuild_values(spec, ports, fields, f):
    """complex values denoted by the fields of a complex-carrying block"""
    w = 2.0 * math.pi * f
    vals = []
    for k in range(0, len(fields), 2):
        a, b = fields[k], fields[k + 1]
        if spec.form in ("RI", "MA", "DB"):
            vals.append(decode_pair(spec.form, a, b))
        elif spec.form == "PRC":
            vals.append(1.0 / complex(1.0 / a, w * b))
        elif spec.form == "PRL":
            vals.append(1.0 / complex(1.0 / a, -1.0 / (w * b)))
        elif spec.form == "SRC":
            vals.append(complex(a, -1.0 / (w * b)))
        elif spec.form == "SRL":
            vals.append(complex(a, w * b))
        else:
            raise ValueError(spec.form)
    v = np.array(vals, dtype=complex)
    if spec.source() == "ZIN":
        return v.reshape(1, ports)
    return v.reshape(ports, ports)


class NPDFile(object):
    def __init__(self):
        self.kind = "npd"
        self.version = None
        self.ports = None
        self.nfreq = None
        self.param_text = None
        self.specs = []
        self.z0 = None          # list of complex, or None when per-frequency
        self.z0_nums = None
        self.fz0 = None         # [F][ports] complex when per-frequency
        self.fz0_nums = None
        self.fprecision = None
        self.dprecision = None
        self.freqs = []
        self.freq_nums = []
        self.blocks = []        # per spec: dict(spec, nums[F][k], values[F])
        self.key = []           # parsed "# field N: name what (unit)" lines
        self.notes = []


_z0im_re = re.compile(r"^(.*)[jJ]$")
_key_re = re.compile(r"^#\s*field\s+(\d+):\s*(\S+)\s*(.*?)\s*(\(([^)]*)\))?\s*$")


def read_npd(data):
    text = data.decode("latin-1") if isinstance(data, (bytes, bytearray)) \
        else data
    npd = NPDFile()
    rows = []
    header = {}
    z0_fields = None
    for ln in text.split("\n"):
        ln = ln.rstrip("\r").strip()
        if not ln:
            continue
        if ln.startswith("#:"):
            toks = ln[2:].split()
            if not toks:
                continue
            kw = toks[0]
            if rows:
                raise FormatError("keyword line #:%s after data" % kw)
            if kw in header and kw != "z0":
                raise FormatError("duplicate #:%s" % kw)
            header[kw] = toks[1:]
            if kw == "version":
                if toks[1:] != ["1.0"]:
                    raise FormatError("unsupported NPD version %r" % toks[1:])
                npd.version = "1.0"
            elif kw == "ports":
                npd.ports = int(toks[1])
            elif kw == "frequencies":
                npd.nfreq = int(toks[1])
            elif kw == "parameters":
                npd.param_text = ",".join(t for t in
                                          ",".join(toks[1:]).split(",") if t)
            elif kw == "z0":
                z0_fields = toks[1:]
            elif kw == "fprecision":
                npd.fprecision = int(toks[1])
            elif kw == "dprecision":
                npd.dprecision = int(toks[1])
            else:
                raise FormatError("unknown keyword #:%s" % kw)
            continue
        if ln.startswith("#"):
            m = _key_re.match(ln)
            if m:
                npd.key.append((int(m.group(1)), m.group(2), m.group(3),
                                m.group(5)))
            continue
        rows.append([parse_num(t) for t in ln.split()])
    if npd.ports is None or npd.ports < 1:
        raise FormatError("#:ports missing")
    if npd.nfreq is None:
        raise FormatError("#:frequencies missing")
    if npd.param_text is None:
        raise FormatError("#:parameters missing")
    ports = npd.ports
    npd.specs = parse_spec_list(npd.param_text)
    for sp in npd.specs:
        if sp.param is None:
            raise FormatError("parameter %r without a type" % sp.text)
        if sp.param in ("T", "U", "H", "G", "A", "B") and ports != 2:
            raise FormatError("%s needs two ports" % sp.param)
    per_f = False
    if z0_fields is None:
        npd.z0 = [complex(50.0)] * ports
    elif len(z0_fields) == 1 and z0_fields[0].upper() == "PER-FREQUENCY":
        per_f = True
    else:
        if len(z0_fields) != 2 * ports:
            raise FormatError("#:z0 needs %d fields" % (2 * ports))
        npd.z0 = []
        npd.z0_nums = []
        for p in range(ports):
            re_ = parse_num(z0_fields[2 * p])
            m = _z0im_re.match(z0_fields[2 * p + 1])
            if not m:
                raise FormatError("#:z0 imaginary part %r lacks the j" %
                                  z0_fields[2 * p + 1])
            im_ = parse_num(m.group(1))
            npd.z0.append(complex(re_.v, im_.v))
            npd.z0_nums.append((re_, im_))
    if len(rows) != npd.nfreq:
        raise FormatError("#:frequencies %d but %d data lines" % (
            npd.nfreq, len(rows)))
    width = 1 + (2 * ports if per_f else 0) + \
        sum(sp.nfields(ports) for sp in npd.specs)
    if per_f:
        npd.fz0 = []
        npd.fz0_nums = []
    npd.blocks = [dict(spec=sp, nums=[], values=[]) for sp in npd.specs]
    for row in rows:
        if len(row) != width:
            raise FormatError("data line has %d fields, expected %d" % (
                len(row), width))
        npd.freq_nums.append(row[0])
        npd.freqs.append(row[0].v)
        k = 1
        if per_f:
            zn = [(row[k + 2 * p], row[k + 2 * p + 1]) for p in range(ports)]
            npd.fz0_nums.append(zn)
            npd.fz0.append([complex(a.v, b.v) for a, b in zn])
            k += 2 * ports
        for blk in npd.blocks:
            sp = blk["spec"]
            nf = sp.nfields(ports)
            nums = row[k:k + nf]
            k += nf
            blk["nums"].append(nums)
            if sp.is_complex():
                blk["values"].append(rebuild_values(
                    sp, ports, [x.v for x in nums], row[0].v))
            else:
                blk["values"].append(None)
    # the key, when present, must describe exactly these columns
    if npd.key:
        want = [("frequency", "")]
        if per_f:
            for p in range(ports):
                want += [("Z%d" % (p + 1), "real"), ("Z%d" % (p + 1),
                                                      "imaginary")]
        for sp in npd.specs:
            want += sp.names(ports)
        got = [(name, what) for _, name, what, _ in npd.key]
        nums = [i for i, _, _, _ in npd.key]
        if nums != list(range(1, len(nums) + 1)):
            npd.notes.append(("field-key-numbering",
                              "the '# field' key is not numbered 1..n"))
        if len(got) != len(want):
            npd.notes.append(("field-key-count", "the '# field' key lists %d "
                              "fields, the data lines have %d" % (
                                  len(got), len(want))))
        else:
            for (gn, gw), (wn, ww) in zip(got, want):
                if gn != wn or (ww and gw != ww):
                    npd.notes.append(("field-key-name", "the '# field' key says "
                                      "'%s %s' where the parameter list "
                                      "implies '%s %s'" % (gn, gw, wn, ww)))
                    break
    return npd


def sniff(data):
    """'npd' | 'touchstone' from the bytes alone"""
    text = data.decode("latin-1") if isinstance(data, (bytes, bytearray)) \
        else data
    for ln in text.split("\n"):
        s = ln.strip()
        if not s:
            continue
        if s.startswith("#NPD") or s.startswith("#:"):
            return "npd"
        if s.startswith("!") or s.startswith("["):
            return "touchstone"
        if s.startswith("#"):
            # Touchstone option line: only option words follow the '#'
            toks = s[1:].upper().split()
            ok = all(t in UNIT_MULT or t in TS_PARAMS or t in ("RI", "MA", "DB",
                                                               "R")
                     or is_number(t) for t in toks)
            return "touchstone" if ok else "npd"
        return "npd"
    return "npd"


def read_any(data):
    return read_npd(data) if sniff(data) == "npd" else read_touchstone(data)


# ----------------------------------------------------------------------
# writer
# ----------------------------------------------------------------------
def fmt_num(x, style="r", plus=False):
    """exact decimal (17 significant digits) or hexadecimal spelling"""
    x = float(x)
    if style == "hex":
        s = x.hex()
    elif style == "e":
        s = "%.16e" % x
    elif style == "E":
        s = "%.16E" % x
    elif style == "g":
        s = "%.17g" % x
    else:
        s = repr(x)
    if plus and not s.startswith("-"):
        s = "+" + s
    return s


class Decor(object):
    """random but reproducible decoration of a text file: comments, blank
    lines, spacing, letter case"""

    def __init__(self, rng, comment="!", level=1.0):
        self.rng = rng
        self.comment = comment
        self.level = level

    def chance(self, p):
        return self.rng.random() < p * self.level

    def sep(self):
        r = self.rng.random()
        if r < 0.6 or self.level == 0:
            return " "
        if r < 0.8:
            return "  "
        if r < 0.9:
            return "\t"
        return " \t "

    def join(self, toks):
        out = []
        for i, t in enumerate(toks):
            if i:
                out.append(self.sep())
            out.append(t)
        return "".join(out)

    def case(self, s):
        r = self.rng.random()
        if self.level == 0 or r < 0.4:
            return s
        if r < 0.6:
            return s.upper()
        if r < 0.8:
            return s.lower()
        return "".join(ch.upper() if self.rng.random() < 0.5 else ch.lower()
                       for ch in s)

    def comment_text(self):
        words = ["measured", "port", "50 ohm", "# not an option line",
                 "[Version] 9", "R 75", "GHz S MA", "1.0 2.0 3.0", "VNA",
                 "date 2026-10-04", "S11 S21 S12 S22", "!!", "", "#:ports 9"]
        k = int(self.rng.integers(0, 4))
        return " ".join(words[int(self.rng.integers(0, len(words)))]
                        for _ in range(k))

    def line(self, body, allow_trailing=True):
        """one logical line -> list of physical lines with decoration"""
        out = []
        while self.chance(0.12):
            out.append("")
        while self.chance(0.15):
            out.append(self.comment + self.comment_text())
        lead = ""
        if self.chance(0.2):
            lead = " " * int(self.rng.integers(1, 4))
        trail = ""
        if allow_trailing and self.chance(0.15):
            trail = self.sep() + self.comment + self.comment_text()
        elif self.chance(0.15):
            trail = " " * int(self.rng.integers(1, 3))
        out.append(lead + body + trail)
        return out


def write_touchstone(gt, version=1, unit="GHZ", coord="MA", ptype=None,
                     option_order=None, omit_defaults=False,
                     two_port_order="12_21", matrix_format="FULL",
                     reference="auto", noise=None, numstyle="r",
                     keyword_order=None, decor=None, end_keyword=True,
                     crlf=False, two_port_keyword="Two-Port Data Order",
                     wrap=4):
    """ground truth -> bytes.

    gt: dict(ptype, ports, freqs (Hz), z0 (list of real), data [F] n x n
    complex arrays (true, un-normalised values))
    noise: list of 5-tuples (f in Hz, nfmin dB, |gamma|, angle, rn) or None
    """
    ptype = ptype or gt["ptype"]
    n = gt["ports"]
    z0 = [float(np.real(z)) for z in gt["z0"]]
    R = z0[0]
    mult = UNIT_MULT[unit.upper()]
    d = decor or Decor(np.random.default_rng(0), level=0.0)
    lines = []
    plus = d.chance(0.3)

    bare = d.chance(0.25)

    def num(x):
        s = fmt_num(x, numstyle, plus and d.rng.random() < 0.5)
        # ".5" / "-.5": a fraction spelled without its leading zero
        if bare and d.rng.random() < 0.5:
            if s.startswith("0.") and len(s) > 2 and s[2].isdigit():
                s = s[1:]
            elif s[:3] in ("-0.", "+0.") and len(s) > 3 and s[3].isdigit():
                s = s[0] + s[2:]
        return s

    def fnum(f):
        # the spelling of f/mult that reads back closest to f
        return fmt_num(f / mult, numstyle if numstyle != "hex" else "r")

    if version == 2:
        lines += d.line(d.case("[Version]") + d.sep() + "2.0")
    # option line
    fields = {"unit": [d.case({"HZ": "Hz", "KHZ": "kHz", "MHZ": "MHz",
                               "GHZ": "GHz"}[unit.upper()])],
              "param": [d.case(ptype)],
              "format": [d.case(coord)],
              "R": [d.case("R"), fmt_num(R, "r")]}
    order = list(option_order or ["unit", "param", "format", "R"])
    toks = []
    for k in order:
        if omit_defaults:
            if k == "unit" and unit.upper() == "GHZ":
                continue
            if k == "param" and ptype == "S":
                continue
            if k == "format" and coord.upper() == "MA":
                continue
            if k == "R" and R == 50.0:
                continue
        toks += fields[k]
    lines += d.line("#" + (d.sep() if toks or d.chance(0.5) else "") +
                    d.join(toks))
    if version == 2:
        kws = []
        if n == 2:
            kws.append(("order", d.case("[%s]" % two_port_keyword) + d.sep() +
                        two_port_order))
        kws.append(("nfreq", d.case("[Number of Frequencies]") + d.sep() +
                    "%d" % len(gt["freqs"])))
        if noise:
            kws.append(("nnoise", d.case("[Number of Noise Frequencies]") +
                        d.sep() + "%d" % len(noise)))
        mixed = any(z != z0[0] for z in z0)
        if reference is True or (reference == "auto" and mixed):
            kws.append(("ref", d.case("[Reference]") + d.sep() +
                        d.join([fmt_num(z, "r") for z in z0])))
        elif mixed:
            raise ValueError("unequal z0 need [Reference]")
        if matrix_format.upper() != "FULL" or d.chance(0.3):
            kws.append(("mf", d.case("[Matrix Format]") + d.sep() +
                        d.case(matrix_format.capitalize())))
        if keyword_order is not None:
            kws = [kws[i] for i in keyword_order(len(kws))]
        lines += d.line(d.case("[Number of Ports]") + d.sep() + "%d" % n)
        for _, text in kws:
            lines += d.line(text)
        lines += d.line(d.case("[Network Data]"))
    elif any(z != z0[0] for z in z0):
        raise ValueError("Touchstone 1 needs equal reference impedances")
    # data
    for fi, f in enumerate(gt["freqs"]):
        m = np.asarray(gt["data"][fi], dtype=complex)
        if version == 1:
            m = ts_normalise(ptype, m, R)
        if matrix_format.upper() == "FULL":
            if n == 2 and (version == 1 or two_port_order == "21_12"):
                rows = [[m[0, 0], m[1, 0], m[0, 1], m[1, 1]]]
            elif n == 2:
                rows = [[m[0, 0], m[0, 1], m[1, 0], m[1, 1]]]
            else:
                rows = [list(m[r, :]) for r in range(n)]
        elif matrix_format.upper() == "UPPER":
            rows = [list(m[r, r:]) for r in range(n)]
        else:
            rows = [list(m[r, :r + 1]) for r in range(n)]
        first = True
        for row in rows:
            for k in range(0, len(row), wrap):
                toks = []
                if first:
                    toks.append(fnum(f))
                    first = False
                for z in row[k:k + wrap]:
                    a, b = encode_pair(coord, z)
                    toks += [num(a), num(b)]
                lines += d.line(d.join(toks))
    if noise:
        if version == 2:
            lines += d.line(d.case("[Noise Data]"))
        for row in noise:
            toks = [fnum(row[0])] + [fmt_num(x, "r") for x in row[1:]]
            lines += d.line(d.join(toks))
    if version == 2 and end_keyword:
        lines += d.line(d.case("[End]"))
    while d.chance(0.1):
        lines.append("")
    nl = "\r\n" if crlf else "\n"
    return (nl.join(lines) + nl).encode("latin-1")


def write_npd(gt, specs, blocks, header_order=None, numstyle="r", decor=None,
              with_key=False, extra_header=True, z0_style="plain",
              omit_default_z0=False):
    """gt: dict(ports, freqs, z0 (list of complex) or fz0 [F][ports]);
    specs: list of spec strings as they are to appear; blocks[F] -> list of
    lists of real fields (one list per spec)"""
    d = decor or Decor(np.random.default_rng(0), comment="#", level=0.0)
    n = gt["ports"]
    per_f = gt.get("fz0") is not None
    hdr = []
    hdr.append(("version", "#:version 1.0"))
    hdr.append(("ports", "#:ports %d" % n))
    hdr.append(("frequencies", "#:frequencies %d" % len(gt["freqs"])))
    hdr.append(("parameters", "#:parameters " + ",".join(specs)))
    if per_f:
        hdr.append(("z0", "#:z0 " + d.case("PER-FREQUENCY")))
    else:
        toks = []
        for z in gt["z0"]:
            z = complex(z)
            toks.append(fmt_num(z.real, numstyle))
            toks.append(fmt_num(z.imag, numstyle, plus=True) + "j")
        if not (omit_default_z0 and
                all(complex(z) == 50.0 for z in gt["z0"])):
            # (the line is optional: without it every port is 50 ohms)
            hdr.append(("z0", "#:z0 " + d.join(toks)))
    if extra_header:
        hdr.append(("fprecision", "#:fprecision 17"))
        hdr.append(("dprecision", "#:dprecision 17"))
    if header_order is not None:
        hdr = header_order(hdr)
    lines = ["#NPD"]
    for _, text in hdr:
        lines += _npd_line(d, text)
    if with_key:
        k = 1
        lines.append("#")
        lines.append("# field %d: frequency (Hz)" % k)
        if per_f:
            for p in range(n):
                for what in ("real", "imaginary"):
                    k += 1
                    lines.append("# field %d: Z%d %s (ohms)" % (k, p + 1, what))
        for s in specs:
            for name, what in parse_spec(s).names(n):
                k += 1
                lines.append("# field %d: %s %s" % (k, name, what))
        lines.append("#")
    for fi, f in enumerate(gt["freqs"]):
        toks = [fmt_num(f, numstyle if numstyle != "hex" else "r")]
        if per_f:
            for z in gt["fz0"][fi]:
                z = complex(z)
                toks += [fmt_num(z.real, numstyle), fmt_num(z.imag, numstyle)]
        for blk in blocks[fi]:
            toks += [fmt_num(x, numstyle, plus=d.chance(0.2)) for x in blk]
        lines += _npd_line(d, d.join(toks))
    return ("\n".join(lines) + "\n").encode("latin-1")


def _npd_line(d, body):
    out = []
    while d.chance(0.12):
        out.append("")
    while d.chance(0.15):
        t = d.comment_text()
        # a comment must not look like a keyword line
        out.append("#" + (" " + t if t else ""))
    lead = " " * int(d.rng.integers(1, 3)) if d.chance(0.15) else ""
    trail = " " * int(d.rng.integers(1, 3)) if d.chance(0.15) else ""
    out.append(lead + body + trail)
    return out
