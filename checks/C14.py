#!/usr/bin/env python3-vt
"""C14: property trees survive YAML export and import unchanged.

Monitor: random trees of depth <= 6 with hostile keys and scalars are built
through the public API in the driver (ASan/UBSan/LSan), dumped through the
public getters, exported with vnaproperty_export_yaml_to_file, re-imported with
vnaproperty_import_yaml_from_file and (second driver run, the exported text
passed as a string) vnaproperty_import_yaml_from_string; the same tree is
attached to the global root of a vnacal_t (vnacal_property_set_subtree +
vnaproperty_copy), written by vnacal_save and read back by vnacal_load.

Oracle (no libvna involved): the dump before export equals the dump after
import - node kinds, key sets, list order, nulls and every scalar byte for
byte.  Map key order is recorded (counter) but only the key set is asserted.
"""
import hashlib
import os
import random
import sys

sys.path.insert(0, os.path.join(os.path.dirname(os.path.abspath(__file__)),
                                "..", "pylib"))
import docmodel as M  # noqa: E402
import runner as R  # noqa: E402

PROP = "C14"


def run_cases(binary, cases, wd, timeout=900):
    """R.run_cases, retried while the shared driver binary is being relinked
    by a concurrent build"""
    import time
    for attempt in range(60):
        try:
            return R.run_cases(binary, cases, wd, timeout=timeout)
        except OSError:
            if attempt == 59:
                raise
            time.sleep(1.0)


# ----------------------------------------------------------------------
# hostile text
# ----------------------------------------------------------------------
def u(s):
    return s.encode("utf-8")


WORDS = [b"abc", b"VNA_Model", b"two words", b"x", b"Z9", b"a-b", b"_"]
PUNCT = [b": ", b"- ", b"#", b" #c", b"a: b", b"- x", b"? ", b"&a", b"*a",
         b"!t", b"|", b">", b"%y", b"@", b"`", b"{a}", b"[b]", b",", b"'",
         b'"', b"\\", b"''", b"it's", b'"q"', b"\\n", b"a:b", b":", b"-",
         b"?", b"{", b"}", b"[", b"]", b"a #b", b"a# b", b"|-", b">+", b"%",
         b"!!str x", b"&", b"*", b"---", b"...", b"--- a", b"a: b: c", b"=",
         b"<<", b"a,b", b"$", b"(", b")", b";", b"^", b"/", b"+", b".",
         b"\\\\", b"\\x41", b"\\\"", b"'\"'", b"#!"]
SPACES = [b" lead", b"trail ", b"  two  ", b" ", b"   ", b"a  b", b" a b "]
NEWLINES = [b"\n", b"\nlead", b"trail\n", b"a\nb", b"a\n\nb", b"\n\n",
            b"a\n", b"a\n\n", b"\n a", b" a\n b \n", b"a\n\n\n", b"\n\na",
            b"a \nb", b"a\n b", b"a\n\tb", b"# c\nx", b"- a\n- b",
            b"k: v\n", b"a\n...\nb", b"a\n---\nb"]
TABS = [b"\t", b"a\tb", b"\tlead", b"trail\t", b"a \t b", b"\t\t"]
LOOKALIKE = [b"~", b"null", b"Null", b"NULL", b"true", b"false", b"True",
             b"yes", b"no", b"on", b"off", b"0x1", b"1e3", b"1", b"0", b"-1",
             b".5", b".inf", b".nan", b"1_000", b"0o7", b"2026-10-04", b"nULL",
             b"~ ", b" ~", b"null ", b"~x", b"0x1F", b"+1", b"1.0", b"1e-3",
             b"12:30:45", b"0b1"]
CONTROL = [b"\x01", b"\x07", b"\x1b[0m", b"a\x7fb", b"\r", b"a\rb", b"\r\n",
           b"a\r\nb", b"\x08", b"\x0b", b"\x0c", b"\x1f", b"a\x02"]
UNIBREAK = [u("\u0085"), u("a\u0085b"), u("\u2028"), u("a\u2028b"),
            u("\u2029"), u("a\u2029b"), u("\ufeff"), u("\ufeffa"),
            u("a\ufeff"), u("a\u0085"), u("\u0085a"), u("a\u2028"),
            u("\u2028\u2029")]
MULTIBYTE = [u("\u00e9"), u("\u65e5\u672c\u8a9e"), u("\U0001f600"),
             u("\u00a0"), u("a\u00a0b"), u("\u00e9 \u00e9"), u("\u0394x"),
             u("\u200b"), u("\ud7ff"), u("\ue000"), u("\ufffd"),
             u("\U0010ffff")]
LONG = [b"word " * 30, b"x" * 200, b" " + b"long lead " * 12,
        b"fold me " * 15 + b"\nsecond line " * 10, b"a" * 79 + b" b",
        b"a" * 80 + b" " + b"b" * 80, u("\u00e9") * 90, b"w " * 60,
        b"sp  " * 40, b"tail " * 20 + b" ", b"x" * 1100,
        # multi-line text whose long lines would be folded
        b"\n " + b"w " * 60 + b"end", b"head\n  " + b"indented " * 15 + b"\nfoot",
        b"w " * 60 + b"\n" + b"x " * 60, b"line " * 20 + b" \nnext",
        b"a\n" + b"b " * 50 + b"\n\n" + b"c " * 50 + b"\n",
        b"  lead " * 14 + b"\n" + b"  lead " * 14, b"\t" + b"tab " * 30 + b"\nx",
        b"# " + b"hash " * 20 + b"\n- " + b"dash " * 20]

CLASSES = [("word", WORDS, 3), ("punct", PUNCT, 5), ("space", SPACES, 3),
           ("newline", NEWLINES, 4), ("tab", TABS, 2),
           ("lookalike", LOOKALIKE, 4), ("control", CONTROL, 2),
           ("unibreak", UNIBREAK, 3), ("multibyte", MULTIBYTE, 2),
           ("long", LONG, 2)]
_CW = [c for c in CLASSES for _ in range(c[2])]


def nasty(rng, for_key):
    r = rng.random()
    if r < 0.05 and not for_key:
        return b""
    if r < 0.75:
        return rng.choice(rng.choice(_CW)[1])
    n = rng.choice((2, 2, 3, 4))
    s = b"".join(rng.choice(rng.choice(_CW)[1]) for _ in range(n))
    return s[:1500]


def rand_tree(rng, depth):
    r = rng.random()
    if depth <= 0:
        return None if r < 0.15 else nasty(rng, False)
    if r < 0.42:
        d = {}
        for _ in range(rng.choice((1, 1, 2, 2, 3, 4, 6))):
            k = nasty(rng, True)
            if k and k not in d and b"\0" not in k:
                d[k] = rand_tree(rng, depth - 1 - rng.randrange(0, 2))
        return d
    if r < 0.70:
        return [rand_tree(rng, depth - 1 - rng.randrange(0, 2))
                for _ in range(rng.choice((1, 1, 2, 3, 4)))]
    if r < 0.74:
        return {}
    if r < 0.78:
        return []
    if r < 0.84:
        return None
    return nasty(rng, False)


def gen_tree(rng):
    x = rng.random()
    if x < 0.06:
        # single hostile scalar / key at the top: the simplest documents
        if rng.random() < 0.5:
            return nasty(rng, False)
        return {nasty(rng, True) or b"k": nasty(rng, False)}
    depth = rng.choice((1, 2, 2, 3, 3, 4, 4, 5, 6, 6))
    t = rand_tree(rng, depth)
    if M.size(t) > 120:
        t = rand_tree(rng, 3)
    return t


# ----------------------------------------------------------------------
# building a tree through the API
# ----------------------------------------------------------------------
def build_lines(var, doc):
    out = []

    def rec(path, node):
        if isinstance(node, dict):
            if not node:
                out.append("vnaproperty_set_subtree $%s %s" % (
                    var, R.qs((path or b"") + b"{}")))
            for k, v in node.items():
                rec((path + b"." if path else b"") + M.quote(k), v)
        elif isinstance(node, list):
            if not node:
                out.append("vnaproperty_set_subtree $%s %s" % (
                    var, R.qs(path + b"[]")))
            for i, v in enumerate(node):
                rec(path + b"[%d]" % i, v)
        elif node is None:
            if path:
                out.append("vnaproperty_set $%s %s" % (var,
                                                       R.qs(path + b"#")))
        else:
            # the manual's own idiom: descriptor and value as separate %s
            out.append("vnaproperty_set_kv $%s %s %s" % (
                var, R.qs(path or b"."), R.qs(node)))
    rec(b"", doc)
    return out


def phase1_lines(doc, tag):
    """-> (lines, index) ; index: name -> line offset (1-based)"""
    L = ["p=proot"] + build_lines("p", doc)
    ix = {}

    def add(name, line):
        L.append(line)
        ix[name] = len(L)
    add("d0", "dump_property $p")
    add("export", 'vnaproperty_export_yaml_to_file $p "%s.yaml"' % tag)
    L.append("q=proot")
    add("import_file", 'vnaproperty_import_yaml_from_file $q "%s.yaml"' % tag)
    add("d1", "dump_property $q")
    add("text", 'read_file "%s.yaml"' % tag)
    L.append("vc=vnacal_create")
    add("attach", 'vnacal_property_set_subtree $vc -1 "." $p')
    add("dv0", "dump_vnacal_property $vc -1")
    add("save", 'vnacal_save $vc "%s.vnacal"' % tag)
    add("load", 'v2=vnacal_load "%s.vnacal"' % tag)
    add("dv1", "dump_vnacal_property $v2 -1")
    L.append('unlink "%s.yaml"' % tag)
    L.append('unlink "%s.vnacal"' % tag)
    return L, ix


# ----------------------------------------------------------------------
# comparison
# ----------------------------------------------------------------------
def feature(b):
    """stable class of a byte string for violation keys"""
    if b == b"":
        return "empty"
    t = b.decode("utf-8", "replace")
    tests = [
        ("nel", "\u0085" in t), ("ls-ps", "\u2028" in t or "\u2029" in t),
        ("bom", "\ufeff" in t), ("cr", "\r" in t),
        ("control", any(ord(c) < 0x20 and c not in "\t\n\r" for c in t) or
         "\x7f" in t),
        ("tab", "\t" in t),
        ("newline", "\n" in t),
        ("null-lookalike", t.strip() in ("~", "null", "Null", "NULL")),
        ("leading-space", t[:1] == " "), ("trailing-space", t[-1:] == " "),
        ("long", len(b) > 80),
        ("non-ascii", any(ord(c) > 0x7f for c in t)),
        ("punct", any(not (c.isalnum() or c in " _") for c in t)),
    ]
    for name, hit in tests:
        if hit:
            return name
    return "plain"


def kind(n):
    if isinstance(n, M.Bad):
        return "bad"
    return "null" if n is None else "scalar" if isinstance(n, bytes) else \
        "map" if isinstance(n, dict) else "list"


def first_diff(a, b, path="."):
    """a = before, b = after.  -> None or (class, path, before, after)"""
    if isinstance(b, M.Bad):
        return ("inconsistent-getters", path, a, b)
    if kind(a) != kind(b):
        extra = ""
        if isinstance(a, bytes):
            extra = ":" + feature(a)
        return ("%s-became-%s%s" % (kind(a), kind(b), extra), path, a, b)
    if isinstance(a, bytes):
        if a != b:
            return ("scalar-bytes:" + feature(a), path, a, b)
        return None
    if isinstance(a, dict):
        if set(a) != set(b):
            lost = sorted(set(a) - set(b))
            got = sorted(set(b) - set(a))
            f = feature(lost[0]) if lost else "extra-key"
            return ("key-bytes:" + f, path, lost, got)
        for k in a:
            d = first_diff(a[k], b[k], path + "/" + repr(k)[2:-1])
            if d:
                return d
        return None
    if isinstance(a, list):
        if len(a) != len(b):
            return ("list-length", path, len(a), len(b))
        for i, (x, y) in enumerate(zip(a, b)):
            d = first_diff(x, y, "%s[%d]" % (path, i))
            if d:
                return d
    return None


def offending_subtrees(doc, diff):
    """small candidate documents that may reproduce the difference"""
    cands = []
    cls, path, before, after = diff
    if isinstance(before, bytes):
        cands += [before, {b"k": before}, [before]]
    elif isinstance(before, list) and before and \
            isinstance(before[0], bytes):
        cands += [{before[0]: b"v"}]
    elif before is None or isinstance(before, (dict, list)):
        if not before:
            cands += [{b"k": before}, [before], before]
    return cands


# ----------------------------------------------------------------------
def judge_tree(doc, res, off, ix, part, which=("file", "calfile")):
    """-> list of (route, diff)"""
    out = []

    def ev(name):
        return res.ev(off + ix[name])
    e0 = ev("d0")
    if e0 is None:
        return None
    d0 = M.from_dump(e0.get("out"))
    if d0 != doc:
        df = first_diff(doc, d0) or ("differs", ".", doc, d0)
        if df[0] == "inconsistent-getters":
            # keys() / quote_key / get_subtree disagree on the tree that was
            # just built: the walk of the manual's own example program fails,
            # and so does the export, which walks the tree the same way
            out.append(("getters", ("inconsistent-getters:" +
                                    feature_of_tree(doc),) + df[1:]))
        else:
            out.append(("build", df))
        return out
    if list_order(d0) != list_order(doc):
        bump(part, "key_order_differs_after_build")
    ex = ev("export")
    im = ev("import_file")
    d1e = ev("d1")
    if ex is None or im is None or d1e is None:
        return None
    if ex.get("ret") != 0:
        out.append(("file", ("export-failed:" + feature_of_tree(doc), ".",
                             ex.get("errno"), ex.get("cb"))))
    elif im.get("ret") != 0:
        out.append(("file", ("import-failed:" + feature_of_tree(doc), ".",
                             im.get("errno"), im.get("cb"))))
    else:
        d1 = M.from_dump(d1e.get("out"))
        df = first_diff(d0, d1)
        if df:
            out.append(("file", df))
        elif list_order(d0) != list_order(d1):
            bump(part, "key_order_changed_by_roundtrip")
        if im.get("cb"):
            bump(part, "import_callbacks")
    at, dv0e, sv, ld, dv1e = ev("attach"), ev("dv0"), ev("save"), \
        ev("load"), ev("dv1")
    if at is None or dv0e is None or sv is None or ld is None:
        return out
    o = at.get("out") or {}
    if at.get("ret") != "addr" or o.get("set_rc") != 0:
        bump(part, "attach_failed")
        return out
    dv0 = M.from_dump(dv0e.get("out"))
    if dv0 != d0:
        # vnaproperty_copy changed the tree: C13's business; the round trip
        # of what *is* attached is still checked
        bump(part, "attach_changed_tree(C13)")
    if sv.get("ret") != 0:
        out.append(("calfile", ("save-failed:" + feature_of_tree(doc), ".",
                                sv.get("errno"), sv.get("cb"))))
    elif ld.get("ret") is None or dv1e is None or "skipped" in dv1e:
        out.append(("calfile", ("load-failed:" + feature_of_tree(doc), ".",
                                ld.get("errno"), ld.get("cb"))))
    else:
        dv1 = M.from_dump(dv1e.get("out"))
        df = first_diff(dv0, dv1)
        if df:
            out.append(("calfile", df))
    return out


def feature_of_tree(doc):
    feats = set()

    def rec(n):
        if isinstance(n, bytes):
            feats.add(feature(n))
        elif isinstance(n, dict):
            for k, v in n.items():
                feats.add(feature(k))
                rec(v)
        elif isinstance(n, list):
            for v in n:
                rec(v)
    rec(doc)
    order = ["nel", "ls-ps", "bom", "cr", "control", "tab", "newline",
             "null-lookalike", "leading-space", "trailing-space", "long",
             "non-ascii", "punct", "empty", "plain"]
    for f in order:
        if f in feats:
            return f
    return "none"


def list_order(doc):
    return M.canon(doc, False)


def new_part():
    return dict(evaluations=0, counters={}, maxima={}, distinct=set(),
                samples=[], violations=[], inconclusive=[], harness_errors=[])


def bump(part, k, n=1):
    part["counters"][k] = part["counters"].get(k, 0) + n


def run_batch(binary, wd, docs, tagbase):
    """two driver runs for a list of documents.
    -> list of (doc, results-or-None) where results = list of (route, diff),
    plus the scripts for witnesses"""
    # ---- phase 1
    lines = []
    metas = []
    for i, doc in enumerate(docs):
        L, ix = phase1_lines(doc, "%s_%d" % (tagbase, i))
        metas.append((len(lines), ix, L))
        lines += L
    text1 = "\n".join(lines) + "\n"
    res1 = run_cases(binary, [("p1", text1)], wd)["p1"]
    # ---- phase 2: the exported text through import_yaml_from_string
    l2 = []
    m2 = []
    for i, doc in enumerate(docs):
        off, ix, L = metas[i]
        te = res1.ev(off + ix["text"])
        ex = res1.ev(off + ix["export"])
        if te is None or te.get("ret") is None or ex is None or \
                ex.get("ret") != 0:
            m2.append(None)
            continue
        ytext = te["ret"].encode("latin-1")
        if b"\0" in ytext:
            m2.append(None)
            continue
        l2.append("r=proot")
        l2.append("vnaproperty_import_yaml_from_string $r %s" % R.qs(ytext))
        l2.append("dump_property $r")
        m2.append((len(l2) - 1, len(l2), ytext))
    text2 = "\n".join(l2) + "\n"
    res2 = run_cases(binary, [("p2", text2)], wd)["p2"] if l2 else None
    return text1, res1, metas, text2, res2, m2


def tree_chunk(chunk_id, payload):
    seed, tier, binary, workroot, count = payload
    part = new_part()
    wd = os.path.join(workroot, "t%d" % chunk_id)
    seen = set()
    B = 250
    done = 0
    while done < count:
        n = min(B, count - done)
        docs = []
        for i in range(n):
            rng = random.Random("%d/T/%d/%d" % (seed, chunk_id, done + i))
            docs.append(gen_tree(rng))
        judge_batch(binary, wd, docs, part, seen, "c%d_%d" % (chunk_id, done),
                    minimise=True)
        done += n
    bump(part, "trees", count)
    return part


def judge_batch(binary, wd, docs, part, seen, tagbase, minimise):
    text1, res1, metas, text2, res2, m2 = run_batch(binary, wd, docs, tagbase)
    v, inc = R.standard_violations(res1, text1, PROP)
    # cut sanitizer witnesses down to the tree that produced them
    for viol in v:
        ln = None
        for r in res1.reports:
            if r["key"] == viol["key"] and r.get("i") is not None:
                ln = r["i"]
        if ln is not None:
            for off, ix, L in metas:
                if off < ln <= off + len(L):
                    viol["script"] = "\n".join(L) + "\n"
        if viol["key"] in seen:
            viol["script"] = None
        seen.add(viol["key"])
    part["violations"] += v
    part["inconclusive"] += inc
    if res2 is not None:
        v, inc = R.standard_violations(res2, text2, PROP)
        part["violations"] += v
        part["inconclusive"] += inc
    results = []
    for i, doc in enumerate(docs):
        off, ix, L = metas[i]
        r = judge_tree(doc, res1, off, ix, part)
        if r is None:
            bump(part, "trees_not_executed")
            results.append(None)
            continue
        part["evaluations"] += 1
        part["distinct"].add(hashlib.blake2b(M.canon(doc, True),
                                             digest_size=8).digest())
        part["maxima"]["max_depth"] = max(part["maxima"].get("max_depth", 0),
                                          M.depth(doc))
        part["maxima"]["max_nodes"] = max(part["maxima"].get("max_nodes", 0),
                                          M.size(doc))
        # string route
        if m2[i] is not None and res2 is not None:
            li, ld, ytext = m2[i]
            ie, de = res2.ev(li), res2.ev(ld)
            if ie is not None and de is not None:
                bump(part, "string_imports")
                if ie.get("ret") != 0:
                    r.append(("string", ("import-failed:" +
                                         feature_of_tree(doc), ".",
                                         ie.get("errno"), ie.get("cb"))))
                else:
                    df = first_diff(doc, M.from_dump(de.get("out")))
                    if df:
                        r.append(("string", df))
        if len(part["samples"]) < 2 and not r and M.size(doc) > 3 and \
                m2[i] is not None:
            part["samples"].append(dict(
                tree=M.show(doc)[:600],
                exported_yaml=m2[i][2].decode("latin-1")[:600]))
        results.append(r)
        for route, df in r:
            cls = df[0]
            if route == "build":
                part["inconclusive"].append(dict(
                    key="C14:tree-not-built-as-intended:" + cls))
                continue
            key = "%s:%s-roundtrip:%s" % (PROP, route, cls)
            if route == "getters":
                key = "%s:before-export:%s" % (PROP, cls)
            bump(part, "differences")
            if key in seen:
                part["violations"].append(dict(key=key, desc="", script=None))
                continue
            seen.add(key)
            wdoc = doc
            wdf = df
            if minimise:
                for cand in offending_subtrees(doc, df):
                    sub_part = new_part()
                    t1, r1, mm, t2, r2, mm2 = run_batch(binary, wd, [cand],
                                                        tagbase + "m")
                    rr = judge_one(cand, r1, mm, r2, mm2, sub_part)
                    hit = [x for x in (rr or []) if x[0] == route and
                           x[1][0] == cls]
                    if hit:
                        wdoc, wdf = cand, hit[0][1]
                        break
            part["violations"].append(make_violation(
                binary, wd, wdoc, route, wdf, key, tagbase))
    return results


def judge_one(doc, res1, metas, res2, m2, part):
    off, ix, L = metas[0]
    r = judge_tree(doc, res1, off, ix, part)
    if r is None:
        return None
    if m2[0] is not None and res2 is not None:
        li, ld, ytext = m2[0]
        ie, de = res2.ev(li), res2.ev(ld)
        if ie is not None and de is not None:
            if ie.get("ret") != 0:
                r.append(("string", ("import-failed:" + feature_of_tree(doc),
                                     ".", ie.get("errno"), ie.get("cb"))))
            else:
                df = first_diff(doc, M.from_dump(de.get("out")))
                if df:
                    r.append(("string", df))
    return r


def make_violation(binary, wd, doc, route, df, key, tagbase):
    t1, r1, mm, t2, r2, mm2 = run_batch(binary, wd, [doc], "w")
    off, ix, L = mm[0]
    te = r1.ev(off + ix["text"])
    ytext = te["ret"].encode("latin-1") if te is not None and \
        te.get("ret") is not None else b""
    cls, path, before, after = df
    script = t1
    if route == "string" and t2:
        script = t1 + t2
    if route == "calfile":
        ce = None
        # show the calibration file as well
        s = R.Script()
        for ln in L[:-2]:
            s.add(ln)
        s.op("read_file", '"w_0.vnacal"')
        rr = run_cases(binary, [("cf", s.text())], wd)["cf"]
        ce = rr.events[-1] if rr.events else None
        if ce is not None and ce.get("ret"):
            ytext = ce["ret"].encode("latin-1")
    desc = ("%s route: the tree read back differs from the tree written\n"
            "tree      : %s\nat %s\n  before: %r\n  after : %r\n"
            "written text:\n%s" % (
                {"getters": "dump through type/keys/quote_key/get_subtree "
                            "before the export",
                 "file": "export_yaml_to_file -> import_yaml_from_file",
                 "string": "export_yaml_to_file -> import_yaml_from_string",
                 "calfile": "vnacal_save -> vnacal_load (global properties)"
                 }[route], M.show(doc)[:800], path, before, after,
                ytext.decode("latin-1")[:1500]))
    return dict(key=key, desc=desc, script=script)


# ----------------------------------------------------------------------
def fixed_chunk(chunk_id, payload):
    """every single atom as a root scalar, as a map value, as a list item and
    as a map key: the systematic part"""
    seed, tier, binary, workroot, _ = payload
    part = new_part()
    wd = os.path.join(workroot, "f%d" % chunk_id)
    atoms = []
    for name, pool, _w in CLASSES:
        atoms += pool
    atoms.append(b"")
    docs = []
    for a in atoms:
        docs.append(a)
        docs.append({b"k": a})
        docs.append([a, a])
        if a:
            docs.append({a: b"v"})
            docs.append({a: None, b"z": [{a: a}]})
    docs += [None, {}, [], [None], {b"n": None}, [[]], [{}], {b"e": {}},
             {b"l": []}, [[], [[]], {}], {b"a": {b"b": {b"c": {b"d": {b"e":
              {b"f": b"6"}}}}}}, [[[[[[b"6"]]]]]]]
    seen = set()
    for b0 in range(0, len(docs), 250):
        judge_batch(binary, wd, docs[b0:b0 + 250], part, seen, "f%d" % b0,
                    minimise=False)
    bump(part, "fixed_trees", len(docs))
    return part


def dispatch(chunk_id, payload):
    if payload[0] == "F":
        return fixed_chunk(chunk_id, payload[1:])
    return tree_chunk(chunk_id, payload[1:])


def main():
    chk = R.Check(PROP)
    binary = chk.build("asan")
    quick = chk.tier == "quick"
    total = int((6000 if quick else 100000) * chk.args.scale)
    nchunks = 16 if quick else 64
    per = max(1, total // nchunks)
    payloads = [("F", chk.seed, chk.tier, binary, chk.workroot, 0)]
    payloads += [("T", chk.seed, chk.tier, binary, chk.workroot, per)
                 for _ in range(nchunks)]
    for part in R.pmap(dispatch, payloads):
        chk.merge(part)
    chk.finish(
        rule="random trees (depth <= 6, <= 120 nodes) whose keys and scalars "
             "are drawn from 10 classes of hostile text (words, YAML "
             "punctuation, leading/trailing/multiple spaces, newlines, tabs, "
             "null/bool/number look-alikes, control characters, NEL/LS/PS/BOM, "
             "multi-byte UTF-8, > 80 columns) and concatenations of them, "
             "plus a fixed part with every atom alone as root scalar, map "
             "value, list item and map key; each tree is built through "
             "vnaproperty_set/set_subtree, dumped, exported, re-imported from "
             "the file and from the exported text, and attached to a vnacal_t "
             "that is saved and loaded.  distinct = distinct trees "
             "(canonical text) that were dumped and round-tripped.",
        min_events=100,
        assumptions=[
            "valid UTF-8 only (C09 covers invalid byte strings); NUL cannot "
            "occur in a C string",
            "the empty key is excluded: it cannot be created through a "
            "descriptor",
            "trees are observed through the public getters only "
            "(dump_property); map key order is recorded, the key set asserted",
            "per-calibration property roots need a solved calibration and are "
            "not exercised; the global root (ci = -1) is",
            "vnacal_property_set_subtree + vnaproperty_copy attaches the tree;"
            " when the copy itself alters the tree (C13 finding) the round "
            "trip of the attached tree is what is judged"])


if __name__ == "__main__":
    main()
