#!/usr/bin/env python3-vt
"""C15: vnadata_t behaves like a typed frequency x rows x columns array with
z0 modes.

Monitor: operation histories are executed by the scripted driver (public API
only, inline accessors compiled from /repo/src/vnadata.h) under ASan/UBSan;
after every operation the return value / errno class and a full dump of the
object(s) through the public getters are compared with pylib/datamodel.py,
an abstract array model written from vnadata(3).  Two workloads:

  exhaustive  every sequence of 4 symbolic operations from a 32-letter
              alphabet over dimensions 0..3 (thorough: all 32^4; quick: a
              seeded 1/40 sample), each followed by boundary-index probes and
              a resize to 3x3x3 that exposes whatever the history left in
              storage that is not visible
  random      histories of ~300 operations over dimensions 0..6, two objects,
              all 11 types, indices from {-1, 0, n-1, n, n+1} and valid ones,
              conversions (in place and into the other object) interleaved
"""
import os
import sys

import numpy as np

sys.path.insert(0, os.path.join(os.path.dirname(os.path.abspath(__file__)),
                                "..", "pylib"))
import datamodel as DM  # noqa: E402
import runner as R  # noqa: E402

PROP = "C15"
ALPHA = 32
DEPTH = 4


# ----------------------------------------------------------------------
# the symbolic alphabet of the bounded-exhaustive workload
# ----------------------------------------------------------------------
def _fill(vd, name, fz):
    """macro: give every visible frequency, cell and impedance a distinct
    non-initial value"""
    ops = []
    F, cells, ports = vd.F, vd.cells, vd.ports
    ops.append(("vnadata_set_frequency_vector", name,
                [1000.0 + 10 * f for f in range(F)]))
    for f in range(F):
        ops.append(("vnadata_set_matrix", name, f,
                    [complex(100 * (f + 1) + k + 1, -(k + 1))
                     for k in range(cells)]))
    if fz:
        for f in range(F):
            ops.append(("vnadata_set_fz0_vector", name, f,
                        [complex(60 + 10 * f + p, p + 1) for p in range(ports)]))
    else:
        ops.append(("vnadata_set_z0_vector", name,
                    [complex(70 + p, -(p + 1)) for p in range(ports)]))
    return ops


def letter(k, vd):
    """the k-th symbolic operation resolved against the current state of v"""
    T = DM
    F, rows, cols, ports = vd.F, vd.rows, vd.cols, vd.ports
    v = "v"
    table = {
        0: lambda: [("vnadata_init", v, T.T_S, 2, 2, 2)],
        1: lambda: [("vnadata_init", v, T.T_UNDEF, 3, 2, 1)],
        2: lambda: [("vnadata_init", v, T.T_ZIN, 1, 3, 3)],
        3: lambda: [("vnadata_resize", v, T.T_UNDEF, 0, 0, 0)],
        4: lambda: [("vnadata_resize", v, T.T_S, 1, 1, 1)],
        5: lambda: [("vnadata_resize", v, T.T_Z, 3, 3, 3)],
        6: lambda: [("vnadata_resize", v, T.T_T, 2, 2, 1)],
        7: lambda: [("vnadata_resize", v, T.T_UNDEF, 2, 2, 3)],
        8: lambda: [("vnadata_resize", v, T.T_UNDEF, 3, 1, 2)],
        9: lambda: [("vnadata_resize", v, T.T_UNDEF, 1, 3, 2)],
        10: lambda: [("vnadata_resize", v, T.T_Y, 2, 2, 2)],
        11: lambda: [("vnadata_resize", v, T.T_S, 2, 3, 1)],
        12: lambda: [("vnadata_resize", v, vd.type, rows, cols, min(F + 1, 3))],
        13: lambda: [("vnadata_resize", v, vd.type, rows, cols, max(F - 1, 0))],
        14: lambda: [("vnadata_set_type", v, T.T_S)],
        15: lambda: [("vnadata_add_frequency", v, 7.0)],
        16: lambda: _fill(vd, v, False),
        17: lambda: _fill(vd, v, True),
        18: lambda: [("vnadata_set_z0", v, ports - 1, 33 + 1j)],
        19: lambda: [("vnadata_set_z0", v, ports, 34 + 2j)],
        20: lambda: [("vnadata_set_all_z0", v, 75 + 0j)],
        21: lambda: [("vnadata_set_fz0", v, F - 1, ports - 1, 35 + 3j)],
        22: lambda: [("vnadata_set_fz0", v, F, 0, 36 + 4j)],
        23: lambda: [("vnadata_set_fz0", v, 0, ports, 37 + 5j)],
        24: lambda: [("vnadata_set_cell", v, F - 1, rows - 1, cols - 1, 9 + 9j)],
        25: lambda: [("vnadata_set_cell", v, 0, rows, 0, 8 + 8j)],
        26: lambda: [("vnadata_set_cell", v, 0, 0, cols, 7 + 7j)],
        27: lambda: [("vnadata_set_cell", v, F, 0, 0, 6 + 6j)],
        28: lambda: [("vnadata_convert", v, v, T.T_ZIN)],
        29: lambda: [("vnadata_convert", v, v, T.T_Z)],
        30: lambda: [("vnadata_convert", v, "w", T.T_S)],
        31: lambda: [("vnadata_convert", v, "w", T.T_ZIN)],
    }
    return table[k]()


def probes(vd, name):
    F, rows, cols, ports = vd.F, vd.rows, vd.cols, vd.ports
    n = name
    return [
        ("vnadata_get_cell", n, F, 0, 0), ("vnadata_get_cell", n, 0, rows, 0),
        ("vnadata_get_cell", n, 0, 0, cols),
        ("vnadata_get_cell", n, F - 1, rows - 1, cols - 1),
        ("vnadata_get_frequency", n, F), ("vnadata_get_matrix", n, F),
        ("vnadata_get_to_vector", n, rows, 0),
        ("vnadata_get_to_vector", n, 0, cols),
        ("vnadata_get_z0", n, ports), ("vnadata_get_z0", n, ports - 1),
        ("vnadata_get_fz0", n, F, 0), ("vnadata_get_fz0", n, 0, ports),
        ("vnadata_get_fz0", n, F - 1, ports - 1),
        ("vnadata_get_fz0_vector", n, F), ("vnadata_get_fz0_vector", n, F - 1),
        ("vnadata_get_z0_vector", n), ("vnadata_has_fz0", n),
    ]


def full_probes(vd, name):
    """every getter at every boundary index (used in the random histories)"""
    F, rows, cols, ports = vd.F, vd.rows, vd.cols, vd.ports
    n = name
    ops = []

    def five(k):
        return sorted({-1, 0, k - 1, k, k + 1})
    for i in five(F):
        ops += [("vnadata_get_cell", n, i, 0, 0), ("vnadata_get_frequency", n, i),
                ("vnadata_get_matrix", n, i), ("vnadata_get_fz0", n, i, 0),
                ("vnadata_get_fz0_vector", n, i)]
    for i in five(rows):
        ops += [("vnadata_get_cell", n, 0, i, 0),
                ("vnadata_get_to_vector", n, i, 0)]
    for i in five(cols):
        ops += [("vnadata_get_cell", n, 0, 0, i),
                ("vnadata_get_to_vector", n, 0, i)]
    for i in five(ports):
        ops += [("vnadata_get_z0", n, i), ("vnadata_get_fz0", n, 0, i)]
    ops += [("vnadata_get_z0_vector", n), ("vnadata_get_frequency_vector", n),
            ("vnadata_get_fmin", n), ("vnadata_get_fmax", n),
            ("vnadata_has_fz0", n), ("vnadata_get_rows", n),
            ("vnadata_get_columns", n), ("vnadata_get_frequencies", n),
            ("vnadata_get_type", n)]
    return ops


# ----------------------------------------------------------------------
# case construction
# ----------------------------------------------------------------------
class Case(object):
    def __init__(self, mon, gen):
        self.mon = mon
        self.gen = gen
        self.script = R.Script()
        self.first = mon.prologue(self.script)
        self.steps = []
        self.nops = 0

    def add(self, op, dump=None):
        if dump is None:
            dump = op[0] in DM.MUTATORS
        ln, dl = DM.emit(self.script, op, dump)
        self.steps.append((op, ln, dl))
        self.gen.advance(op)
        self.nops += 1
        # forced re-synchronisation (outcome left open by the manual)
        while self.gen.pending:
            f = self.gen.pending.pop(0)
            ln, dl = DM.emit(self.script, f, True)
            self.steps.append((f, ln, dl))
            self.gen.advance(f)


def exhaustive_case(mon, idx, rng):
    gen = DM.Gen(rng, maxdim=3)
    case = Case(mon, gen)
    digits = []
    k = idx
    for _ in range(DEPTH):
        digits.append(k % ALPHA)
        k //= ALPHA
    for d in digits:
        for op in letter(d, gen.M["v"]):
            case.add(op)
    for op in probes(gen.M["v"], "v"):
        case.add(op, dump=False)
    # expose everything the history left behind
    case.add(("vnadata_resize", "v", DM.T_UNDEF, 3, 3, 3))
    case.add(("vnadata_resize", "w", DM.T_UNDEF, 3, 3, 3))
    return case, digits


def random_case(mon, rng, depth, maxdim, cellless=False):
    gen = DM.Gen(rng, maxdim=maxdim)
    if cellless:
        # an object that never holds a matrix cell: every shape it is given
        # has no rows or no columns (it still has ports, frequencies and
        # reference impedances) until the final resize exposes what is left
        def shape(vd, gen=gen):
            n = gen.dim(max(vd.rows, vd.cols), 1)
            return (DM.T_UNDEF, 0, n) if rng.random() < 0.5 else \
                (DM.T_UNDEF, n, 0)
        gen.shape = shape
    case = Case(mon, gen)
    since_dump = 0
    while case.nops < depth:
        op = gen.next_ops()
        mut = op[0] in DM.MUTATORS
        # getters must not disturb anything: dump after some of them as well
        since_dump = 0 if mut else since_dump + 1
        case.add(op, dump=mut or since_dump >= 8)
        if since_dump >= 8:
            since_dump = 0
        if rng.random() < 0.01:
            o = "v" if rng.random() < 0.7 else "w"
            for p in full_probes(gen.M[o], o):
                case.add(p, dump=False)
    for o in ("v", "w"):
        for p in full_probes(gen.M[o], o):
            case.add(p, dump=False)
        case.add(("vnadata_resize", o, DM.T_UNDEF, maxdim, maxdim, maxdim))
    return case


# ----------------------------------------------------------------------
# worker
# ----------------------------------------------------------------------
def run_chunk(chunk_id, payload):
    kind, seed, tier, binary, workroot, params = payload
    part = dict(evaluations=0, counters={}, maxima={}, distinct=set(),
                samples=[], violations=[], inconclusive=[], harness_errors=[])
    cnt = part["counters"]
    mon = DM.Monitor(PROP)
    cases = []
    info = {}
    if kind == "exh":
        for idx in params:
            rng = np.random.default_rng([seed, 15, 1, idx])
            case, digits = exhaustive_case(mon, idx, rng)
            cid = "x%d" % idx
            cases.append((cid, case.script.text()))
            info[cid] = (case, ("exh", tuple(digits)))
    else:
        ncase, depth, maxdim = params
        for i in range(ncase):
            rng = np.random.default_rng([seed, 15, 2, chunk_id, i])
            case = random_case(mon, rng, depth, maxdim,
                               cellless=(i % 5 == 4))
            cid = "r%d.%d" % (chunk_id, i)
            cases.append((cid, case.script.text()))
            info[cid] = (case, ("rnd", chunk_id, i))
    wd = os.path.join(workroot, "w%d" % chunk_id)
    results = R.run_cases(binary, cases, wd, timeout=1800)
    stats = {}
    for cid, text in cases:
        res = results[cid]
        case, ident = info[cid]
        viol, judged, last_line, M = mon.judge(res, text, case.steps,
                                               case.first, stats)
        part["evaluations"] += judged
        cnt["cases_" + kind] = cnt.get("cases_" + kind, 0) + 1
        if judged:
            part["distinct"].add((kind, DM.text_id(text)))
        sv, inc = R.standard_violations(res, text, PROP)
        lines = text.split("\n")
        for v in sv:
            # reports after the first divergence from the model may be caused
            # by buffers sized for the model's state: not counted
            m = None
            tool = ""
            for r in res.reports:
                if r["key"] == v["key"]:
                    m = r.get("i")
                    tool = r["tool"]
                    break
            if viol is not None and tool != "lsan" and \
                    (v["key"].startswith(("asan:", "ubsan:", "abort:",
                                          "crash:")) and
                     (m is None or m > viol["line"])):
                cnt["reports_after_divergence"] = \
                    cnt.get("reports_after_divergence", 0) + 1
                continue
            if m is not None:
                v = dict(v, script="\n".join(lines[:m]) + "\n")
            part["violations"].append(v)
        part["inconclusive"] += inc
        if viol is not None:
            part["violations"].append(viol)
        if len(part["samples"]) < 1 and judged > 6:
            part["samples"].append(dict(
                workload=kind, ident=str(ident),
                operations=[DM.op_text(op) for op, _, _ in case.steps[:12]],
                operations_total=len(case.steps),
                final_state={o: M[o].brief() for o in M}))
    for k, v in stats.items():
        cnt[k] = cnt.get(k, 0) + v
    return part


def main():
    chk = R.Check(PROP)
    binary = DM.private_copy(chk.build("asan"), chk.workroot)
    scale = chk.args.scale
    total = ALPHA ** DEPTH
    payloads = []
    if chk.tier == "quick":
        rng = np.random.default_rng([chk.seed, 15, 0])
        nsel = max(16, int(total / 40 * scale))
        sel = sorted(int(x) for x in rng.choice(total, size=nsel, replace=False))
        nrand, depth = max(1, int(12 * scale)), 300
        exhaustive = False
    else:
        nsel = total if scale >= 1.0 else max(16, int(total * scale))
        sel = list(range(total)) if nsel == total else sorted(
            int(x) for x in np.random.default_rng([chk.seed, 15, 0]).choice(
                total, size=nsel, replace=False))
        nrand, depth = max(1, int(120 * scale)), 300
        exhaustive = nsel == total
    nx = 64 if chk.tier == "quick" else 512
    step = (len(sel) + nx - 1) // nx
    for i in range(0, len(sel), step):
        payloads.append(("exh", chk.seed, chk.tier, binary, chk.workroot,
                         sel[i:i + step]))
    for i in range(32):
        payloads.append(("rnd", chk.seed, chk.tier, binary, chk.workroot,
                         (nrand, depth, 6)))
    # longest jobs first
    payloads.sort(key=lambda p: 0 if p[0] == "rnd" else 1)
    for part in R.pmap(run_chunk, payloads):
        chk.merge(part)
    # compact per-function counters
    per_fn = {}
    for k in list(chk.counters):
        if k.startswith("ok:") or k.startswith("refused:") or \
                k.startswith("why:"):
            per_fn[k] = chk.counters.pop(k)
    chk.counters["operations_accepted"] = sum(
        v for k, v in per_fn.items() if k.startswith("ok:"))
    chk.counters["operations_refused"] = sum(
        v for k, v in per_fn.items() if k.startswith("refused:"))
    chk.counters["functions_exercised"] = len(
        {k.split(":", 1)[1] for k in per_fn if not k.startswith("why:")})
    chk.finish(
        rule="histories of public vnadata calls on two objects judged after "
             "every call (return value, errno on refusal, full dump through "
             "the getters) against the array model of vnadata(3). exhaustive: "
             "sequences of 4 letters from a 32-letter symbolic alphabet "
             "(init/resize/set_type/add_frequency/fill/z0/fz0/cell setters at "
             "n-1 and n, conversions) over dims 0..3 + boundary probes + a "
             "final resize to 3x3x3 (quick: seeded sample of 1/40, thorough: "
             "all 32^4). random: ~300-operation histories over dims 0..6, all "
             "11 types, indices from {-1,0,n-1,n,n+1} or valid. evaluations = "
             "operations judged; distinct = distinct script texts with at "
             "least one judged operation.",
        min_events=1000,
        assumptions=["model transcribed from vnadata(3) and the notes in "
                     "vnadata.h; behaviour the manual leaves open is accepted "
                     "either way (failed init, negative add_frequency, "
                     "fmin/fmax of unsorted vectors, findex of get_fz0* in z0 "
                     "mode, Zin of width 0, conversions of 0x0 matrices)",
                     "values produced by conversions are taken from the "
                     "observation (C05 judges them)"],
        extra=dict(exhaustive=exhaustive, per_function=per_fn,
                   alphabet=ALPHA, depth=DEPTH))


if __name__ == "__main__":
    main()
