#!/usr/bin/env python3-vt
"""C17: equivalent ways of describing the same calibration give the same
result (metamorphic monitoring).

Pairs of scenarios related by ONE transformation are run through the real
library; the corrected S-parameters of the same device measurement must agree.
Noisy (inconsistent, over-determined) measurements are used wherever the
transformation leaves the least-squares problem itself unchanged, so that a
dependence on entry point, order, a/b scaling or unrelated objects shows up
even when exact data would hide it; exact data are used for full-vs-abbreviated
matrices and port renumbering, as the property states.
"""
import copy
import os
import sys

import numpy as np

sys.path.insert(0, os.path.join(os.path.dirname(os.path.abspath(__file__)),
                                "..", "pylib"))
sys.path.insert(0, os.path.dirname(os.path.abspath(__file__)))
import calgen  # noqa: E402
import physics  # noqa: E402
import runner as R  # noqa: E402
from runner import Script, cx, qs  # noqa: E402

PROP = "C17"
TOL = 1e-12
TRANSFORMS = ["entry", "abbrev", "order", "abscale", "unrelated", "split_f",
              "e12_ue14", "renumber", "shared"]


def base_scenario(rng, ctype, r, c, F, form, noisy, offgrid=False):
    for _ in range(8):
        sc = calgen.Scenario(ctype, r, c, F, rng, form=form)
        if offgrid:
            # frequency-dependent standards on their own grids of 6..10
            # knots whose values follow no simple law
            sc.offgrid, sc.offgrid_prob = True, 0.6
            sc.offgrid_knots, sc.offgrid_rough = (7, 13), 0.05
            # ... reaching far beyond the band on both sides, so that the
            # calibration frequencies sit in the middle of the knots
            sc.offgrid_margin = float(rng.uniform(0.6, 1.5))
        if max(r, c) >= 3 and rng.random() < (0.9 if max(r, c) >= 4 else 0.5):
            # multi-port standards with a one-way (non-reciprocal) zero
            # pattern: which side of the diagonal a non-zero cell lands on
            # then depends on the port numbering and on the port map
            sc.pre_sparse = int(rng.integers(1, 3))
        sc.sufficient_recipe(extras=int(rng.integers(1, 4)))
        sc.choose_entries()
        ok, kappa = sc.well_determined(1e3)
        if ok:
            if noisy:
                sc.add_noise(1e-3)
            return sc, kappa
    return None, None


def rechoose_entries(sc, rng):
    for s in sc.stds:
        cands = ["mapped_matrix"]
        if s.n == 1:
            cands.append("single_reflect")
        if s.n == 2:
            cands.append("line")
            if s.is_diag():
                cands.append("double_reflect")
            if s.is_through():
                cands.append("through")
        others = [e for e in cands if e != s.entry] or cands
        s.entry = str(rng.choice(others))
        s.use_null_map = False


def flip_abbrev(sc, rng):
    changed = 0
    for s in sc.stds:
        if getattr(s, "must_full", False):
            continue
        low_r = all(q <= sc.r for q in s.ports)
        low_c = all(q <= sc.c for q in s.ports)
        if sc.ctype != "U16" and low_r and s.n < sc.r:
            s.full_rows = not s.full_rows
            changed += 1
        if sc.ctype != "T16" and low_c and s.n < sc.c:
            s.full_cols = not s.full_cols
            changed += 1
        s.A = None
    return changed


def permute_enet(en, perm):
    """error network as seen after renaming VNA port i -> perm[i]"""
    p = en.p
    P = np.zeros((p, p))
    for i in range(p):
        P[perm[i], i] = 1.0
    e2 = copy.copy(en)
    if en.ctype in physics.COLUMN_TYPES:
        cols = [None] * en.c
        for k, (el, er, em, et) in enumerate(en.cols):
            cols[perm[k]] = (P @ el, P @ er @ P.T, P @ em @ P.T, et)
        e2.cols = cols
    else:
        e2.El = P @ en.El @ P.T
        e2.Er = P @ en.Er @ P.T
        e2.Et = P @ en.Et @ P.T
        e2.Em = P @ en.Em @ P.T
    return e2, P


def emit(sc, duts, extra_before=None, name="cal", extra_between=None):
    sc.reset_vars()
    s = Script()
    lines = {}
    sc.emit_header(s)
    if extra_before:
        extra_before(s)
    uid = [0]
    lines["add"] = []
    for i, st in enumerate(sc.stds):
        if extra_between:
            extra_between(s, i)
        lines["add"].append(sc.emit_std(s, st, i, uid=uid))
    lines["solve"] = s.op("vnacal_new_solve $vn")
    lines["addcal"] = s.op("ci=vnacal_add_calibration $vc %s $vn" % qs(name))
    s.op("vd=vnadata_alloc")
    lines["apply"], lines["dump"] = sc.emit_apply(s, duts, name, form="m")
    return s, lines


def emit_shared(sc, duts, name="cal"):
    """the same calibration entered twice in one vnacal_t, the second time
    through a new vnacal_new_t but with the SAME parameter handles: the first
    one is the "unrelated calibration" of the property, and it has evaluated
    every frequency-dependent standard up to the top of the band before the
    second one starts at the bottom"""
    sc.reset_vars()
    s = Script()
    lines = {}
    sc.emit_header(s, vn="vfirst")
    uid = [0]
    for i, st in enumerate(sc.stds):
        sc.emit_std(s, st, 500 + i, vn="vfirst", uid=uid)
    s.op("vnacal_new_solve $vfirst")
    s.op("cfirst=vnacal_add_calibration $vc \"first\" $vfirst")
    sc.emit_header(s, create=False)
    lines["add"] = []
    for i, st in enumerate(sc.stds):
        lines["add"].append(sc.emit_std(s, st, i, uid=uid))
    lines["solve"] = s.op("vnacal_new_solve $vn")
    lines["addcal"] = s.op("ci=vnacal_add_calibration $vc %s $vn" % qs(name))
    s.op("vd=vnadata_alloc")
    lines["apply"], lines["dump"] = sc.emit_apply(s, duts, name, form="m")
    return s, lines


def unrelated(rng):
    def fn(s):
        s.op("zz1=vnacal_make_scalar_parameter $vc %s" % cx(0.3 + 0.1j))
        s.rvec("zzf", [1e8, 5e10])
        s.cvec("zzg", [0.1, 0.2j])
        s.op("zz2=vnacal_make_vector_parameter $vc @zzf 2 @zzg")
        s.op("zz3=vnacal_make_unknown_parameter $vc $zz1")
        s.op("vnacal_delete_parameter $vc $zz1")
        s.op("zn=vnacal_new_alloc $vc T8 1 1 1")
        s.rvec("zzq", [1e9])
        s.op("vnacal_new_set_frequency_vector $zn @zzq")
        for k, v in enumerate((0.1 + 0.2j, 0.5 - 0.2j, -0.4 + 0.3j)):
            s.cmat("zzm%d" % k, [[v]])
            s.op("vnacal_new_add_single_reflect_m $zn @zzm%d 1 1 %d 1" % (k, k))
        s.op("vnacal_new_solve $zn")
        s.op("vnacal_add_calibration $vc \"other\" $zn")
        s.op("vnacal_add_calibration $vc \"other2\" $zn")
        s.op("vnacal_delete_calibration $vc 0")
        if rng.random() < 0.5:
            s.op("vnacal_new_free $zn")
        s.op("vnacal_property_set $vc -1 \"x.y=1\"")
    return fn


def unrelated_between(rng):
    """parameters of other calibrations created between those of this one:
    the handles the calibration sees are no longer consecutive"""
    burst = [int(x) for x in rng.integers(0, 14, 64)]

    def fn(s, i):
        for j in range(burst[i % len(burst)]):
            s.op("yy%d_%d=vnacal_make_scalar_parameter $vc %s" % (
                i, j, cx(0.01 * (i + 1) + 0.02j * (j + 1))))
    return fn


def get_S(res, lines, sc):
    for ln in lines["add"]:
        e = res.ev(ln)
        if e is None or e.get("ret") != 0:
            return None, "add failed: %s" % e
    e = res.ev(lines["solve"])
    if e is None or e.get("ret") != 0:
        return None, "solve failed: %s" % e
    e = res.ev(lines["apply"])
    if e is None or e.get("ret") != 0:
        return None, "apply failed: %s" % e
    d = res.ev(lines["dump"])
    if d is None or "out" not in d:
        return None, "no dump"
    p = sc.p
    return [np.array([complex(a, b) for a, b in d["out"]["data"][f]]).reshape(p, p)
            for f in range(d["out"]["F"])], None


def work(chunk_id, payload):
    seed, npairs, binary, workroot = payload
    rng = np.random.default_rng([seed, chunk_id, 1717])
    part = dict(evaluations=0, counters={}, maxima={}, distinct=set(),
                samples=[], violations=[], inconclusive=[], harness_errors=[])
    cnt = part["counters"]
    cases, meta = [], {}
    for k in range(npairs):
        tr = TRANSFORMS[(chunk_id + k) % len(TRANSFORMS)]
        ctype = str(rng.choice(physics.TYPES))
        if tr == "e12_ue14":
            ctype = "E12"
        p = int(rng.choice([1, 2, 2, 3, 3, 4]))
        if tr in ("renumber", "abbrev", "entry") and p == 1:
            p = 2
        if tr == "renumber" and rng.random() < 0.5:
            # three ports on a type that keeps leakage terms outside the
            # linear system: the port grouping of sparse standards matters
            # (four ports: port groups can form and merge in more than one
            # order while a standard's cells are scanned)
            p = 3 if rng.random() < 0.55 else 4
            ctype = physics.LEAKAGE_OUTSIDE[int(rng.integers(0, 4))]
        r = c = p
        if tr not in ("renumber",) and rng.random() < 0.2 and p == 2:
            if ctype in physics.T_TYPES:
                r = 1
            else:
                c = 1
        F = int(rng.choice([1, 2, 3]))
        if tr == "split_f":
            F = int(rng.choice([2, 3]))
        if tr == "shared":
            F = int(rng.choice([2, 3, 5]))
            p = r = c = min(p, 2)
        form = "ab" if tr == "abscale" else \
            ("m" if rng.random() < 0.5 else "ab")
        noisy = tr in ("entry", "order", "abscale", "unrelated", "split_f",
                       "e12_ue14", "shared")
        if tr == "order" and rng.random() < 0.3:
            # the analytic through / reflect / line case (two unknowns): the
            # three standards in every order
            import C02
            ctype = ["T8", "U8", "TE10", "UE10"][int(rng.integers(0, 4))]
            r = c = p = 2
            A, _unk = C02.trl_scenario(rng, ctype, F)
            kappa = 100.0
            cnt["order_trl_pairs"] = cnt.get("order_trl_pairs", 0) + 1
        else:
            A, kappa = base_scenario(rng, ctype, r, c, F, form, noisy,
                                     offgrid=(tr == "shared"))
        if A is None:
            cnt["skipped_not_well_determined"] = cnt.get(
                "skipped_not_well_determined", 0) + 1
            continue
        if tr == "unrelated" and rng.random() < 0.7:
            # an unknown reflect seen by the first and by the last standard
            # added: its handle is looked up again after everything else of
            # this calibration has been entered
            truth = (rng.standard_normal() + 1j * rng.standard_normal()) * 0.5 \
                + 0.05 * (rng.standard_normal(F) + 1j * rng.standard_normal(F))
            gs = calgen.Param("scalar", np.full(
                F, np.mean(truth) + 0.02 * (rng.standard_normal() + 1j *
                                            rng.standard_normal())))
            unk = calgen.Param.unknown(truth, gs)
            q1, q2 = int(rng.integers(1, A.p + 1)), int(rng.integers(1, A.p + 1))
            first = A.add_reflect([q1], [unk])
            last = A.add_reflect([q2], [unk])
            A.stds = [first] + A.stds[:-2] + [last]
            for st in (first, last):
                st.form = A.form
                st.entry = "single_reflect"
                st.noise = [(rng.standard_normal((A.r, A.c)) + 1j *
                             rng.standard_normal((A.r, A.c))) *
                            (1e-3 / np.sqrt(2.0)) for _ in range(F)]
            cnt["unrelated_with_unknown"] = cnt.get(
                "unrelated_with_unknown", 0) + 1
        duts = A.rand_dut()
        # pre-generate the a matrices of A (emission is lazy) so that B can
        # share or transform them
        dummy, _ = emit(A, duts)
        Bs = []           # list of (scenario, duts, extra, postmap)
        B = copy.deepcopy(A)
        post = None
        if tr == "entry":
            rechoose_entries(B, rng)
        elif tr == "abbrev":
            if flip_abbrev(B, rng) == 0:
                cnt["abbrev_nothing_to_flip"] = cnt.get(
                    "abbrev_nothing_to_flip", 0) + 1
                continue
        elif tr == "order":
            order = rng.permutation(len(B.stds))
            B.stds = [B.stds[i] for i in order]
        elif tr == "abscale":
            for st in B.stds:
                newA = []
                for f in range(B.F):
                    a = st.A[f]
                    n = a.shape[1]
                    if B.ctype in physics.COLUMN_TYPES:
                        d = (rng.standard_normal(n) + 1j *
                             rng.standard_normal(n)) * 10 ** rng.uniform(-2, 2)
                        newA.append(a * d[None, :])
                    else:
                        D = (rng.standard_normal((n, n)) + 1j *
                             rng.standard_normal((n, n))) + 2 * np.eye(n)
                        newA.append(a @ D * 10 ** rng.uniform(-2, 2))
                st.A = newA
        elif tr == "unrelated":
            pass
        elif tr == "e12_ue14":
            B.ctype = "UE14"
            for en in B.enet:
                en.ctype = "UE14"
        elif tr == "renumber":
            perm = list(rng.permutation(B.p))
            if perm == sorted(perm):
                perm = perm[1:] + perm[:1]
            Pm = None
            B.enet = []
            for en in A.enet:
                e2, Pm = permute_enet(en, perm)
                B.enet.append(e2)
            for st in B.stds:
                st.ports = [perm[q - 1] + 1 for q in st.ports]
                st.term = [Pm @ t for t in st.term]
                st.A = None
                st.use_null_map = False
                if st.entry == "mapped_matrix" and st.n == B.p:
                    pass
            dutsB = [Pm @ d @ Pm.T for d in duts]
            post = Pm
        cid = "t%d_%d" % (chunk_id, k)
        sA, lA = emit(A, duts)
        if tr == "split_f":
            # B: one single-frequency calibration per frequency
            subs = []
            for f in range(A.F):
                Bf = copy.deepcopy(A)
                Bf.F = 1
                Bf.freqs = A.freqs[f:f + 1]
                Bf.enet = [Bf.enet[f]]
                for st in Bf.stds:
                    for row in st.sp:
                        for prm in row:
                            prm.values = prm.values[f:f + 1]
                            if prm.kind == "vector":
                                prm.kind = "scalar"
                    st.term = [st.term[f]]
                    if getattr(st, "noise", None) is not None:
                        st.noise = [st.noise[f]]
                    if st.A is not None:
                        st.A = [st.A[f]]
                sB, lB = emit(Bf, [duts[f]])
                subs.append((Bf, sB, lB))
            cases.append((cid + "a", sA.text()))
            for f, (Bf, sB, lB) in enumerate(subs):
                cases.append((cid + "b%d" % f, sB.text()))
            meta[cid] = (tr, A, kappa, lA, [(x[0], x[2]) for x in subs], None,
                         sA.text(), [x[1].text() for x in subs])
        elif tr == "shared":
            sB, lB = emit_shared(B, duts)
            cases.append((cid + "a", sA.text()))
            cases.append((cid + "b", sB.text()))
            meta[cid] = (tr, A, kappa, lA, [(B, lB)], post, sA.text(),
                         [sB.text()])
            cnt["shared_offgrid_parameters"] = cnt.get(
                "shared_offgrid_parameters", 0) + sum(
                    1 for st in A.stds for row in st.sp for q in row
                    if getattr(q, "pfreqs", None) is not None)
        else:
            sB, lB = emit(B, dutsB if tr == "renumber" else duts,
                          extra_before=unrelated(rng) if tr == "unrelated"
                          else None,
                          extra_between=unrelated_between(rng)
                          if tr == "unrelated" else None)
            cases.append((cid + "a", sA.text()))
            cases.append((cid + "b", sB.text()))
            meta[cid] = (tr, A, kappa, lA, [(B, lB)], post, sA.text(),
                         [sB.text()])
    wd = os.path.join(workroot, "w%d" % chunk_id)
    results = R.run_cases(binary, cases, wd, timeout=1800)
    texts = dict(cases)
    for cid, (tr, A, kappa, lA, Bl, post, tA, tBs) in meta.items():
        resA = results[cid + "a"]
        v, inc = R.standard_violations(resA, tA, PROP)
        part["violations"] += v
        part["inconclusive"] += inc
        SA, errA = get_S(resA, lA, A)
        outs = []
        ok = SA is not None
        errB = None
        for j, (B, lB) in enumerate(Bl):
            bid = cid + ("b%d" % j if tr == "split_f" else "b")
            resB = results[bid]
            v, inc = R.standard_violations(resB, texts[bid], PROP)
            part["violations"] += v
            part["inconclusive"] += inc
            SB, e_ = get_S(resB, lB, B)
            if SB is None:
                ok = False
                errB = e_
            outs.append(SB)
        both = "# ---- run A\n" + tA + "".join(
            "# ---- run B\n" + t for t in tBs)

        def bad(what, desc):
            part["violations"].append(dict(
                key="%s:%s:%s" % (PROP, tr, what),
                desc="%s %s %dx%d F=%d form=%s: %s" % (
                    tr, A.ctype, A.r, A.c, A.F, A.form, desc),
                script=both))
        if not ok:
            if (SA is None) != any(o is None for o in outs):
                bad("one-side-fails", "one description is accepted / solved "
                    "and the other is not: A: %s  B: %s" % (errA, errB))
            else:
                cnt["both_failed"] = cnt.get("both_failed", 0) + 1
            continue
        part["evaluations"] += 1
        part["distinct"].add((tr, A.ctype, A.r, A.c, A.form))
        cnt["pairs:" + tr] = cnt.get("pairs:" + tr, 0) + 1
        if tr == "split_f":
            SB = [o[0] for o in outs]
        else:
            SB = outs[0]
            if post is not None:
                SB = [post.T @ x @ post for x in SB]
        worst = max(float(np.max(np.abs(a - b))) if
                    np.all(np.isfinite(a)) and np.all(np.isfinite(b))
                    else float("inf") for a, b in zip(SA, SB))
        rel = worst / (TOL * (1 + kappa))
        part["maxima"]["max_diff_over_tol:" + tr] = max(
            part["maxima"].get("max_diff_over_tol:" + tr, 0.0), rel)
        if not (rel <= 1.0):
            bad("results-differ", "applied S-parameters differ by %.3g "
                "(kappa %.3g, tolerance %.3g)" % (worst, kappa,
                                                  TOL * (1 + kappa)))
        if len(part["samples"]) < 1:
            part["samples"].append(dict(transform=tr, type=A.ctype, rows=A.r,
                                        cols=A.c, F=A.F, form=A.form,
                                        max_difference=worst))
    return part


def main():
    chk = R.Check(PROP)
    binary = chk.build("asan")
    total = 400 if chk.tier == "quick" else 15000
    total = max(16, int(total * chk.args.scale))
    nchunks = 16 if chk.tier == "quick" else 64
    per = max(1, total // nchunks)
    payloads = [(chk.seed, per, binary, chk.workroot) for _ in range(nchunks)]
    for part in R.pmap(work, payloads):
        chk.merge(part)
    chk.finish(
        rule="pairs (A, B) of calibrations related by one transformation: "
             "entry point change (through/line/double reflect/mapped), "
             "full<->abbreviated matrices (exact data), order of standards, "
             "A.D / B.D scaling of a/b readings, unrelated objects in the same "
             "vnacal_t (incl. a first calibration that uses the same parameter "
             "handles: frequency-dependent standards on their own 6..10-knot "
             "grids), F frequencies together vs one at a time, E12 vs UE14, "
             "consistent port renumbering (exact data); noisy over-determined "
             "data elsewhere; distinct = distinct (transformation, type, rows, "
             "cols, form)",
        min_events=20,
        assumptions=["tolerance 1e-9 (1 + kappa) with kappa from the "
                     "independent identifiability test"])


if __name__ == "__main__":
    main()
