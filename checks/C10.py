#!/usr/bin/env python3-vt
"""C10: frequency interpolation is exact at given points and refuses
out-of-range use.

Monitor (driver under ASan/UBSan, public API; one optional peek):
 pv   vector parameters queried through vnacal_get_parameter_value(s): knot
      values bit-exact, rational data reproduced between knots, identical
      bits whatever the query order, out-of-range queries refused
 ap   calibrations of a SMOOTH error network (error terms low-order rational
      in f) applied with vnacal_apply_m between the calibration grid points;
      standards given as vector parameters on their own grids; apply requests
      outside the band refused
 rg   acceptance / refusal of vector standards (both call orders: add before
      / after vnacal_new_set_frequency_vector) and of measurement-noise
      vectors by their frequency range
 nz   noise (vnacal_new_set_m_error) given on its own grid following a linear
      law against the same law given directly on the calibration grid:
      identical solve result (the cubic-spline users must reproduce lines)
 pk   optional: _vnacal_rfi through peek_rfi for every window size m <= n
The oracles never call libvna.
"""
import copy
import os
import sys

# one BLAS thread per worker process: the pool already uses every core
for _v in ("OMP_NUM_THREADS", "OPENBLAS_NUM_THREADS", "MKL_NUM_THREADS"):
    os.environ.setdefault(_v, "1")

import numpy as np  # noqa: E402

sys.path.insert(0, os.path.join(os.path.dirname(os.path.abspath(__file__)),
                                "..", "pylib"))
import calgen  # noqa: E402
import physics  # noqa: E402
import runner as R  # noqa: E402

PROP = "C10"
ONLY = os.environ.get("VERIF_C10_ONLY", "")

# tolerances; worst values seen on the repaired tree are in the evidence
TOL_INTERP = 1.0e-9      # relative, rational data between knots
TOL_APPLY = 1.0e-9       # x (1 + kappa), corrected S between grid points
TOL_NOISE = 1.0e-9       # corrected S, own noise grid vs calibration grid
KAPPA_MAX = 1.0e3
MAX_M = 5                # documented: "rational function interpolation";
#                          the window the public paths use is min(n, 5)

ORDERS = {1: (0, 0), 2: (0, 1), 3: (1, 1), 4: (1, 2), 5: (2, 2)}


def new_part():
    return dict(evaluations=0, counters={}, maxima={}, distinct=set(),
                samples=[], violations=[], inconclusive=[], harness_errors=[])


def bump(part, k, n=1):
    part["counters"][k] = part["counters"].get(k, 0) + n


def peak(part, k, v):
    if v == v:
        part["maxima"][k] = max(part["maxima"].get(k, 0.0), float(v))


def crand(rng, shape=None):
    return rng.standard_normal(shape) + 1j * rng.standard_normal(shape)


# ----------------------------------------------------------------------
# rational laws in the normalised variable t = (f - f0) / (f1 - f0)
# ----------------------------------------------------------------------
class Rational:
    def __init__(self, rng, orders, f0, f1, tlo=-0.05, thi=1.05):
        self.f0, self.f1 = float(f0), float(f1)
        no, do = orders
        tt = np.linspace(tlo, thi, 400)
        for _ in range(200):
            num = crand(rng, no + 1)
            den = crand(rng, do + 1)
            if do == 0:
                den = np.array([1.0 + 0j])
            else:
                den[0] += 2.0 * np.exp(2j * np.pi * rng.random())
            dv = np.abs(np.polyval(den[::-1], tt))
            nv = np.abs(np.polyval(num[::-1], tt))
            if dv.min() >= 0.3 * dv.mean() and nv.min() >= 0.1 * nv.mean():
                break
        else:
            num = np.array([1.0 + 0.5j] + [0.0] * no)
            den = np.array([1.0 + 0j] + [0.0] * do)
        self.num, self.den = num, den

    def t(self, f):
        if self.f1 == self.f0:
            return np.zeros_like(np.asarray(f, dtype=float))
        return (np.asarray(f, dtype=float) - self.f0) / (self.f1 - self.f0)

    def __call__(self, f):
        t = self.t(f).astype(np.longdouble)
        n = np.polyval(self.num[::-1].astype(np.clongdouble), t)
        d = np.polyval(self.den[::-1].astype(np.clongdouble), t)
        return (n / d).astype(complex)


def knot_vector(rng, n, lo, hi, minfrac=0.02):
    """n ascending knots spanning exactly [lo, hi], no two closer than
    minfrac of the mean spacing (0.02 where only exactness / order /
    ranges are judged; 0.2 where interpolated values are compared with a
    law: the rounding error of any interpolation scheme grows with the ratio
    of the largest to the smallest knot distance)"""
    if n == 1:
        return np.array([lo])
    if n == 2:
        return np.array([lo, hi])
    for _ in range(400):
        inner = np.sort(rng.uniform(lo, hi, n - 2))
        k = np.concatenate([[lo], inner, [hi]])
        if np.min(np.diff(k)) >= minfrac * (hi - lo) / (n - 1):
            return k
    k = np.linspace(lo, hi, n)
    k[1:-1] += rng.uniform(-0.3, 0.3, n - 2) * (hi - lo) / (n - 1)
    return k


def pick_n(rng, k):
    """knot count 1..12 with 2 always well represented"""
    if k % 4 == 0:
        return 2
    return int(rng.integers(1, 13))


def between_points(rng, knots, per=2):
    """query points strictly between knots: random interior points and points
    very close to a knot"""
    out = []
    for a, b in zip(knots[:-1], knots[1:]):
        w = b - a
        for _ in range(per):
            out.append(a + w * rng.uniform(0.02, 0.98))
        d = w * 10.0 ** rng.uniform(-9, -3)
        out.append(a + d)
        out.append(b - d)
    if len(knots) >= 2 and rng.random() < 0.5:
        i = int(rng.integers(0, len(knots) - 1))
        out.append(float(np.nextafter(knots[i], np.inf)))
        out.append(float(np.nextafter(knots[i + 1], -np.inf)))
    return [float(x) for x in out if knots[0] < x < knots[-1]]


def cval(e):
    return complex(e[0], e[1])


def refusal_ok(e, errno="EINVAL", cat="USAGE"):
    cbs = e.get("cb") or []
    return (e.get("errno") == errno and len(cbs) == 1 and cbs[0][0] == cat)


# ----------------------------------------------------------------------
# pv: parameter values
# ----------------------------------------------------------------------
def work_pv(chunk_id, payload):
    seed, tier, count, binary, workroot = payload
    rng = np.random.default_rng([seed, chunk_id, 1001])
    part = new_part()
    cases = []
    meta = {}
    for k in range(count):
        s = R.Script()
        s.op("vc=vnacal_create")
        prm = []
        for j in range(2):
            n = pick_n(rng, k + j)
            scale = 10.0 ** rng.uniform(-3, 10)
            lo = scale * rng.uniform(1.0, 3.0)
            hi = lo * rng.uniform(1.3, 8.0) if n > 1 else lo
            knots = knot_vector(rng, n, lo, hi, 0.02 if j == 0 else 0.2)
            if j == 0:
                vals = crand(rng, n) * 10.0 ** rng.uniform(-2, 2)
                law = None
            else:
                law = Rational(rng, ORDERS[min(n, MAX_M)], lo, hi, 0.0, 1.0)
                vals = law(knots)
            s.rvec("f%d" % j, knots)
            s.cvec("g%d" % j, vals)
            ln = s.op("p%d=vnacal_make_vector_parameter $vc @f%d %d @g%d" % (
                j, j, n, j))
            q = list(knots) + between_points(rng, knots)
            prm.append(dict(n=n, knots=knots, vals=vals, law=law, make=ln,
                            q=q, lo=lo, hi=hi, scale=scale, ev=[]))
        # the same multiset in different orders, the two parameters
        # interleaved
        for rnd in range(2):
            for j in (0, 1):
                p = prm[j]
                orders = []
                asc = sorted(p["q"])
                orders.append(("asc", asc))
                orders.append(("desc", asc[::-1]))
                sh = list(asc) + [asc[i] for i in
                                  rng.integers(0, len(asc), max(2, len(asc) // 3))]
                rng.shuffle(sh)
                orders.append(("shuffled", sh))
                name, qq = orders[(rnd * 2 + j + k) % 3] if rnd else orders[j]
                s.rvec("q%d_%d" % (j, rnd), qq)
                ln = s.op("vnacal_get_parameter_values $vc $p%d @q%d_%d" % (
                    j, j, rnd))
                p["ev"].append((ln, list(qq), name))
        for j in (0, 1):
            p = prm[j]
            asc = sorted(p["q"])
            for name, qq in (("desc", asc[::-1]), ("asc", asc)):
                s.rvec("r%d_%s" % (j, name), qq)
                ln = s.op("vnacal_get_parameter_values $vc $p%d @r%d_%s" % (
                    j, j, name))
                p["ev"].append((ln, list(qq), name))
        for _ in range(8):
            j = int(rng.integers(0, 2))
            p = prm[j]
            f = p["q"][int(rng.integers(0, len(p["q"])))]
            ln = s.op("vnacal_get_parameter_value $vc $p%d %s" % (j, R.hx(f)))
            p["ev"].append((ln, [f], "single"))
        # range: clearly outside must be refused, the ends accepted
        rngev = []
        for j in (0, 1):
            p = prm[j]
            for f, want in ((p["lo"] * rng.uniform(0.3, 0.95), False),
                            (p["hi"] * rng.uniform(1.05, 3.0), False),
                            (p["lo"], True), (p["hi"], True)):
                ln = s.op("vnacal_get_parameter_value $vc $p%d %s" % (
                    j, R.hx(f)))
                rngev.append((ln, j, f, want))
        cid = "pv%d_%d" % (chunk_id, k)
        cases.append((cid, s.text()))
        meta[cid] = (prm, rngev)
    wd = os.path.join(workroot, "pv%d" % chunk_id)
    results = R.run_cases(binary, cases, wd, timeout=900)
    for cid, text in cases:
        res = results[cid]
        prm, rngev = meta[cid]
        v, inc = R.standard_violations(res, text, PROP)
        part["violations"] += v
        part["inconclusive"] += inc

        def bad(what, desc):
            part["violations"].append(dict(
                key="%s:%s:vnacal_get_parameter_value" % (PROP, what),
                desc=desc, script=text))
        for j, p in enumerate(prm):
            e = res.ev(p["make"])
            if e is None or not isinstance(e.get("ret"), int) or e["ret"] < 0:
                if e is not None:
                    bad("vector-parameter-refused", "valid vector parameter "
                        "(%d ascending knots) refused: %s" % (p["n"], e))
                continue
            seen = {}
            complete = True
            for ln, qq, name in p["ev"]:
                e = res.ev(ln)
                if e is None or "ret" not in e:
                    complete = False
                    continue
                if e.get("errno") not in ("0", None) or e.get("cb"):
                    bad("in-range-query-refused", "%d knots %r..%r: query "
                        "inside the knot range failed: errno %s %s" % (
                            p["n"], p["lo"], p["hi"], e.get("errno"),
                            e.get("cb")))
                    complete = False
                    continue
                vals = [cval(e["ret"])] if name == "single" else \
                    [cval(x) for x in e["ret"]]
                for f, val in zip(qq, vals):
                    seen.setdefault(f, []).append((name, val))
            if not complete:
                continue
            part["evaluations"] += 1
            bump(part, "pv_parameters")
            bump(part, "pv_knots:%d" % p["n"])
            part["distinct"].add(("pv", p["n"], p["law"] is None,
                                  round(float(np.log10(p["scale"])), 6)))
            kn = {float(x): complex(y) for x, y in zip(p["knots"], p["vals"])}
            ymax = float(np.max(np.abs(p["vals"])))
            for f, lst in seen.items():
                bump(part, "pv_queries", len(lst))
                first = lst[0][1]
                for name, val in lst[1:]:
                    if not (val.real == first.real and val.imag == first.imag):
                        bad("query-order-dependence",
                            "%d knots: the value at f=%r depends on the "
                            "query history: %r (%s) vs %r (%s)" % (
                                p["n"], f, first, lst[0][0], val, name))
                        break
                if f in kn:
                    bump(part, "pv_knot_queries")
                    w = kn[f]
                    if not (first.real == w.real and first.imag == w.imag):
                        bad("knot-not-exact",
                            "%d knots: value at knot f=%r is %r, supplied %r "
                            "(difference %.3g)" % (p["n"], f, first, w,
                                                   abs(first - w)))
                elif p["law"] is not None:
                    w = complex(p["law"](np.array([f]))[0])
                    err = abs(first - w) / max(abs(w), 0.01 * ymax)
                    peak(part, "max_interp_rel_err", err)
                    bump(part, "pv_between_queries")
                    if not (err <= TOL_INTERP):
                        bad("rational-not-reproduced:%dknots" % min(p["n"], 6),
                            "%d knots %r, data from a (%d,%d) rational "
                            "function: value at f=%r is %r, the function "
                            "gives %r (relative error %.3g > %.1g)" % (
                                p["n"], list(p["knots"]),
                                ORDERS[min(p["n"], MAX_M)][0],
                                ORDERS[min(p["n"], MAX_M)][1], f, first, w,
                                err, TOL_INTERP))
            if len(part["samples"]) < 1 and p["law"] is not None and p["n"] == 3:
                part["samples"].append(dict(
                    part="pv", knots=[float(x) for x in p["knots"]],
                    values=[str(x) for x in p["vals"]],
                    queries=[float(x) for x in sorted(seen)][:12],
                    returned=[str(seen[f][0][1]) for f in sorted(seen)][:12]))
        for ln, j, f, want in rngev:
            e = res.ev(ln)
            if e is None or "ret" not in e:
                continue
            p = prm[j]
            part["evaluations"] += 1
            bump(part, "pv_range_queries")
            failed = e.get("errno") not in ("0", None) or bool(e.get("cb"))
            if want and failed:
                bad("in-range-query-refused", "%d knots %r..%r: query at the "
                    "end point %r failed: %s %s" % (
                        p["n"], p["lo"], p["hi"], f, e.get("errno"),
                        e.get("cb")))
            elif not want:
                v0 = e["ret"]
                huge = isinstance(v0, list) and v0[0] == float("inf")
                if not failed:
                    bad("out-of-range-query-accepted", "%d knots %r..%r: "
                        "query at %r (>= 5 %% outside) returned %r without "
                        "error" % (p["n"], p["lo"], p["hi"], f, v0))
                elif not (refusal_ok(e) and huge):
                    bad("out-of-range-query-error-shape", "query at %r "
                        "outside %r..%r: expected HUGE_VAL / EINVAL / one "
                        "USAGE callback, got ret=%r errno=%r cb=%r" % (
                            f, p["lo"], p["hi"], v0, e.get("errno"),
                            e.get("cb")))
    return part


# ----------------------------------------------------------------------
# smooth error network
# ----------------------------------------------------------------------
class SmoothNet:
    """error network whose reflection-tracking block is g(f) times a constant
    block, everything else constant: every error term of every type is then
    A g(f) + B with constants A, B; for the even windows (2 and 4 grid points,
    numerator one order lower than the denominator) the port match is zero so
    that B = 0 for the varying terms"""

    def __init__(self, ctype, r, c, rng, freqs):
        self.base = physics.ENet(ctype, r, c, rng)
        F = len(freqs)
        m = min(F, MAX_M)
        self.law = Rational(rng, ORDERS[m], freqs[0], freqs[-1], 0.0, 1.0)
        self.norm = complex(self.law(np.array([freqs[0]]))[0])
        if m % 2 == 0:
            if ctype in physics.COLUMN_TYPES:
                self.base.cols = [(el, er, em * 0, et)
                                  for (el, er, em, et) in self.base.cols]
            else:
                self.base.Em = self.base.Em * 0

    def g(self, f):
        return complex(self.law(np.array([f]))[0]) / self.norm

    def at(self, f):
        e = copy.copy(self.base)
        g = self.g(f)
        if e.ctype in physics.COLUMN_TYPES:
            e.cols = [(el, er * g, em, et) for (el, er, em, et) in self.base.cols]
        else:
            e.Er = self.base.Er * g
        return e


class SmoothScenario(calgen.Scenario):
    def __init__(self, ctype, r, c, F, rng, fmin, fmax):
        calgen.Scenario.__init__(self, ctype, r, c, F, rng, fmin=fmin,
                                 fmax=fmax, form="m")
        if F >= 2:
            self.freqs = knot_vector(rng, F, fmin, fmax, 0.2)
        self.net = SmoothNet(ctype, r, c, rng, self.freqs)
        self.enet = [self.net.at(f) for f in self.freqs]


def own_grid_params(sc, rng, s, uid):
    """give some reflect standards as vector parameters on their own grid
    (covering the band), values from a rational law the window represents"""
    made = []
    if sc.F < 2:
        return made
    fmin, fmax = sc.freqs[0], sc.freqs[-1]
    for st in sc.stds:
        for a in range(st.n):
            prm = st.sp[a][a]
            if prm.kind == "const" or prm.var is not None or rng.random() < 0.5:
                continue
            n = 2 if rng.random() < 0.3 else int(rng.integers(2, 13))
            lo = fmin * (1.0 if rng.random() < 0.3 else rng.uniform(0.6, 1.0))
            hi = fmax * (1.0 if rng.random() < 0.3 else rng.uniform(1.0, 1.6))
            knots = knot_vector(rng, n, lo, hi, 0.2)
            law = Rational(rng, ORDERS[min(n, MAX_M)], lo, hi, 0.0, 1.0)
            sc_ = 0.7 / float(np.max(np.abs(law(np.linspace(lo, hi, 50)))))
            prm.kind = "vector"
            prm.values = law(sc.freqs) * sc_
            name = "o%d" % uid[0]
            uid[0] += 1
            s.rvec("f_" + name, knots)
            s.cvec("g_" + name, law(knots) * sc_)
            ln = s.op("%s=vnacal_make_vector_parameter $vc @f_%s %d @g_%s" % (
                name, name, n, name))
            prm.var = "$" + name
            made.append(dict(name=name, n=n, knots=knots, line=ln,
                             vals=law(knots) * sc_))
    return made


def emit_apply_at(sc, s, freqs, duts, tag):
    """apply_m at arbitrary frequencies with measurements of the true smooth
    network"""
    p = sc.p
    Ms = [physics.apply_measurement(sc.net.at(f), duts[i])
          for i, f in enumerate(freqs)]
    s.rvec("%sf" % tag, freqs)
    s.cmat("%sm" % tag, [[Ms[f][i, k] for f in range(len(freqs))]
                         for i in range(p) for k in range(p)])
    la = s.op("vnacal_apply_m $vc $ci @%sf %d @%sm %d %d $vd" % (
        tag, len(freqs), tag, p, p))
    ld = s.op("dump_vnadata $vd")
    return la, ld


def work_ap(chunk_id, payload):
    seed, tier, count, binary, workroot = payload
    rng = np.random.default_rng([seed, chunk_id, 1002])
    part = new_part()
    cases = []
    meta = {}
    for k in range(count):
        ctype = physics.TYPES[(chunk_id + k) % 8]
        p = int(rng.choice([1, 1, 2, 2, 3]))
        F = pick_n(rng, k)
        scale = 10.0 ** rng.uniform(5, 10)
        fmin = scale * rng.uniform(1, 3)
        fmax = fmin * rng.uniform(1.5, 8)
        sc = None
        for attempt in range(6):
            c = SmoothScenario(ctype, p, p, F, rng, fmin, fmax)
            c.sufficient_recipe(extras=int(rng.integers(0, 2)))
            c.choose_entries(form="m")
            s = R.Script()
            c.emit_header(s)
            uid = [0]
            made = own_grid_params(c, rng, s, uid)
            ok, kappa = c.well_determined(KAPPA_MAX)
            if ok:
                sc = c
                break
        if sc is None:
            bump(part, "ap_skipped_not_well_determined")
            continue
        lines = dict(add=[])
        pq = None
        if made:
            # query one of the standards' parameters before solve and after
            # apply: same bits
            pq = made[int(rng.integers(0, len(made)))]
            qq = list(pq["knots"]) + between_points(rng, pq["knots"], per=1)
            rng.shuffle(qq)
            pq["qq"] = qq
            s.rvec("pq", qq)
            pq["l1"] = s.op("vnacal_get_parameter_values $vc $%s @pq" % pq["name"])
        for i, st in enumerate(sc.stds):
            lines["add"].append(sc.emit_std(s, st, i, uid=uid))
        lines["solve"] = s.op("vnacal_new_solve $vn")
        lines["addcal"] = s.op("ci=vnacal_add_calibration $vc \"c\" $vn")
        s.op("vd=vnadata_alloc")
        fa, fb = sc.freqs[0], sc.freqs[-1]
        if F >= 3 and rng.random() < 0.35:
            # a different sweep over the same band: as many points as the
            # calibration has, the same first and last frequency, other
            # points in between (a linear-sweep calibration applied to a log
            # sweep)
            q = sorted([float(fa), float(fb)] + [float(x) for x in
                                                 rng.uniform(fa, fb, F - 2)])
            bump(part, "ap_same_count_same_ends_requests")
        elif F >= 2:
            q = between_points(rng, sc.freqs, per=1)
            q += [float(x) for x in sc.freqs[rng.random(F) < 0.5]]
            q = sorted(set(q))
            if len(q) > 16:
                q = sorted(rng.choice(q, 16, replace=False))
        else:
            q = [float(fa)]
        duts = [crand(rng, (sc.p, sc.p)) * 0.5 for _ in q]
        lines["apply"] = emit_apply_at(sc, s, q, duts, "x")
        if pq is not None:
            s.rvec("pq2", pq["qq"][::-1])
            pq["l2"] = s.op("vnacal_get_parameter_values $vc $%s @pq2" % pq["name"])
        # out-of-band requests
        oob = []
        kinds = ["low", "high", "both"]
        for kind in kinds:
            lo = fa * rng.uniform(0.3, 0.95) if kind in ("low", "both") else fa
            hi = fb * rng.uniform(1.05, 3.0) if kind in ("high", "both") else fb
            n = int(rng.integers(1, 4))
            if n == 1:
                fr = [lo if kind != "high" else hi]
            elif n == 2:
                fr = [lo, hi] if lo < hi else [lo]
            else:
                fr = [lo, 0.5 * (lo + hi), hi] if lo < hi else [lo]
            dd = [crand(rng, (sc.p, sc.p)) * 0.5 for _ in fr]
            la, ld = emit_apply_at(sc, s, fr, dd, "o" + kind)
            oob.append((kind, la, fr))
        cid = "ap%d_%d" % (chunk_id, k)
        cases.append((cid, s.text()))
        meta[cid] = (sc, kappa, lines, q, duts, oob, made, pq)
    wd = os.path.join(workroot, "ap%d" % chunk_id)
    results = R.run_cases(binary, cases, wd, timeout=1200)
    for cid, text in cases:
        res = results[cid]
        sc, kappa, lines, q, duts, oob, made, pq = meta[cid]
        v, inc = R.standard_violations(res, text, PROP)
        part["violations"] += v
        part["inconclusive"] += inc

        def bad(what, desc):
            part["violations"].append(dict(
                key="%s:%s:%s" % (PROP, what, sc.ctype),
                desc="%s %dx%d grid of %d frequencies: %s" % (
                    sc.ctype, sc.p, sc.p, sc.F, desc),
                script=text))
        stop = False
        for md in made:
            e = res.ev(md["line"])
            if e is None or not isinstance(e.get("ret"), int) or e["ret"] < 0:
                stop = True
        for i, ln in enumerate(lines["add"]):
            e = res.ev(ln)
            if e is None:
                stop = True
            elif e.get("ret") != 0 and not stop:
                stop = True
                bad("covering-standard-refused", "standard %d (vector "
                    "parameters on grids covering the band %r..%r) refused: "
                    "%s" % (i, sc.freqs[0], sc.freqs[-1], e))
        if stop:
            continue
        e = res.ev(lines["solve"])
        if e is None or e.get("ret") != 0:
            if e is not None:
                bad("solve-failed", "solve failed (kappa %.3g): %s" % (kappa, e))
            continue
        la, ld = lines["apply"]
        e = res.ev(la)
        d = res.ev(ld)
        if e is None or d is None:
            continue
        part["evaluations"] += 1
        bump(part, "ap_scenarios")
        bump(part, "ap_grid:%d" % sc.F)
        part["distinct"].add(("ap", sc.ctype, sc.p, sc.F, len(made),
                              round(float(sc.freqs[0]), 3)))
        if e.get("ret") != 0:
            bad("in-band-apply-refused", "apply at %d frequencies inside "
                "the calibration band %r..%r failed: %s" % (
                    len(q), sc.freqs[0], sc.freqs[-1], e))
        elif "out" in d:
            out = d["out"]
            grid = {float(x) for x in sc.freqs}
            for i, f in enumerate(q):
                got = np.array([cval(x) for x in out["data"][i]]).reshape(
                    sc.p, sc.p)
                err = float(np.max(np.abs(got - duts[i]))) \
                    if np.all(np.isfinite(got)) else float("inf")
                rel = err / (TOL_APPLY * (1 + kappa))
                on = f in grid
                peak(part, "max_apply_err_over_tol_on_grid" if on else
                     "max_apply_err_over_tol_between", rel
                     if np.isfinite(rel) else 1e300)
                bump(part, "ap_points_on_grid" if on else "ap_points_between")
                if not (rel <= 1.0):
                    bad("apply-on-grid-wrong" if on else
                        "apply-between-grid-wrong:%dpoints" % min(sc.F, 6),
                        "corrected S at f=%r (%s) differs from the device by "
                        "%.3g (kappa %.3g, limit %.3g); the error terms are "
                        "A g(f) + B with g a (%d,%d) rational function" % (
                            f, "a grid point" if on else "between grid points",
                            err, kappa, TOL_APPLY * (1 + kappa),
                            ORDERS[min(sc.F, MAX_M)][0],
                            ORDERS[min(sc.F, MAX_M)][1]))
                    break
        if pq is not None:
            e1, e2 = res.ev(pq["l1"]), res.ev(pq["l2"])
            if e1 is not None and e2 is not None and "ret" in e1 and "ret" in e2:
                v1 = {f: cval(x) for f, x in zip(pq["qq"], e1["ret"])}
                v2 = {f: cval(x) for f, x in zip(pq["qq"][::-1], e2["ret"])}
                bump(part, "ap_parameter_requeried")
                kn = {float(x): complex(y) for x, y in
                      zip(pq["knots"], pq["vals"])}
                for f in v1:
                    a, b = v1[f], v2[f]
                    if not (a.real == b.real and a.imag == b.imag):
                        bad("query-order-dependence", "value of a standard's "
                            "vector parameter at f=%r changed across "
                            "solve/apply: %r vs %r" % (f, a, b))
                        break
                    if f in kn and not (a.real == kn[f].real and
                                        a.imag == kn[f].imag):
                        bad("knot-not-exact", "parameter value at knot %r is "
                            "%r, supplied %r" % (f, a, kn[f]))
                        break
        for kind, la, fr in oob:
            e = res.ev(la)
            if e is None:
                continue
            part["evaluations"] += 1
            bump(part, "ap_out_of_band_requests")
            if e.get("ret") == 0:
                bad("out-of-band-apply-accepted:" + kind,
                    "vnacal_apply_m at %r, band %r..%r (>= 5 %% outside at "
                    "the %s end): accepted" % (fr, sc.freqs[0], sc.freqs[-1],
                                               kind))
            elif not (e.get("ret") == -1 and refusal_ok(e)):
                bad("out-of-band-apply-error-shape:" + kind,
                    "expected -1 / EINVAL / one USAGE callback, got %s" % e)
        if len(part["samples"]) < 1 and sc.F >= 3:
            part["samples"].append(dict(
                part="ap", type=sc.ctype, ports=sc.p,
                grid=[float(x) for x in sc.freqs], applied_at=q[:8],
                own_grid_standards=[dict(knots=[float(x) for x in m_["knots"]])
                                    for m_ in made[:2]], kappa=kappa))
    return part


# ----------------------------------------------------------------------
# rg: ranges of standards and noise vectors
# ----------------------------------------------------------------------
def range_case(rng, fmin, fmax, n):
    """(class, lo, hi) of a supplied grid of n points relative to the band"""
    wide = fmax / fmin >= 1.25
    if n == 1:
        if fmin == fmax and rng.random() < 0.4:
            return "cover", fmin, fmin
        kinds = ["low", "high"] + (["both"] if wide else [])
        kind = kinds[int(rng.integers(0, len(kinds)))]
        if kind == "low":          # single point above the band start
            x = max(fmin * rng.uniform(1.05, 1.5), fmax * rng.uniform(1.0, 1.3))
            return "low", x, x
        if kind == "high":
            x = min(fmax * rng.uniform(0.5, 0.95), fmin * rng.uniform(0.7, 1.0))
            return "high", x, x
        x = rng.uniform(1.06 * fmin, 0.94 * fmax)
        return "both", x, x
    kinds = ["cover", "cover", "low", "high"] + (["both"] if wide else [])
    kind = kinds[int(rng.integers(0, len(kinds)))]
    if kind == "cover":
        lo = fmin if rng.random() < 0.4 else fmin * rng.uniform(0.3, 1.0)
        hi = fmax if rng.random() < 0.4 else fmax * rng.uniform(1.0, 3.0)
        if lo == hi:
            lo = fmin * 0.9
    elif kind == "low":
        lo = fmin * rng.uniform(1.05, 1.2)
        hi = max(fmax, lo) * rng.uniform(1.0, 2.0) + (lo if fmax <= lo else 0)
    elif kind == "high":
        hi = fmax * rng.uniform(0.8, 0.95)
        lo = min(fmin, hi) * rng.uniform(0.3, 0.99)
    else:
        lo = fmin * rng.uniform(1.05, 1.1)
        hi = fmax * rng.uniform(0.91, 0.95)
    return kind, float(lo), float(hi)


def work_rg(chunk_id, payload):
    seed, tier, count, binary, workroot = payload
    rng = np.random.default_rng([seed, chunk_id, 1003])
    part = new_part()
    cases = []
    meta = {}
    entries = ("single_reflect_m", "double_reflect_m", "line_m",
               "mapped_matrix_m", "single_reflect", "mapped_matrix")
    for k in range(count):
        ctype = physics.TYPES[(chunk_id + k) % 8]
        p = 2
        F = int(rng.integers(1, 7))
        scale = 10.0 ** rng.uniform(0, 10)
        fmin = scale * rng.uniform(1, 3)
        fmax = fmin * rng.uniform(1.3, 8) if F > 1 else fmin
        freqs = knot_vector(rng, F, fmin, fmax)
        s = R.Script()
        s.op("vc=vnacal_create")
        s.op("vn=vnacal_new_alloc $vc %s %d %d %d" % (ctype, p, p, F))
        s.rvec("freq", freqs)
        order = "freq_first" if k % 2 == 0 else "add_first"
        ev = []
        if order == "freq_first":
            s.op("vnacal_new_set_frequency_vector $vn @freq")
        nstd = int(rng.integers(1, 4))
        expect_set = True
        badp = None
        for i in range(nstd):
            n = pick_n(rng, k + i)
            kind, lo, hi = range_case(rng, fmin, fmax, n)
            knots = knot_vector(rng, n, lo, hi)
            s.rvec("pf%d" % i, knots)
            flavour = "vector"
            if rng.random() < 0.4 and (n == 1 or
                                       float(np.min(np.diff(knots))) >= 1e-2):
                # correlated parameter: only its sigma frequency vector
                # limits the range (the correlate is a scalar or an unknown
                # with a scalar guess); one sigma value = no frequency grid
                flavour = "correlated"
                s.rvec("ps%d" % i, rng.uniform(0.01, 0.1, n))
                s.op("q%d=vnacal_make_scalar_parameter $vc %s" % (
                    i, R.cx(crand(rng) * 0.5)))
                other = "$q%d" % i
                if rng.random() < 0.5:
                    s.op("u%d=vnacal_make_unknown_parameter $vc $q%d" % (i, i))
                    other = "$u%d" % i
                lnp = s.op("p%d=vnacal_make_correlated_parameter $vc %s @pf%d "
                           "%d @ps%d" % (i, other, i, n, i))
                if n == 1:
                    kind = "cover"
            else:
                s.cvec("pg%d" % i, crand(rng, n) * 0.5)
                lnp = s.op("p%d=vnacal_make_vector_parameter $vc @pf%d %d "
                           "@pg%d" % (i, i, n, i))
            entry = entries[int(rng.integers(0, len(entries)))]
            column_type = ctype in physics.COLUMN_TYPES
            s.cmat("m%d" % i, [[0.1 * crand(rng) for _ in range(F)]
                               for _ in range(p * p)])
            if entry.endswith("_m"):
                marg = "@m%d %d %d" % (i, p, p)
            else:
                ar = 1 if column_type else p
                s.cmat("a%d" % i, [[(1.0 if (column_type or a_ // p == a_ % p)
                                     else 0.0) + 0.1 * crand(rng)
                                    for _ in range(F)] for a_ in range(ar * p)])
                marg = "@a%d %d %d @m%d %d %d" % (i, ar, p, i, p, p)
            pv = "$p%d" % i
            if flavour == "correlated" and rng.random() < 0.3:
                # reached only as the correlate of another correlated
                # parameter (which has no grid of its own): the chain's
                # range is still that of the sigma grid
                s.rvec("pw%d" % i, [0.05])
                s.op("w%d=vnacal_make_correlated_parameter $vc $p%d NULL 1 "
                     "@pw%d" % (i, i, i))
                pv = "$w%d" % i
                flavour = "correlated-chain"
            if flavour == "vector" and rng.random() < 0.3:
                # an unknown whose initial guess is this vector: the solver
                # evaluates the guess at every calibration frequency, so the
                # guess's range is the standard's range
                s.op("w%d=vnacal_make_unknown_parameter $vc $p%d" % (i, i))
                pv = "$w%d" % i
                flavour = "unknown-with-vector-guess"
            if entry.startswith("single_reflect"):
                ln = s.op("vnacal_new_add_%s $vn %s %s %d" % (
                    entry, marg, pv, int(rng.integers(1, 3))))
            elif entry == "double_reflect_m":
                pr = [pv, "2"]
                if rng.random() < 0.5:
                    pr = pr[::-1]
                ln = s.op("vnacal_new_add_%s $vn %s %s %s 1 2" % (
                    entry, marg, pr[0], pr[1]))
            elif entry == "line_m":
                cells = ["0", "1", "1", "0"]
                cells[int(rng.integers(0, 4))] = pv
                s.ivec("s%d" % i, cells)
                ln = s.op("vnacal_new_add_%s $vn %s @s%d 1 2" % (entry, marg, i))
            else:
                cells = ["0", "1", "1", "0"]
                cells[int(rng.integers(0, 4))] = pv
                s.ivec("s%d" % i, cells)
                ln = s.op("vnacal_new_add_%s $vn %s @s%d 2 2 NULL" % (
                    entry, marg, i))
            ev.append(dict(what="add", line=ln, kind=kind, n=n, lo=lo, hi=hi,
                           entry=entry, flavour=flavour, make=lnp))
            if kind != "cover":
                expect_set = False
                badp = (kind, n, lo, hi, flavour)
                if order == "add_first":
                    break      # one offender is enough for the set call
        if order == "add_first":
            ln = s.op("vnacal_new_set_frequency_vector $vn @freq")
            ev.append(dict(what="set", line=ln, kind="cover" if expect_set
                           else badp[0], n=badp[1] if badp else 0,
                           lo=badp[2] if badp else fmin,
                           hi=badp[3] if badp else fmax, entry="-",
                           flavour=badp[4] if badp else "vector", make=None))
        # noise vectors (need the frequency vector)
        nzev = []
        if (order == "freq_first" or expect_set) and ctype not in ("T16", "U16"):
            for j in range(2):
                n = pick_n(rng, k + j + 1)
                kind, lo, hi = range_case(rng, fmin, fmax, n)
                if n >= 2 and (hi - lo) / n < 1.0:
                    continue
                knots = knot_vector(rng, n, lo, hi)
                s.rvec("nf%d" % j, knots)
                s.rvec("ns%d" % j, rng.uniform(1e-4, 1e-3, n))
                s.rvec("nt%d" % j, rng.uniform(1e-4, 1e-3, n))
                tr = "@nt%d" % j if rng.random() < 0.5 else "NULL"
                # one value: vnacal_new(3) says the frequency vector "is not
                # used and can be specified as NULL"; with NULL it must be
                # accepted, with a vector the outcome is not asserted (the
                # manual and the range rule pull in different directions)
                fv = "@nf%d" % j
                asserted = True
                if n == 1:
                    if rng.random() < 0.7:
                        fv = "NULL"
                    else:
                        asserted = kind == "cover"
                ln = s.op("vnacal_new_set_m_error $vn %s %d @ns%d %s" % (
                    fv, n, j, tr))
                nzev.append(dict(line=ln, kind=kind, n=n, lo=lo, hi=hi,
                                 asserted=asserted))
        cid = "rg%d_%d" % (chunk_id, k)
        cases.append((cid, s.text()))
        meta[cid] = (ctype, F, fmin, fmax, order, ev, nzev)
    wd = os.path.join(workroot, "rg%d" % chunk_id)
    results = R.run_cases(binary, cases, wd, timeout=900)
    for cid, text in cases:
        res = results[cid]
        ctype, F, fmin, fmax, order, ev, nzev = meta[cid]
        v, inc = R.standard_violations(res, text, PROP)
        part["violations"] += v
        part["inconclusive"] += inc

        def bad(key, desc):
            part["violations"].append(dict(key="%s:%s" % (PROP, key),
                                           desc=desc, script=text))
        for d in ev:
            e = res.ev(d["line"])
            if e is None or "ret" not in e:
                break
            if d["make"] is not None:
                em = res.ev(d["make"])
                if em is None or not isinstance(em.get("ret"), int) or \
                        em["ret"] < 0:
                    if em is not None:
                        bad("parameter-refused:%s" % d["flavour"],
                            "valid %s parameter (%d ascending frequencies "
                            "%r..%r) refused: %s" % (d["flavour"], d["n"],
                                                     d["lo"], d["hi"], em))
                    break
            part["evaluations"] += 1
            fn = "vnacal_new_add" if d["what"] == "add" else \
                "vnacal_new_set_frequency_vector"
            if d["flavour"] == "correlated":
                fn += "[correlated-sigma-grid]"
                bump(part, "rg_correlated_sigma_decisions")
            elif d["flavour"] == "correlated-chain":
                fn += "[correlated-chain-sigma-grid]"
                bump(part, "rg_correlated_chain_decisions")
            elif d["flavour"] == "unknown-with-vector-guess":
                fn += "[unknown-with-vector-guess]"
                bump(part, "rg_unknown_vector_guess_decisions")
            judged = (order == "freq_first") or d["what"] == "set"
            if not judged:
                # add before the frequency vector: nothing to compare with yet
                if e.get("ret") != 0:
                    bad("standard-refused-before-band-known:%s" % d["entry"],
                        "vnacal_new_add_%s before "
                        "vnacal_new_set_frequency_vector failed: %s" % (
                            d["entry"], e))
                    break
                continue
            bump(part, "rg_range_decisions")
            bump(part, "rg:%s:%s" % (order, d["kind"]))
            part["distinct"].add(("rg", order, d["kind"], d["n"], F,
                                  d["flavour"],
                                  d["entry"] if d["what"] == "add" else "set"))
            info = "%s, band %r..%r (%d points), %s %r..%r " \
                   "(%d points), order %s" % (
                       ctype, fmin, fmax, F,
                       "sigma frequency vector of a correlated parameter"
                       if d["flavour"].startswith("correlated") else
                       "vector parameter grid", d["lo"], d["hi"], d["n"],
                       order)
            if d["kind"] == "cover":
                if e.get("ret") != 0:
                    bad("covering-range-refused:%s" % fn,
                        "%s: a vector standard covering the band was "
                        "refused by %s: %s" % (info, e.get("op"), e))
                    break
            else:
                if e.get("ret") == 0:
                    bad("short-range-accepted:%s:%s" % (d["kind"], fn),
                        "%s: the parameter misses the band by >= 5 %% at the "
                        "%s end(s) but %s accepted it" % (info, d["kind"],
                                                          e.get("op")))
                elif not (e.get("ret") == -1 and refusal_ok(e)):
                    bad("short-range-error-shape:%s" % fn,
                        "%s: expected -1 / EINVAL / one USAGE callback, got "
                        "%s" % (info, e))
                break      # the object keeps or drops the standard: stop here
        else:
            for d in nzev:
                e = res.ev(d["line"])
                if e is None or "ret" not in e:
                    break
                if not d["asserted"]:
                    bump(part, "rg_noise_single_value_with_vector_not_asserted")
                    if e.get("ret") != 0:
                        break
                    continue
                part["evaluations"] += 1
                bump(part, "rg_noise_decisions")
                bump(part, "rg:noise:%s" % d["kind"])
                part["distinct"].add(("rgn", d["kind"], d["n"], F))
                info = "%s, band %r..%r (%d points), noise grid %r..%r " \
                       "(%d points)" % (ctype, fmin, fmax, F, d["lo"], d["hi"],
                                        d["n"])
                if ctype in ("T16", "U16") and e.get("ret") != 0 and \
                        "full" in str(e.get("cb")).lower():
                    break
                if d["kind"] == "cover" or d["n"] == 1:
                    if e.get("ret") != 0:
                        bad("covering-noise-refused:vnacal_new_set_m_error",
                            "%s: refused: %s" % (info, e))
                        break
                else:
                    if e.get("ret") == 0:
                        bad("short-noise-accepted:%s:vnacal_new_set_m_error"
                            % d["kind"], "%s: the noise grid misses the band "
                            "by >= 5 %% at the %s end(s) but was accepted" % (
                                info, d["kind"]))
                    elif not (e.get("ret") == -1 and refusal_ok(e)):
                        bad("short-noise-error-shape:vnacal_new_set_m_error",
                            "%s: expected -1 / EINVAL / one USAGE callback, "
                            "got %s" % (info, e))
        if len(part["samples"]) < 1 and ev and ev[0]["kind"] != "cover":
            part["samples"].append(dict(
                part="rg", type=ctype, band=[fmin, fmax], order=order,
                parameter_range=[ev[0]["lo"], ev[0]["hi"]],
                miss=ev[0]["kind"], event=res.ev(ev[0]["line"])))
    return part


# ----------------------------------------------------------------------
# nz: linear noise law on its own grid vs on the calibration grid
# ----------------------------------------------------------------------
class NoisyScenario(calgen.Scenario):
    def measure_std(self, std, f):
        M = self.enet[f].measure(std.S_full(f, self.p))
        nz = getattr(std, "noise", None)
        if nz is not None:
            M = M + nz[f](M)
        return M


def work_nz(chunk_id, payload):
    seed, tier, count, binary, workroot = payload
    rng = np.random.default_rng([seed, chunk_id, 1004])
    part = new_part()
    cases = []
    meta = {}
    types = ("T8", "U8", "TE10", "UE10", "UE14", "E12")
    for k in range(count):
        ctype = types[(chunk_id + k) % len(types)]
        p = int(rng.choice([1, 2]))
        F = int(rng.integers(1, 6))
        fmin = 10.0 ** rng.uniform(6, 9.5)
        fmax = fmin * rng.uniform(1.5, 6)
        sc = None
        for attempt in range(6):
            c = NoisyScenario(ctype, p, p, F, rng, fmin=fmin, fmax=fmax,
                              form="m")
            c.sufficient_recipe(extras=int(rng.integers(3, 7)))
            c.choose_entries(form="m")
            ok, kappa = c.well_determined(100.0)
            if ok:
                sc = c
                break
        if sc is None:
            bump(part, "nz_skipped_not_well_determined")
            continue
        fa, fb = float(sc.freqs[0]), float(sc.freqs[-1])
        span = (fb - fa) if fb > fa else fa

        def law(s0, kk):
            return lambda f: s0 * (1.0 + kk * (np.asarray(f) - fa) / span)
        nf = law(10.0 ** rng.uniform(-4, -3), rng.uniform(-0.6, 2.0))
        tr = law(10.0 ** rng.uniform(-3, -2), rng.uniform(-0.6, 2.0))
        for st in sc.stds:
            st.noise = []
            for f in range(sc.F):
                n1 = crand(rng, (p, p)) / np.sqrt(2)
                n2 = crand(rng, (p, p)) / np.sqrt(2)
                st.noise.append(
                    (lambda a, b, x: (lambda M: nf(x) * a + tr(x) * np.abs(M) * b))(
                        n1, n2, sc.freqs[f]))
        n = 2 if k % 3 == 0 else int(rng.integers(2, 13))
        # (a grid that starts below 0 Hz is refused for that reason alone)
        lo = max(fa - span * rng.uniform(0.0, 0.3), 0.2 * fa)
        hi = fb + span * rng.uniform(0.0, 0.3)
        if rng.random() < 0.25:
            lo = fa
        if rng.random() < 0.25 and fb > lo:
            hi = fb
        if not (hi > lo):
            hi = lo + 0.2 * span
        knots = knot_vector(rng, n, lo, hi)
        s = R.Script()
        lines = {}
        s.op("vc=vnacal_create")
        uid = [0]
        runs = [("own", "@nzf %d @nz_nf @nz_tr" % n),
                ("cal", "@freq %d @cal_nf @cal_tr" % sc.F),
                ("null", "NULL %d @cal_nf @cal_tr" % sc.F)]
        for ri, (rname, margs) in enumerate(runs):
            vn = "vn%d" % ri
            calgen_reset(sc)
            sc.emit_header(s, vn=vn, create=False)
            s.rvec("nzf", knots)
            s.rvec("nz_nf", nf(knots))
            s.rvec("nz_tr", tr(knots))
            s.rvec("cal_nf", nf(sc.freqs))
            s.rvec("cal_tr", tr(sc.freqs))
            lines["adds%d" % ri] = [sc.emit_std(s, st, i, vn=vn, uid=uid)
                                    for i, st in enumerate(sc.stds)]
            lines["err%d" % ri] = s.op("vnacal_new_set_m_error $%s %s" % (
                vn, margs))
            s.op("vnacal_new_set_pvalue_limit $%s 0x1p-1000" % vn)
            lines["solve%d" % ri] = s.op("vnacal_new_solve $%s" % vn)
            lines["cal%d" % ri] = s.op(
                "ci%d=vnacal_add_calibration $vc \"%s\" $%s" % (ri, rname, vn))
        s.op("vd=vnadata_alloc")
        duts = sc.rand_dut()
        for ri in range(3):
            lines["apply%d" % ri] = sc.emit_apply(s, duts, "x", form="m",
                                                  ci="$ci%d" % ri,
                                                  tag="d%d" % ri)
        cid = "nz%d_%d" % (chunk_id, k)
        cases.append((cid, s.text()))
        meta[cid] = (sc, kappa, n, knots, lines)
    wd = os.path.join(workroot, "nz%d" % chunk_id)
    results = R.run_cases(binary, cases, wd, timeout=1200)
    for cid, text in cases:
        res = results[cid]
        sc, kappa, n, knots, lines = meta[cid]
        v, inc = R.standard_violations(res, text, PROP)
        part["violations"] += v
        part["inconclusive"] += inc

        def bad(what, desc):
            part["violations"].append(dict(
                key="%s:%s" % (PROP, what),
                desc="%s %dx%d, %d calibration frequencies %r..%r, noise "
                     "grid of %d points %r..%r: %s" % (
                         sc.ctype, sc.p, sc.p, sc.F, sc.freqs[0], sc.freqs[-1],
                         n, knots[0], knots[-1], desc),
                script=text))
        S = []
        usable = True
        for ri in range(3):
            if any((res.ev(ln) or {}).get("ret") != 0
                   for ln in lines["adds%d" % ri]):
                usable = False
                break
            e = res.ev(lines["err%d" % ri])
            if e is None:
                usable = False
                break
            if e.get("ret") != 0:
                bad("covering-noise-refused:vnacal_new_set_m_error",
                    "a noise vector covering the band was refused: %s" % e)
                usable = False
                break
            e = res.ev(lines["solve%d" % ri])
            if e is None or e.get("ret") != 0:
                bump(part, "nz_solve_failed")
                usable = False
                break
            la, ld = lines["apply%d" % ri]
            d = res.ev(ld)
            if (res.ev(la) or {}).get("ret") != 0 or d is None or "out" not in d:
                usable = False
                break
            S.append([np.array([cval(x) for x in d["out"]["data"][f]])
                      for f in range(sc.F)])
        if not usable:
            continue
        part["evaluations"] += 1
        bump(part, "nz_scenarios")
        bump(part, "nz_knots:%d" % min(n, 6))
        part["distinct"].add(("nz", sc.ctype, sc.p, sc.F, n,
                              round(float(knots[0]), 3)))
        # reference: the law's values handed over per calibration frequency
        # (NULL frequency vector: no interpolation involved)
        for ri, nm, nk in ((0, "its own grid of %d points" % n, n),
                           (1, "the calibration grid passed explicitly "
                               "(%d points)" % sc.F, sc.F)):
            err = max(float(np.max(np.abs(S[ri][f] - S[2][f])))
                      if np.all(np.isfinite(S[ri][f])) else float("inf")
                      for f in range(sc.F))
            peak(part, "max_noise_grid_difference", err
                 if np.isfinite(err) else 1e300)
            if not (err <= TOL_NOISE):
                bad("linear-noise-not-reproduced:%dknots" % min(nk, 6),
                    "the same linear noise law given on %s and per "
                    "calibration frequency (NULL frequency vector) gives "
                    "corrected S differing by %.3g (limit %.1g)" % (
                        nm, err, TOL_NOISE))
                break
        if len(part["samples"]) < 1:
            part["samples"].append(dict(
                part="nz", type=sc.ctype, ports=sc.p,
                grid=[float(x) for x in sc.freqs],
                noise_grid=[float(x) for x in knots], standards=len(sc.stds)))
    return part


def work_cs(chunk_id, payload):
    """sigma of a correlated parameter given on its own frequency grid.  The
    same straight-line law sigma(f) is handed over three ways - one value per
    calibration frequency, on the calibration grid passed explicitly, and on a
    grid of 2..6 knots of its own that covers the band - to three otherwise
    identical weighted solves of the same noisy data (a correlated reflect
    that deviates from its correlate by about one sigma).  A spline through
    samples of a straight line is that line, so the three solves must agree."""
    seed, tier, count, binary, workroot = payload
    rng = np.random.default_rng([seed, chunk_id, 1006])
    part = new_part()
    cases, meta = [], {}
    types = ("T8", "U8", "TE10", "UE10", "UE14", "E12")
    for k in range(count):
        ctype = types[(chunk_id + k) % len(types)]
        p = int(rng.choice([1, 1, 2]))
        F = int(rng.integers(2, 6))
        fmin = 10.0 ** rng.uniform(6, 9.5)
        fmax = fmin * rng.uniform(1.5, 6)
        sc = None
        for attempt in range(6):
            c = NoisyScenario(ctype, p, p, F, rng, fmin=fmin, fmax=fmax,
                              form="m")
            c.sufficient_recipe(extras=int(rng.integers(1, 3)))
            c.choose_entries(form="m")
            ok, kappa = c.well_determined(100.0)
            if ok:
                sc = c
                break
        if sc is None:
            bump(part, "cs_skipped_not_well_determined")
            continue
        fr = np.array(sc.freqs, dtype=float)
        fa, fb = float(fr[0]), float(fr[-1])
        span = fb - fa
        s0 = 10.0 ** rng.uniform(-3, -1.5)
        kk = rng.uniform(-0.6, 2.0)

        def sig(f):
            return s0 * (1.0 + kk * (np.asarray(f, dtype=float) - fa) / span)
        base = calgen.Param("vector", (crand(rng) * 0.4 + 0.05 * crand(
            rng, F)).astype(complex))
        truth = base.values + sig(fr) * crand(rng, F) / np.sqrt(2)
        cp = calgen.Param.correlated(truth, base, s0)
        stds = []
        for _ in range(2):
            st = sc.add_reflect([int(rng.integers(1, p + 1))], [cp])
            st.entry, st.form = "single_reflect", "m"
            st.full_rows = st.full_cols = True
            st.use_null_map = False
            stds.append(st)
        nf = 10.0 ** rng.uniform(-4.5, -3.5)
        for st in sc.stds:
            st.noise = [(lambda a: (lambda M: nf * a))(crand(rng, (p, p)) /
                                                       np.sqrt(2))
                        for f in range(F)]
        n = int(rng.integers(2, 7))
        # (a grid that starts below 0 Hz is refused for that reason alone)
        lo = max(fa - span * rng.uniform(0.0, 0.3), 0.2 * fa)
        hi = fb + span * rng.uniform(0.0, 0.3)
        if rng.random() < 0.25:
            lo = fa
        if rng.random() < 0.25:
            hi = fb
        knots = knot_vector(rng, n, lo, hi)
        s = R.Script()
        lines = {}
        s.op("vc=vnacal_create")
        uid = [0]
        runs = [("null", "NULL", sig(fr)), ("cal", "@freq", sig(fr)),
                ("own", list(knots), sig(knots))]
        s.rvec("cs_nf", [nf] * F)
        for ri, (rname, sf, sv) in enumerate(runs):
            vn = "vn%d" % ri
            calgen_reset(sc)
            cp.var = None
            base.var = None
            cp.sigma_freqs, cp.sigma_values = sf, sv
            sc.emit_header(s, vn=vn, create=False)
            lines["err%d" % ri] = s.op(
                "vnacal_new_set_m_error $%s NULL %d @cs_nf NULL" % (vn, F))
            s.op("vnacal_new_set_pvalue_limit $%s 0x1p-1000" % vn)
            lines["adds%d" % ri] = [sc.emit_std(s, st, i, vn=vn, uid=uid)
                                    for i, st in enumerate(sc.stds)]
            lines["solve%d" % ri] = s.op("vnacal_new_solve $%s" % vn)
            lines["val%d" % ri] = s.op(
                "vnacal_get_parameter_values $vc %s @freq" % cp.var)
            lines["cal%d" % ri] = s.op(
                "ci%d=vnacal_add_calibration $vc \"%s\" $%s" % (ri, rname, vn))
        s.op("vd=vnadata_alloc")
        duts = sc.rand_dut()
        for ri in range(3):
            lines["apply%d" % ri] = sc.emit_apply(s, duts, "x", form="m",
                                                  ci="$ci%d" % ri,
                                                  tag="d%d" % ri)
        cid = "cs%d_%d" % (chunk_id, k)
        cases.append((cid, s.text()))
        meta[cid] = (sc, kappa, n, knots, lines)
    wd = os.path.join(workroot, "cs%d" % chunk_id)
    results = R.run_cases(binary, cases, wd, timeout=1200)
    for cid, text in cases:
        res = results[cid]
        sc, kappa, n, knots, lines = meta[cid]
        v, inc = R.standard_violations(res, text, PROP)
        part["violations"] += v
        part["inconclusive"] += inc

        def bad(what, desc):
            part["violations"].append(dict(
                key="%s:%s" % (PROP, what),
                desc="%s %dx%d, %d calibration frequencies %r..%r, sigma "
                     "grid of %d points %r..%r: %s" % (
                         sc.ctype, sc.p, sc.p, sc.F, sc.freqs[0], sc.freqs[-1],
                         n, knots[0], knots[-1], desc),
                script=text))
        S, P = [], []
        usable = True
        for ri in range(3):
            adds = [res.ev(ln) for ln in lines["adds%d" % ri]]
            if any(e is None for e in adds):
                usable = False
                break
            refused = [e for e in adds if e.get("ret") != 0]
            if refused:
                bad("covering-sigma-grid-refused:vnacal_new_add",
                    "a correlated standard whose sigma grid covers the band "
                    "was refused: %s" % str(refused[0])[:300])
                usable = False
                break
            e = res.ev(lines["solve%d" % ri])
            if e is None or e.get("ret") != 0:
                bump(part, "cs_solve_failed")
                usable = False
                break
            la, ld = lines["apply%d" % ri]
            d = res.ev(ld)
            pv = res.ev(lines["val%d" % ri])
            if (res.ev(la) or {}).get("ret") != 0 or d is None or \
                    "out" not in d or pv is None or \
                    not isinstance(pv.get("ret"), list):
                usable = False
                break
            S.append([np.array([cval(x) for x in d["out"]["data"][f]])
                      for f in range(sc.F)])
            P.append(np.array([cval(x) for x in pv["ret"]]))
        if not usable:
            continue
        part["evaluations"] += 1
        bump(part, "cs_scenarios")
        bump(part, "cs_knots:%d" % min(n, 6))
        part["distinct"].add(("cs", sc.ctype, sc.p, sc.F, n))
        for ri, nm, nk in ((2, "its own grid of %d points" % n, n),
                           (1, "the calibration grid passed explicitly "
                               "(%d points)" % sc.F, sc.F)):
            err = max(float(np.max(np.abs(S[ri][f] - S[0][f])))
                      if np.all(np.isfinite(S[ri][f])) else float("inf")
                      for f in range(sc.F))
            perr = float(np.max(np.abs(P[ri] - P[0]))) \
                if np.all(np.isfinite(P[ri])) else float("inf")
            peak(part, "max_sigma_grid_difference", max(err, perr)
                 if np.isfinite(max(err, perr)) else 1e300)
            if not (max(err, perr) <= TOL_NOISE):
                bad("linear-sigma-not-reproduced:%dknots" % min(nk, 6),
                    "the same linear sigma law of a correlated parameter "
                    "given on %s and per calibration frequency gives "
                    "corrected S differing by %.3g and solved parameter "
                    "values differing by %.3g (limit %.1g)" % (
                        nm, err, perr, TOL_NOISE))
                break
        if len(part["samples"]) < 1:
            part["samples"].append(dict(
                part="cs", type=sc.ctype, ports=sc.p,
                grid=[float(x) for x in sc.freqs],
                sigma_grid=[float(x) for x in knots]))
    return part


def calgen_reset(sc):
    for st in sc.stds:
        for row in st.sp:
            for prm in row:
                prm.var = None


# ----------------------------------------------------------------------
# pk: optional peek at _vnacal_rfi for every window size
# ----------------------------------------------------------------------
def work_pk(chunk_id, payload):
    seed, tier, count, binary, workroot = payload
    rng = np.random.default_rng([seed, chunk_id, 1005])
    part = new_part()
    s = R.Script()
    la = s.op("peek_available")
    meta = []
    for k in range(count):
        n = pick_n(rng, k)
        m = int(rng.integers(1, min(n, MAX_M) + 1))
        scale = 10.0 ** rng.uniform(-3, 10)
        lo = scale * rng.uniform(1, 3)
        hi = lo * rng.uniform(1.3, 8) if n > 1 else lo
        knots = knot_vector(rng, n, lo, hi, 0.2)
        law = Rational(rng, ORDERS[m], lo, hi, 0.0, 1.0)
        vals = law(knots)
        q = list(knots) + between_points(rng, knots, per=1)
        asc = sorted(q)
        sh = list(asc) + list(asc[::2])
        rng.shuffle(sh)
        s.rvec("x", knots)
        s.cvec("y", vals)
        evs = []
        for name, qq in (("asc", asc), ("desc", asc[::-1]), ("shuffled", sh)):
            s.rvec("q", qq)
            evs.append((s.op("peek_rfi @x @y %d @q" % m), qq, name))
        meta.append(dict(n=n, m=m, knots=knots, vals=vals, law=law, evs=evs))
    text = s.text()
    wd = os.path.join(workroot, "pk%d" % chunk_id)
    res = R.run_cases(binary, [("pk", text)], wd, timeout=900)["pk"]
    v, inc = R.standard_violations(res, text, PROP)
    part["violations"] += v
    part["inconclusive"] += inc
    e = res.ev(la)
    if e is None or e.get("ret") != 1:
        part["inconclusive"].append(dict(key="peek-unavailable"))
        return part
    lines = text.split("\n")
    for md in meta:
        seen = {}
        okc = True
        for ln, qq, name in md["evs"]:
            e = res.ev(ln)
            if e is None or "ret" not in e:
                okc = False
                break
            for f, x in zip(qq, e["ret"]):
                seen.setdefault(f, []).append((name, cval(x)))
        if not okc:
            if any((res.ev(ln) or {}).get("skipped") for ln, _, _ in md["evs"]):
                part["inconclusive"].append(dict(key="peek-unavailable"))
            continue
        part["evaluations"] += 1
        bump(part, "pk_cases")
        part["distinct"].add(("pk", md["n"], md["m"],
                              round(float(md["knots"][0]), 6)))
        first_ln = md["evs"][0][0]
        # buffers x, y and q precede each peek line
        script = "\n".join(lines[first_ln - 4:md["evs"][-1][0]]) + "\n"
        kn = {float(x): complex(y) for x, y in zip(md["knots"], md["vals"])}
        ymax = float(np.max(np.abs(md["vals"])))

        def bad(what, desc):
            part["violations"].append(dict(
                key="%s:%s:_vnacal_rfi" % (PROP, what), desc=desc,
                script=script))
        for f, lst in seen.items():
            a = lst[0][1]
            if any(not (b.real == a.real and b.imag == a.imag)
                   for _, b in lst[1:]):
                bad("query-order-dependence", "n=%d m=%d: value at %r depends "
                    "on the query order: %r" % (md["n"], md["m"], f, lst))
                break
            if f in kn:
                if not (a.real == kn[f].real and a.imag == kn[f].imag):
                    bad("knot-not-exact", "n=%d m=%d: value at knot %r is %r, "
                        "supplied %r" % (md["n"], md["m"], f, a, kn[f]))
                    break
            elif md["m"] == min(md["n"], MAX_M) or md["m"] == md["n"]:
                pass
            if f not in kn:
                # an m-point window reproduces a rational function of its
                # order whatever the number of knots
                w = complex(md["law"](np.array([f]))[0])
                err = abs(a - w) / max(abs(w), 0.01 * ymax)
                peak(part, "max_peek_interp_rel_err", err)
                if not (err <= TOL_INTERP):
                    bad("rational-not-reproduced:m%d" % md["m"],
                        "n=%d m=%d: value at %r is %r, the (%d,%d) rational "
                        "function gives %r (relative error %.3g)" % (
                            md["n"], md["m"], f, a, ORDERS[md["m"]][0],
                            ORDERS[md["m"]][1], w, err))
                    break
    return part


WORKERS = dict(pv=work_pv, ap=work_ap, rg=work_rg, nz=work_nz, pk=work_pk,
               cs=work_cs)


def dispatch(chunk_id, payload):
    kind, sub_id, rest = payload
    return WORKERS[kind](sub_id, rest)


def main():
    chk = R.Check(PROP)
    binary = chk.build("asan")
    quick = chk.tier == "quick"
    sc = chk.args.scale
    plan = [("pv", 16 if quick else 64, int((250 if quick else 1600) * sc)),
            ("ap", 16 if quick else 64, int((30 if quick else 300) * sc)),
            ("rg", 16 if quick else 64, int((120 if quick else 800) * sc)),
            ("nz", 16 if quick else 64, int((20 if quick else 200) * sc)),
            ("cs", 16 if quick else 64, int((12 if quick else 120) * sc)),
            ("pk", 8 if quick else 16, int((200 if quick else 2000) * sc))]
    payloads = []
    for kind, nch, per in plan:
        if ONLY and kind not in ONLY.split(","):
            continue
        for i in range(nch):
            payloads.append((kind, i, (chk.seed, chk.tier, max(1, per), binary,
                                       chk.workroot)))
    order = {"nz": 0, "cs": 0, "ap": 1, "rg": 2, "pv": 3, "pk": 4}
    payloads.sort(key=lambda p: order[p[0]])
    one_per_part = {}
    for part in R.pmap(dispatch, payloads):
        for sm in part.get("samples", []):
            one_per_part.setdefault(sm.get("part"), sm)
        chk.merge(part)
    chk.samples = list(one_per_part.values())[:6]
    chk.finish(
        rule="pv: vector parameters with 1..12 knots (2 in every fourth "
             "case) at frequency scales 1e-3..1e10, random complex values "
             "(bit-exactness at knots) or samples of a rational function of "
             "the order an n-point window (n<=5) represents with |denominator| "
             ">= 0.3 mean; queried at knots, between knots and next to knots, "
             "ascending / descending / shuffled with repeats, two parameters "
             "interleaved; queries >= 5% outside refused. ap: calibrations "
             "(all eight types, 1..3 ports, grids of 1..12 points) of an error "
             "network whose terms are A g(f)+B with g rational of the window's "
             "order, standards partly given as vector parameters on their own "
             "covering grids, applied between and on grid points, requests "
             ">= 5% outside the band refused. rg: vector standards, correlated "
             "standards (scalar or unknown correlate, so that only the sigma "
             "frequency vector limits the range) and noise "
             "vectors covering / missing the band by >= 5% at the low, high or "
             "both ends, through six add entry points, parameter used before "
             "or after vnacal_new_set_frequency_vector. nz: linear noise laws "
             "(sigma_nf and sigma_tr with different slopes) on their own grid "
             "of 2..12 points vs on the calibration grid vs NULL grid: same "
             "corrected S. pk: _vnacal_rfi through the optional peek for every "
             "window size. distinct = distinct (part, knots or type, scale or "
             "size, class) tuples judged.",
        min_events=20,
        assumptions=["numpy long double evaluation of the rational laws is "
                     "the reference",
                     "the slack of the range checks is not a documented "
                     "number: misses between 0 and 5 % are not asserted",
                     "error-network model M = El + Er (I - S Em)^-1 S Et "
                     "(physics.py); only Er varies with frequency"])


if __name__ == "__main__":
    main()
