#!/usr/bin/env python3-vt
"""C02: self-calibration recovers unknown standard parameters and the
calibration.

Monitor: scenarios from the independent E-term model in which some standards
carry unknown or correlated parameters.  (a) analytic TRL path (2x2
T8/U8/TE10/UE10, exactly through + unknown reflect + unknown line);
(b) Levenberg-Marquardt path on every type with 1..3 unknowns, tolerances
1e-4..1e-12, iteration limits 1..100, with and without measurement-error
weighting.  Oracle on the event log: every solve returns (watchdog), a failure
is -1/EDOM with one MATH message, a success gives parameter values and a
device correction within a small multiple of the configured tolerance.
"""
import os
import sys

import numpy as np

sys.path.insert(0, os.path.join(os.path.dirname(os.path.abspath(__file__)),
                                "..", "pylib"))
import calgen  # noqa: E402
import physics  # noqa: E402
import runner as R  # noqa: E402
from calgen import Param, Std, one, zero  # noqa: E402
from runner import Script, cx, hx, qs  # noqa: E402

PROP = "C02"
calgen.Scenario.rotate_prob = 0.5


def guess_param(rng, truth, radius, F):
    """a const-free guess Param within `radius` of the truth"""
    d = (rng.standard_normal() + 1j * rng.standard_normal())
    d = d / abs(d) * radius * rng.uniform(0.2, 1.0)
    spread = float(np.max(np.abs(np.asarray(truth) - np.mean(truth))))
    if F > 1 and (rng.random() < 0.5 or spread > 0.2 * radius):
        # (one scalar cannot be within the radius of a truth that varies more
        # than that over the band)
        return Param("vector", np.asarray(truth) + d)
    return Param("scalar", np.full(F, np.mean(truth) + d, dtype=complex))


def trl_scenario(rng, ctype, F):
    sc = calgen.Scenario(ctype, 2, 2, F, rng)
    f = sc.freqs
    Rt = (0.7 + 0.3 * rng.random()) * np.exp(1j * rng.uniform(-np.pi, np.pi)) \
        * np.exp(-1j * 0.3 * (f - f[0]) / (f[-1] - f[0] + 1.0))
    th0 = rng.uniform(np.radians(25), np.radians(70))
    th = th0 * (1.0 + 1.2 * (f - f[0]) / (f[-1] - f[0] + 1.0))
    Lt = np.exp(-0.02 - 1j * th)
    Rg = guess_param(rng, Rt, 0.3, F)
    if F >= 2 and rng.random() < 0.3:
        # a reflect whose phase swings by more than 90 degrees from one
        # frequency to the next while staying within 90 degrees of the one
        # scalar guess: every frequency is solved from the guess, not from
        # its neighbour's solution
        # (the other solution of the analytic case is (1/L, 1/R): with
        # |R| = 0.62..0.75 the guess -|R| is at least 1.4 times nearer to R
        # than to 1/R, while R of the neighbouring frequency is nearer to 1/R)
        swing = rng.uniform(np.radians(70), np.radians(85))
        mag = rng.uniform(0.62, 0.75)
        sg = np.array([1.0 if (k + int(rng.integers(0, 2))) % 2 else -1.0
                       for k in range(F)])
        if np.all(sg == sg[0]):
            sg[-1] = -sg[0]
        Rt = mag * np.exp(1j * (np.pi + sg * swing))
        Rg = Param("scalar", np.full(F, -mag, dtype=complex))
    # the two candidate roots for the line are L and 1/L: the guess must be
    # nearer the true one at every frequency (phase error below the smaller
    # of theta and pi - theta), with margin
    lim = 0.6 * float(np.min(np.minimum(th, np.pi - th)))
    ph = rng.uniform(-lim, lim)
    if F > 1 and rng.random() < 0.5:
        Lg = Param("vector", Lt * np.exp(1j * ph))
    else:
        Lg = Param("scalar", np.full(F, np.mean(Lt) * np.exp(1j * ph),
                                     dtype=complex))
        if np.any(np.abs(Lg.values - Lt) > 0.6 * np.abs(Lg.values - 1 / Lt)):
            Lg = Param("vector", Lt * np.exp(1j * ph))
    Rp = Param.unknown(Rt, Rg)
    Lp = Param.unknown(Lt, Lg)
    swap = rng.random() < 0.5
    ports = [2, 1] if swap else [1, 2]
    sT = Std(ports, [[zero(F), one(F)], [one(F), zero(F)]], F, rng, 2)
    sR = Std([1, 2], [[Rp, zero(F)], [zero(F), Rp]], F, rng, 2)
    sL = Std(ports, [[zero(F), Lp], [Lp, zero(F)]], F, rng, 2)
    sT.entry = str(rng.choice(["through", "line", "mapped_matrix"]))
    sR.entry = str(rng.choice(["double_reflect", "mapped_matrix"]))
    sL.entry = str(rng.choice(["line", "mapped_matrix"]))
    sc.stds = [sT, sR, sL]
    order = rng.permutation(3)
    sc.stds = [sc.stds[i] for i in order]
    for st in sc.stds:
        st.form = sc.form
        st.full_rows = st.full_cols = True
        st.use_null_map = False
    return sc, [("R", Rp), ("L", Lp)]


def near_trl_scenario(rng, ctype, F):
    """three standards and two unknowns that look like TRL but are not
    (they must be solved by the general method): the reflect carries the
    unknown on one port only, or the line is not matched / not reciprocal"""
    sc, unk = trl_scenario(rng, ctype, F)
    by = {}
    for st in sc.stds:
        if st.is_through():
            by["T"] = st
        elif st.is_diag():
            by["R"] = st
        else:
            by["L"] = st
    var = int(rng.integers(0, 4))
    # the known reflect of variant 0 must actually reflect: a match (or a
    # nearly matched load) says nothing about the reflection tracking term,
    # and thru + line + reflect-on-one-port then leave a one-parameter family
    # of exact solutions (enough equations, terms not determined)
    for _ in range(50):
        known = calgen.rand_param(rng, F, 0.8)
        if float(np.min(np.abs(known.values))) > 0.3:
            break
    if var == 0:
        # unknown reflect on one port, a different known reflect on the other
        k = int(rng.integers(0, 2))
        by["R"].sp[k][k] = known
    elif var == 1:
        # line with known, non-zero reflections
        by["L"].sp[0][0] = calgen.rand_param(rng, F, 0.3, allow_const=False)
        by["L"].sp[1][1] = calgen.rand_param(rng, F, 0.3, allow_const=False)
    elif var == 2:
        # non-reciprocal line: the unknown in one direction only
        by["L"].sp[1][0] = Param("scalar", np.full(
            F, np.mean(by["L"].sp[0][1].values) * 0.9, dtype=complex))
    else:
        # the "through" is a known line with a little mismatch
        by["T"].sp[0][0] = calgen.rand_param(rng, F, 0.2, allow_const=False)
        by["T"].sp[0][1] = Param("scalar", np.full(F, 0.95 * np.exp(0.3j)))
        by["T"].sp[1][0] = by["T"].sp[0][1]
    for st in sc.stds:
        st.entry = "mapped_matrix" if st.entry in ("through", "double_reflect") \
            and not (st.is_through() if st.entry == "through" else st.is_diag()) \
            else st.entry
        if st.entry == "through" and not st.is_through():
            st.entry = "line"
    # tighter guesses: these go through Levenberg-Marquardt
    for name, prm in unk:
        prm.guess = guess_param(rng, prm.values, 0.05, F)
    return sc, unk, var


def lm_scenario(rng, ctype, r, c, F, radius, corr_only=False):
    for _ in range(8):
        sc = calgen.Scenario(ctype, r, c, F, rng)
        sc.sufficient_recipe(extras=0)
        ok, kappa = False, None
        sc.choose_entries()
        ok, kappa = sc.well_determined(1e3)
        if ok:
            break
    if not ok:
        return None, None, None
    p = sc.p
    ports = list(range(1, p + 1))
    unknowns = []
    nunk = int(rng.integers(1, 4))
    kinds = []
    while len(unknowns) < nunk:
        k = rng.integers(0, 4)
        truth = (rng.standard_normal() + 1j * rng.standard_normal()) * 0.5 + \
            0.1 * (rng.standard_normal(F) + 1j * rng.standard_normal(F))
        if corr_only:
            # no plain unknown anywhere: every solved parameter is correlated
            # with a KNOWN value `radius` away, so weakly (sigma 1e5..1e7)
            # that the pull towards it is far below every tolerance and the
            # solved value must be the truth
            prm = Param.correlated(truth, guess_param(rng, truth, radius, F),
                                   10 ** rng.uniform(5, 7))
        else:
            prm = Param.unknown(truth, guess_param(rng, truth, radius, F))
        if k == 0 or p == 1:
            # unknown single reflect on one port only
            q = int(rng.choice(ports))
            st = sc.add_reflect([q], [prm])
            kinds.append("single_reflect")
        elif k == 1:
            a, b = [int(x) for x in rng.choice(ports, 2, replace=False)]
            st = sc.add_reflect([a, b], [prm, prm])
            kinds.append("double_reflect_shared")
        elif k == 2:
            a, b = [int(x) for x in rng.choice(ports, 2, replace=False)]
            F_ = F
            sp = [[calgen.rand_param(rng, F_, 0.2, allow_const=False), prm],
                  [prm, calgen.rand_param(rng, F_, 0.2, allow_const=False)]]
            st = Std([a, b], sp, F, rng, p)
            sc.stds.append(st)
            kinds.append("line_unknown_transmission")
        else:
            a, b = [int(x) for x in rng.choice(ports, 2, replace=False)]
            sp = [[prm, one(F)], [one(F), calgen.rand_param(rng, F, 0.3)]]
            st = Std([a, b], sp, F, rng, p)
            sc.stds.append(st)
            kinds.append("partially_unknown_matrix")
        unknowns.append(("u%d" % len(unknowns), prm))
        # a second standard seeing the same unknown makes it over-determined
        if rng.random() < 0.6:
            q = int(rng.choice(ports))
            sc.add_reflect([q], [prm])
    # correlated parameter whose truth equals (or nearly equals) its correlate
    corr = None
    if not corr_only and rng.random() < 0.35:
        base = unknowns[0][1]
        delta = 0.0 if rng.random() < 0.5 else 10 ** rng.uniform(-6, -3)
        tr = base.values + delta
        cp = Param.correlated(tr, base, 10 ** rng.uniform(-3, -1))
        q = int(rng.choice(ports))
        sc.add_reflect([q], [cp])
        sc.add_reflect([int(rng.choice(ports))], [cp])
        corr = (cp, delta)
        if rng.random() < 0.4:
            # a chain: a second correlated parameter whose correlate is the
            # first one (itself solved for), measured twice as well
            cp2 = Param.correlated(cp.values + delta, cp,
                                   10 ** rng.uniform(-3, -1))
            sc.add_reflect([int(rng.choice(ports))], [cp2])
            sc.add_reflect([int(rng.choice(ports))], [cp2])
            kinds.append("correlated_chain")
            corr = (cp, 2 * delta)
    known_n = None
    sc.choose_entries()
    # entry choice may abbreviate matrices of the leakage standards
    for st in sc.stds:
        if getattr(st, "must_full", False):
            st.full_rows = st.full_cols = True
    order = rng.permutation(len(sc.stds))
    sc.stds = [sc.stds[i] for i in order]
    return sc, unknowns, dict(kappa=kappa, kinds=kinds, corr=corr)


def emit(sc, unknowns, settings, duts):
    sc.reset_vars()
    s = Script()
    L = {}
    sc.emit_header(s)
    if "p_tol" in settings:
        s.op("vnacal_new_set_p_tolerance $vn %s" % hx(settings["p_tol"]))
        s.op("vnacal_new_set_et_tolerance $vn %s" % hx(
            settings.get("et_tol", settings["p_tol"])))
    if "iter" in settings:
        s.op("vnacal_new_set_iteration_limit $vn %d" % settings["iter"])
    if settings.get("m_error"):
        # the noise floor must stay well above the stopping tolerance, or
        # the unconverged remainder is (rightly) judged inconsistent
        s.rvec("nf", [max(1e-6, 1e3 * settings.get("p_tol", 1e-6))] * sc.F)
        s.op("vnacal_new_set_m_error $vn NULL %d @nf NULL" % sc.F)
    uid = [0]
    L["add"] = [sc.emit_std(s, st, i, uid=uid) for i, st in enumerate(sc.stds)]
    s.rvec("qf", sc.freqs)
    L["solve"] = s.op("vnacal_new_solve $vn")
    L["values"] = {}
    for name, prm in unknowns:
        L["values"][name] = s.op("vnacal_get_parameter_values $vc %s @qf" % prm.var)
    L["addcal"] = s.op("ci=vnacal_add_calibration $vc \"c\" $vn")
    s.op("vd=vnadata_alloc")
    L["apply"], L["dump"] = sc.emit_apply(s, duts, "c")
    return s, L


def work(chunk_id, payload):
    seed, n_trl, n_lm, binary, workroot = payload
    rng = np.random.default_rng([seed, chunk_id, 202])
    part = dict(evaluations=0, counters={}, maxima={}, distinct=set(),
                samples=[], violations=[], inconclusive=[], harness_errors=[])
    cnt = part["counters"]

    def bump(k, n=1):
        cnt[k] = cnt.get(k, 0) + n
    cases, meta = [], {}
    for k in range(n_trl):
        ctype = ["T8", "U8", "TE10", "UE10"][(chunk_id + k) % 4]
        F = int(rng.choice([1, 2, 3, 5]))
        sc, unk = trl_scenario(rng, ctype, F)
        duts = sc.rand_dut()
        s, L = emit(sc, unk, {}, duts)
        cid = "trl%d_%d" % (chunk_id, k)
        cases.append((cid, s.text()))
        meta[cid] = ("trl", sc, unk, L, duts, dict(tol=1e-6, kappa=10.0,
                                                  iter=30, corr=None), {})
    for k in range(max(1, n_trl // 2)):
        ctype = ["T8", "U8", "TE10", "UE10"][(chunk_id + k) % 4]
        F = int(rng.choice([1, 2, 3]))
        sc, unk, var = near_trl_scenario(rng, ctype, F)
        duts = sc.rand_dut()
        settings = dict(p_tol=1e-8, iter=100)
        s, L = emit(sc, unk, settings, duts)
        cid = "ntrl%d_%d" % (chunk_id, k)
        cases.append((cid, s.text()))
        meta[cid] = ("lm", sc, unk, L, duts,
                     dict(tol=1e-8, kappa=30.0, iter=100, radius=0.05,
                          corr=None, kinds=["near_trl_variant_%d" % var]),
                     settings)
    for k in range(n_lm):
        ctype = physics.TYPES[(chunk_id * 5 + k) % 8]
        p = int(rng.choice([1, 2, 2, 2, 3]))
        r = c = p
        # (rectangular shapes are left to the known-standard checks: an
        # unknown on a port without detector or driver is not identifiable)
        F = int(rng.choice([1, 2, 3]))
        tol = float(rng.choice([1e-4, 1e-6, 1e-8, 1e-10, 1e-12]))
        it = int(rng.choice([1, 2, 3, 5, 10, 30, 30, 100, 100]))
        radius = float(rng.choice([0.02, 0.05, 0.1]))
        # far family: guesses well outside the basin.  Nothing is claimed
        # about what such a solve finds; it must return, report a failure as
        # documented and stay clean under the sanitizers while the step
        # control backs off and restores earlier iterates
        far = rng.random() < 0.2
        if far:
            radius = float(rng.choice([0.4, 0.8, 1.5]))
            it = int(rng.choice([30, 100, 100]))
        corr_only = (not far) and rng.random() < 0.15
        sc, unk, info = lm_scenario(rng, ctype, r, c, F, radius, corr_only)
        if sc is None:
            bump("skipped_not_well_determined")
            continue
        if corr_only:
            info["kinds"] = ["corr_only"] + list(info.get("kinds", []))
            bump("lm_scenarios_with_correlated_parameters_only")
        settings = dict(p_tol=tol, iter=it,
                        m_error=(rng.random() < (0.6 if far else 0.3) and
                                 ctype not in ("T16", "U16")))
        if not far and rng.random() < 0.15:
            # neither tolerance is ever set: the documented defaults (1e-6)
            # are what the result is held to
            tol = 1e-6
            del settings["p_tol"]
            info["kinds"] = ["default_tolerances"] + list(info.get("kinds", []))
            bump("lm_scenarios_with_default_tolerances")
        info["far"] = far
        if not far and not settings["m_error"] and "p_tol" in settings and \
                rng.random() < 0.35:
            # the two tolerances set independently: the parameters are held
            # to p_tolerance however loosely the error terms are allowed to
            # settle
            settings["et_tol"] = float(min(1e-2, tol * 10 ** rng.uniform(2, 8)))
            info["et_tol"] = settings["et_tol"]
        duts = sc.rand_dut()
        s, L = emit(sc, unk, settings, duts)
        cid = "lm%d_%d" % (chunk_id, k)
        cases.append((cid, s.text()))
        info.update(tol=tol, iter=it, radius=radius)
        meta[cid] = ("lm", sc, unk, L, duts, info, settings)
    wd = os.path.join(workroot, "w%d" % chunk_id)
    results = R.run_cases(binary, cases, wd, timeout=3600, watchdog=60)
    # a watchdog hit is re-run once alone with a longer limit before it is
    # called a hang
    for cid, text in cases:
        if results[cid].status == "timeout":
            results[cid] = R.run_cases(binary, [(cid, text)], wd + "r",
                                       timeout=900, watchdog=300)[cid]
    for cid, text in cases:
        res = results[cid]
        path, sc, unk, L, duts, info, settings = meta[cid]
        if getattr(sc, "rotated", False):
            bump("scenarios_with_arbitrary_tracking_phases")
        v, inc = R.standard_violations(res, text, PROP)
        part["violations"] += v
        part["inconclusive"] += inc
        if res.status != "ok":
            continue

        def bad(what, desc):
            part["violations"].append(dict(
                key="%s:%s:%s:%s" % (PROP, path, what, sc.ctype),
                desc="%s %s %dx%d F=%d form=%s %s: %s" % (
                    path, sc.ctype, sc.r, sc.c, sc.F, sc.form,
                    {k_: info[k_] for k_ in info if k_ in
                     ("tol", "et_tol", "iter", "radius", "kinds")} | dict(
                         corr_delta=(info.get("corr") or (0, None))[1],
                         m_error=settings.get("m_error")), desc),
                script=text))
        added = True
        for ln in L["add"]:
            e = res.ev(ln)
            if e is None or e.get("ret") != 0:
                bad("add-refused", "standard refused: %s" % e)
                added = False
                break
        if not added:
            continue
        es = res.ev(L["solve"])
        if es is None or "ret" not in es:
            continue
        part["evaluations"] += 1
        part["distinct"].add((path, sc.ctype, sc.r, sc.c, sc.form,
                              info.get("tol"), info.get("iter"),
                              settings.get("m_error", False), len(unk)))
        bump("solves:" + path)
        if info.get("far"):
            bump("far_guess_solves")
        if es["ret"] != 0:
            bump("failed:" + path)
            bump("failed:%s:iter%s" % (path, info.get("iter")))
            cbs = [c_ for c_ in es.get("cb", []) if c_[0] != "WARNING"]
            if es["ret"] != -1 or es.get("errno") != "EDOM" or \
                    len(cbs) != 1 or cbs[0][0] != "MATH":
                bad("failure-report", "failed solve must be -1/EDOM with one "
                    "MATH message: %s" % es)
            if path == "trl":
                bad("no-solution", "analytic TRL with guesses nearest the "
                    "true roots failed: %s" % es)
            elif info["iter"] >= 30 and info["tol"] >= 1e-10 and \
                    info["radius"] <= 0.05 and not settings.get("m_error"):
                bump("failed_in_basin")
                bump("basin:failed:%s" % sc.ctype)
                if len(part["samples"]) < 3:
                    part["samples"].append(dict(
                        kind="failed-in-basin", type=sc.ctype,
                        shape="%dx%d" % (sc.r, sc.c), info=str(info)[:300],
                        event=str(es)[:300]))
            continue
        if info.get("far"):
            bump("far_guess_solves_returned_success")
            continue
        bump("converged:" + path)
        if path == "lm" and info["iter"] >= 30 and info["tol"] >= 1e-10 and \
                info["radius"] <= 0.05 and not settings.get("m_error"):
            bump("converged_in_basin")
            bump("basin:converged:%s" % sc.ctype)
        tol = info["tol"]
        bound = 30 * tol + 1e-10 * (1 + info["kappa"])
        if path == "trl":
            bound = 1e-10
        corr = info.get("corr")
        if corr is not None and corr[1] > 0:
            # the correlate legitimately pulls the estimates together
            bound += 10.0 * corr[1]
        worst_p = 0.0
        for name, prm in unk:
            ev = res.ev(L["values"][name])
            if ev is None or not isinstance(ev.get("ret"), list):
                bad("value-unavailable", "vnacal_get_parameter_value of a "
                    "solved unknown failed: %s" % ev)
                continue
            got = np.array([complex(a, b) for a, b in ev["ret"]])
            err = float(np.max(np.abs(got - prm.values))) \
                if np.all(np.isfinite(got)) else float("inf")
            worst_p = max(worst_p, err)
        part["maxima"]["max_param_err_over_bound:" + path] = max(
            part["maxima"].get("max_param_err_over_bound:" + path, 0.0),
            worst_p / bound)
        if not (worst_p <= bound):
            bad("wrong-parameter", "solved parameter differs from the truth by "
                "%.3g (bound %.3g = 30*tol + 1e-10(1+kappa))" % (worst_p, bound))
        ea = res.ev(L["apply"])
        ed = res.ev(L["dump"])
        if ea is None or ed is None or ea.get("ret") != 0 or "out" not in ed:
            bad("apply-failed", str(ea))
            continue
        p = sc.p
        worst = 0.0
        for f in range(sc.F):
            got = np.array([complex(a, b) for a, b in
                            ed["out"]["data"][f]]).reshape(p, p)
            e = float(np.max(np.abs(got - duts[f]))) \
                if np.all(np.isfinite(got)) else float("inf")
            worst = max(worst, e)
        # the device error also scales with the conditioning of the known set
        dbound = bound * (1 + info["kappa"])
        if info.get("et_tol"):
            # ... and the error terms were only asked to settle to et_tol
            dbound = (bound + 30 * info["et_tol"]) * (1 + info["kappa"])
            bump("solves_with_independent_tolerances")
        part["maxima"]["max_dut_err_over_bound:" + path] = max(
            part["maxima"].get("max_dut_err_over_bound:" + path, 0.0),
            worst / dbound)
        if not (worst <= dbound):
            bad("wrong-correction", "device corrected with error %.3g (bound "
                "%.3g)" % (worst, dbound))
        if len(part["samples"]) < 1:
            part["samples"].append(dict(
                path=path, type=sc.ctype, rows=sc.r, cols=sc.c, F=sc.F,
                settings=settings, unknowns=len(unk), param_error=worst_p,
                dut_error=worst))
    return part


def work_resolve(chunk_id, payload):
    """one unknown reflect solved more than once (two vnacal_new_t of one
    vnacal_t, re-solves) on different frequency grids with the same or a
    different number of points: after every successful solve
    vnacal_get_parameter_value on that solve's grid returns what that solve
    found (the truth, the data being exact)"""
    import gen_handles
    seed, n, binary, workroot = payload
    part = dict(evaluations=0, counters={}, maxima={}, distinct=set(),
                samples=[], violations=[], inconclusive=[], harness_errors=[])
    cnt = part["counters"]
    cases, gens = [], {}
    for k in range(n):
        rng = np.random.default_rng([seed, chunk_id, k, 222])
        g = gen_handles.ResolveGen(rng)
        text = g.generate()
        if text is not None and g.kind == "unknown":
            cid = "r%d_%d" % (chunk_id, k)
            cases.append((cid, text))
            gens[cid] = g
    wd = os.path.join(workroot, "wr%d" % chunk_id)
    results = R.run_cases(binary, cases, wd, timeout=1800, watchdog=60)
    for cid, text in cases:
        res, g = results[cid], gens[cid]
        v, inc = R.standard_violations(res, text, PROP)
        part["violations"] += v
        part["inconclusive"] += inc
        if res.status != "ok":
            continue
        part["evaluations"] += 1
        part["distinct"].add(("resolve",) + tuple(g.shape))
        for c in g.checks:
            sv, ev = res.ev(c["solve"]), res.ev(c["line"])
            if sv is None or ev is None or "ret" not in ev or \
                    sv.get("ret") != 0:
                continue
            cnt["resolved_values_checked"] = cnt.get(
                "resolved_values_checked", 0) + 1
            worst = float("inf")
            if len(ev["ret"]) == len(c["truth"]):
                worst = 0.0
                for got, want in zip(ev["ret"], c["truth"]):
                    z = complex(got[0], got[1])
                    worst = max(worst, abs(z - want) if np.isfinite(z)
                                else float("inf"))
            rel = worst / (1e-10 * (1 + c["kappa"]))
            part["maxima"]["max_param_err_over_bound:resolve"] = max(
                part["maxima"].get("max_param_err_over_bound:resolve", 0.0),
                rel if np.isfinite(rel) else 1e300)
            if not rel <= 1.0:
                part["violations"].append(dict(
                    key="%s:resolve:wrong-parameter-value" % PROP,
                    desc="unknown reflect solved by %s / %s (%s, %s): %s: "
                         "vnacal_get_parameter_value on that solve's grid "
                         "returns %s, true values %s" % (
                             g.shape[2], g.shape[3], g.shape[0], g.shape[1],
                             c["what"], ev["ret"],
                             [complex(x) for x in c["truth"]]),
                    script=text))
    return part


def work_again(chunk_id, payload):
    """the analytic through / reflect / line case solved twice in one
    vnacal_t with the same two unknown handles (same initial guesses): the
    second set of standards has another reflect, whose sign ambiguity is
    resolved correctly from the guess (-|R|) but wrongly from the first
    solution.  Every solve starts from the guesses the user gave."""
    seed, n, binary, workroot = payload
    part = dict(evaluations=0, counters={}, maxima={}, distinct=set(),
                samples=[], violations=[], inconclusive=[], harness_errors=[])
    cnt = part["counters"]
    cases, meta = [], {}
    for k in range(n):
        rng = np.random.default_rng([seed, chunk_id, k, 232])
        ctype = ["T8", "U8", "TE10", "UE10"][(chunk_id + k) % 4]
        F = int(rng.choice([1, 2, 3]))
        A, unkA = trl_scenario(rng, ctype, F)
        B, unkB = trl_scenario(rng, ctype, F)
        B.freqs = A.freqs.copy()
        (_, RpA), (_, LpA) = unkA
        (_, RpB), (_, LpB) = unkB
        # the other solution of the analytic case is (1/L, 1/R): with
        # |R| = 0.62..0.75 the guess -|R| is at least 1.4 times nearer to the
        # second R than to its reciprocal, while the first solution is nearer
        # to the reciprocal
        th = rng.uniform(np.radians(70), np.radians(85))
        mag = rng.uniform(0.62, 0.75)
        RpA.values = np.full(F, mag * np.exp(1j * (np.pi - th)))
        RpB.values = np.full(F, mag * np.exp(1j * (np.pi + th)))
        RpA.guess = Param("scalar", np.full(F, -mag, dtype=complex))
        LpB.values = LpA.values.copy()
        dutsA, dutsB = A.rand_dut(), B.rand_dut()
        s, L = emit(A, unkA, {}, dutsA)
        RpB.var, LpB.var = RpA.var, LpA.var
        B.emit_header(s, vn="vn2", create=False)
        uid = [7000]
        L2 = dict(add=[B.emit_std(s, st, 100 + i, vn="vn2", uid=uid)
                       for i, st in enumerate(B.stds)])
        L2["solve"] = s.op("vnacal_new_solve $vn2")
        L2["values"] = {"R": s.op("vnacal_get_parameter_values $vc %s @qf"
                                  % RpA.var),
                        "L": s.op("vnacal_get_parameter_values $vc %s @qf"
                                  % LpA.var)}
        cid = "a%d_%d" % (chunk_id, k)
        cases.append((cid, s.text()))
        meta[cid] = (A, B, L, L2, RpA, RpB, LpB)
    wd = os.path.join(workroot, "wa%d" % chunk_id)
    results = R.run_cases(binary, cases, wd, timeout=900, watchdog=60)
    for cid, text in cases:
        res = results[cid]
        A, B, L, L2, RpA, RpB, LpB = meta[cid]
        v, inc = R.standard_violations(res, text, PROP)
        part["violations"] += v
        part["inconclusive"] += inc
        if res.status != "ok":
            continue
        s1, s2 = res.ev(L["solve"]), res.ev(L2["solve"])
        if s1 is None or s2 is None or s1.get("ret") != 0 or \
                not all((res.ev(l) or {}).get("ret") == 0
                        for l in L["add"] + L2["add"]):
            cnt["again_first_solve_failed"] = cnt.get(
                "again_first_solve_failed", 0) + 1
            continue
        part["evaluations"] += 1
        part["distinct"].add(("again", A.ctype, A.F, A.form, B.form))
        cnt["again_pairs"] = cnt.get("again_pairs", 0) + 1

        def bad(what, desc):
            part["violations"].append(dict(
                key="%s:again:%s:%s" % (PROP, what, A.ctype),
                desc="%s F=%d: through / reflect / line solved twice with "
                     "the same unknown handles (guess %s for the reflect; "
                     "first reflect %s, second %s): %s" % (
                         A.ctype, A.F, complex(RpA.guess.values[0]),
                         complex(RpA.values[0]), complex(RpB.values[0]),
                         desc), script=text))
        if s2.get("ret") != 0:
            bad("second-solve-failed", "the second solve failed: %s" % s2)
            continue
        for nm, prm in (("R", RpB), ("L", LpB)):
            ev = res.ev(L2["values"][nm])
            got = None
            if ev is not None and isinstance(ev.get("ret"), list):
                got = np.array([complex(a, b) for a, b in ev["ret"]])
            if got is None or got.shape != prm.values.shape or \
                    not np.all(np.isfinite(got)) or \
                    float(np.max(np.abs(got - prm.values))) > 1e-8:
                bad("wrong-root", "after the second solve %s is %s, the "
                    "second set's true value is %s" % (
                        nm, None if got is None else got.tolist(),
                        prm.values.tolist()))
                break
    return part


def main():
    chk = R.Check(PROP)
    binary = chk.build("asan")
    total = 960 if chk.tier == "quick" else 16000
    total = max(32, int(total * chk.args.scale))
    nchunks = 16 if chk.tier == "quick" else 64
    per = max(2, total // nchunks)
    payloads = [(chk.seed, per // 4, per - per // 4, binary, chk.workroot)
                for _ in range(nchunks)]
    for part in R.pmap(work, payloads):
        chk.merge(part)
    nres = max(2, int((96 if chk.tier == "quick" else 3000) * chk.args.scale)
               // nchunks)
    for part in R.pmap(work_resolve, [(chk.seed, nres, binary, chk.workroot)
                                      for _ in range(nchunks)]):
        chk.merge(part)
    nag = max(2, int((96 if chk.tier == "quick" else 3000) * chk.args.scale)
              // nchunks)
    for part in R.pmap(work_again, [(chk.seed, nag, binary, chk.workroot)
                                    for _ in range(nchunks)]):
        chk.merge(part)
    # convergence floor: inside the basin with ordinary settings the solver
    # must converge most of the time
    cin = chk.counters.get("converged_in_basin", 0)
    fin = chk.counters.get("failed_in_basin", 0)
    if cin + fin >= 20 and cin < 0.5 * (cin + fin):
        chk.violation("C02:lm:does-not-converge-in-basin",
                      "with guesses within 0.05 of the truth, tolerance >= "
                      "1e-10 and iteration limit >= 30 only %d of %d solves "
                      "converged" % (cin, cin + fin))
    for ctype in physics.TYPES:
        c_ = chk.counters.get("basin:converged:%s" % ctype, 0)
        f_ = chk.counters.get("basin:failed:%s" % ctype, 0)
        if c_ + f_ >= 8 and f_ > 0.25 * (c_ + f_):
            chk.violation("C02:lm:does-not-converge-in-basin:%s" % ctype,
                          "%s: with guesses within 0.05 of the truth, "
                          "tolerance >= 1e-10 and iteration limit >= 30, %d "
                          "of %d solves failed" % (ctype, f_, c_ + f_))
    chk.finish(
        rule="TRL: 2x2 T8/U8/TE10/UE10 with through + unknown double reflect + "
             "unknown line (20..160 degrees), guesses within 0.3 / 50 degrees; "
             "LM: every type, shapes 1x1..3x3 (+1x2, 2x1), a sufficient known "
             "set plus 1..3 unknowns (single/double reflect, line, partially "
             "unknown matrix) and correlated parameters, tolerances "
             "1e-4..1e-12 (a third with a looser, independent et_tolerance), "
             "iteration limits 1..100, with/without m_error; half of the "
             "error networks get an arbitrary phase on every receiver and "
             "source path (forward and reverse tracking differ by radians); "
             "15 % have no plain unknown at all (every solved parameter weakly "
             "correlated with a known value); "
             "a fifth of the LM solves start 0.4..1.5 away from the truth "
             "(termination, failure report and sanitizers only); "
             "resolve: one unknown solved repeatedly on different grids, its "
             "value read back after each solve; again: through / reflect / "
             "line solved twice with the same unknown handles and a reflect "
             "whose sign the first solution would resolve wrongly; "
             "distinct = distinct (path, type, shape, form, tolerance, "
             "iteration limit, weighting, #unknowns)",
        min_events=20,
        assumptions=["'always returns' is restated as 'returns within the "
                     "watchdog (60 s, re-run once with 300 s)'",
                     "success is not demanded for small iteration limits; an "
                     "aggregate convergence floor of 50 % inside the basin "
                     "(75 % per error-term type) guards against a solver "
                     "that never converges"])


if __name__ == "__main__":
    main()
