#!/usr/bin/env python3-vt
"""C19: linear systems are solved to backward-stable accuracy; singular ones
stand out.

Monitor (public paths only, driver under ASan/UBSan):
 conv   n-port Z/Y/S conversions on structured matrix families; oracle = the
        row-equilibrated residual of the linear system that the port relations
        of vnaconv(3) impose on the output, plus the metamorphic form
        (D P A)^-1 D P = A^-1
 ab     a/b -> m reduction in vnacal_new_add_* and vnacal_apply with badly
        scaled `a` matrices against the m-form run of the same scenario
 ls     exactly / over-determined solves for error terms: the terms read from
        a file saved at full precision against numpy.linalg.lstsq on the
        documented matrix equation (noisy, inconsistent data)
 sing   exactly singular inputs: conversions must not return plausible
        numbers; singular `a`, zero-column / duplicated-row / missing-row
        calibrations must fail with -1 / EDOM through the MATH callback
The oracles never call libvna.
"""
import os
import sys

# one BLAS thread per worker process: the pool already uses every core
for _v in ("OMP_NUM_THREADS", "OPENBLAS_NUM_THREADS", "MKL_NUM_THREADS"):
    os.environ.setdefault(_v, "1")

import numpy as np  # noqa: E402

sys.path.insert(0, os.path.join(os.path.dirname(os.path.abspath(__file__)),
                                "..", "pylib"))
import calgen  # noqa: E402
import netparams as NP  # noqa: E402
import physics  # noqa: E402
import runner as R  # noqa: E402

PROP = "C19"
ONLY = os.environ.get("VERIF_C19_ONLY", "")

# Tolerances.  Worst values seen on the repaired tree (quick+thorough, several
# seeds) are reported in the evidence as max_*; the limits leave >= 3 decades.
TOL_MU = 2.0e-12          # row-equilibrated residual; worst seen 1.7e-15 (design: 1e-12)
TOL_META = 1.0e-11        # x kappa; worst seen 3.6e-16 x kappa
KAPPA_EQ_MAX = 1.0e8      # row-equilibrated condition of generated systems
KAPPA_META_MAX = 1.0e5
TOL_AB = 1.0e-9           # x (1 + kappa)
TOL_LS = 1.0e-8           # x (1 + kappa)
KAPPA_LS_MAX = 1.0e4
KAPPA_CAL_MAX = 1.0e4
SING_FACTOR = 1.0e9          # design figure 1e12; worst seen 1e13 (duplicated rows, rounding-level pivot)

FAMILIES = ("random", "permuted", "rowscaled", "colscaled", "entryscaled",
            "trap", "lossless")
INVERSES = ("vnaconv_ztoyn", "vnaconv_ytozn")
DIVIDES = ("vnaconv_stozn", "vnaconv_stoyn", "vnaconv_ztosn", "vnaconv_ytosn")


def new_part():
    return dict(evaluations=0, counters={}, maxima={}, distinct=set(),
                samples=[], violations=[], inconclusive=[], harness_errors=[])


def bump(part, k, n=1):
    part["counters"][k] = part["counters"].get(k, 0) + n


def peak(part, k, v):
    if v == v:
        part["maxima"][k] = max(part["maxima"].get(k, 0.0), float(v))


def crand(rng, shape):
    return rng.standard_normal(shape) + 1j * rng.standard_normal(shape)


# ----------------------------------------------------------------------
# matrix families
# ----------------------------------------------------------------------
def family_matrix(rng, n, fam):
    a = crand(rng, (n, n))
    if fam == "permuted":
        # strongly diagonal matrix with its rows shuffled: pivoting needed
        a = 3.0 * np.diag(np.exp(2j * np.pi * rng.random(n))) + 0.3 * a
        a = a[rng.permutation(n)]
    elif fam == "rowscaled":
        a = a * 10.0 ** rng.uniform(-8, 8, (n, 1))
    elif fam == "colscaled":
        a = a * 10.0 ** rng.uniform(-8, 8, (1, n))
    elif fam == "entryscaled":
        a = a * 10.0 ** rng.uniform(-8, 8, (n, n))
    elif fam == "trap":
        a = np.where(rng.random((n, n)) < 0.35, a * 1e-9, a)
        a = a * 10.0 ** rng.uniform(-8, 8, (n, 1))
    elif fam == "lossless":
        # Z or Y of a (nearly) lossless network: purely imaginary or
        # imaginary-dominant entries - or, rotated, purely real ones - with
        # small elements where elimination would like to pivot (a port at
        # series resonance, a quarter-wave line)
        a = 1j * rng.standard_normal((n, n))
        if rng.random() < 0.5:
            a = a + 1e-6 * rng.standard_normal((n, n))
        a = np.where(rng.random((n, n)) < 0.35, a * 1e-9, a)
        for i in range(n):
            if rng.random() < 0.5:
                a[i, i] = 0.0
        a = a * np.exp(1j * rng.choice([0.0, 0.0, np.pi / 2, 0.3]))
    return a


def kappa_eq(a):
    """2-norm condition of the row-equilibrated matrix"""
    rm = np.max(np.abs(a), axis=1)
    if not np.all(rm > 0) or not np.all(np.isfinite(a)):
        return float("inf")
    try:
        return float(np.linalg.cond(a / rm[:, None]))
    except np.linalg.LinAlgError:
        return float("inf")


def _ld(m):
    return np.asarray(m).astype(np.clongdouble)


def mu_left(a, aabs, x, b, babs):
    """A X = B: max_ij |AX-B|_ij / (max_k|a_ik| max_k|x_kj| + |b_ij|)"""
    if not np.all(np.isfinite(x)):
        return float("inf")
    res = np.abs(_ld(a) @ _ld(x) - _ld(b)).astype(float)
    den = np.max(aabs, axis=1)[:, None] * \
        np.max(np.abs(x), axis=0)[None, :] + babs
    den = np.where(den == 0, 1.0, den)
    return float(np.max(res / den))


def mu_right(a, aabs, x, b, babs):
    """X A = B solved by eliminating on the rows of A:
    max_ij |XA-B|_ij / (max_k(|x_ik| max_l|a_kl|) + |b_ij|)"""
    if not np.all(np.isfinite(x)):
        return float("inf")
    res = np.abs(_ld(x) @ _ld(a) - _ld(b)).astype(float)
    rm = np.max(aabs, axis=1)
    den = np.max(np.abs(x) * rm[None, :], axis=1)[:, None] + babs
    den = np.where(den == 0, 1.0, den)
    return float(np.max(res / den))


# ----------------------------------------------------------------------
# linear systems the conversions must satisfy, from the port relations of
# vnaconv(3):  a = K (v + Z0 i)/2,  b = K (v - Z0* i)/2,  K = 1/sqrt|Re Z0|
# which invert (Re Z0 > 0) to  v = K^-1.. : v = Ki (Z0* a + Z0 b),
# i = Ki (a - b) with Ki = diag(1/sqrt(Re z0))^-1 ... written out below with
# k = sqrt|Re z0| (so K = 1/k).  Each conversion has a left form A X = B
# (states parametrised by the output's right-hand variables) and a right
# form X A = B (states parametrised by the input's); an implementation may
# legitimately eliminate on either.
# ----------------------------------------------------------------------
def systems(fname, m, z0):
    """returns (left, right): each (A, Aabs, B, Babs, to_x) where to_x maps
    the function's output matrix to the X of that form and Aabs / Babs are the
    sums of the magnitudes of the terms A and B are assembled from (the scale
    of the problem as the caller states it: forming Z0* + S Z0 may cancel)"""
    n = m.shape[0]
    I = np.eye(n, dtype=complex)
    am = np.abs(m)
    if fname in INVERSES:
        ident = (lambda o: o)
        f = (m, am, I, np.eye(n), ident)
        return f, f
    z0 = np.asarray(z0, dtype=complex)
    k = np.sqrt(np.abs(z0.real))          # 1/K
    Z0 = np.diag(z0)
    Z0c = np.diag(np.conj(z0))
    aZ = np.diag(np.abs(z0))
    E = np.eye(n)

    def lx(o):
        return kxki_inv(o, k)

    def rx(o):
        return kxk_inv(o, k)
    if fname == "vnaconv_stozn":
        # b = S a, v = Z i:   (I - S) [K Z K^-1] = Z0* + S Z0
        #                     [K^-1 Z K] (I - S) = Z0* + Z0 S
        return ((I - m, E + am, Z0c + m @ Z0, aZ + am @ aZ, lx),
                (I - m, E + am, Z0c + Z0 @ m, aZ + aZ @ am, rx))
    if fname == "vnaconv_stoyn":
        # b = S a, i = Y v:   (Z0* + S Z0) [K Y K^-1] = I - S
        #                     [K^-1 Y K] (Z0* + Z0 S) = I - S
        return ((Z0c + m @ Z0, aZ + am @ aZ, I - m, E + am, lx),
                (Z0c + Z0 @ m, aZ + aZ @ am, I - m, E + am, rx))
    if fname == "vnaconv_ztosn":
        # v = Z i, b = S a:   (Z + Z0) [K S K^-1] = Z - Z0*
        #                     [K^-1 S K] (Z + Z0) = Z - Z0*
        return ((m + Z0, am + aZ, m - Z0c, am + aZ, lx),
                (m + Z0, am + aZ, m - Z0c, am + aZ, rx))
    if fname == "vnaconv_ytosn":
        # i = Y v, b = S a:   (I + Y Z0) [K S K^-1] = I - Y Z0*
        #                     [K^-1 S K] (I + Z0 Y) = I - Z0* Y
        return ((I + m @ Z0, E + am @ aZ, I - m @ Z0c, E + am @ aZ, lx),
                (I + Z0 @ m, E + aZ @ am, I - Z0c @ m, E + aZ @ am, rx))
    raise ValueError(fname)


def kxki_inv(o, k):
    """X = Kd O Kd^-1 with Kd = diag(1/k): entry ij times k_j / k_i"""
    return o * (k[None, :] / k[:, None])


def kxk_inv(o, k):
    """X = Kd^-1 O Kd: entry ij times k_i / k_j"""
    return o * (k[:, None] / k[None, :])


def input_for(fname, ades, z0):
    """input matrix whose left-form system matrix is (about) ades"""
    n = ades.shape[0]
    I = np.eye(n, dtype=complex)
    z0 = np.asarray(z0, dtype=complex)
    if fname in INVERSES:
        return ades
    if fname == "vnaconv_stozn":
        return I - ades                      # I - S = ades
    if fname == "vnaconv_stoyn":
        return (ades - np.diag(np.conj(z0))) / z0[None, :]   # Z0* + S Z0
    if fname == "vnaconv_ztosn":
        return ades - np.diag(z0)            # Z + Z0
    if fname == "vnaconv_ytosn":
        return (ades - I) / z0[None, :]      # I + Y Z0
    raise ValueError(fname)


def rand_z0(rng, n):
    kind = int(rng.integers(0, 4))
    if kind == 0:
        z = np.full(n, 50.0, dtype=complex)
    elif kind == 1:
        z = np.full(n, 10 ** rng.uniform(-2, 4), dtype=complex)
    elif kind == 2:
        z = (10 ** rng.uniform(0, 2, n)).astype(complex)
    else:
        re_ = 10 ** rng.uniform(0, 2, n)
        z = re_ + 1j * re_ * rng.uniform(-2, 2, n)
    return z, kind


def form_mu(L, Rf, out):
    """(max over forms? no: the smaller of the two forms, left, right)"""
    ml = mu_left(L[0], L[1], L[4](out), L[2], L[3])
    mr = mu_right(Rf[0], Rf[1], Rf[4](out), Rf[2], Rf[3])
    return min(ml, mr), ml, mr


def forms_selftest():
    """the hand-derived systems must be satisfied by the state-basis
    reference of netparams (guards the oracle itself)"""
    rng = np.random.default_rng(7)
    worst = 0.0
    for fname in INVERSES + DIVIDES:
        ft, tt = fname[8].upper(), fname[11].upper()
        for n in (1, 2, 4):
            z0, _ = rand_z0(rng, n)
            z0 = (10 ** rng.uniform(0, 2, n)) * (1 + 1j * rng.uniform(-1, 1, n))
            m = crand(rng, (n, n)) * (50.0 if ft == "Z" else
                                      0.02 if ft == "Y" else 0.5)
            ref = NP.convert(ft, tt, m, z0)
            L, Rf = systems(fname, m, z0)
            fm = form_mu(L, Rf, ref)
            worst = max(worst, fm[1], fm[2])
    return worst


# ----------------------------------------------------------------------
# part 1: conversions
# ----------------------------------------------------------------------
def conv_tokens(fname, m, z0):
    n = m.shape[0]
    toks = ["conv", fname, n, 0] + [R.cx(v) for v in m.reshape(-1)]
    if fname in DIVIDES:
        toks += [R.cx(v) for v in z0]
    return toks


def parse_out(e, n):
    return np.array([complex(a, b) for a, b in e["ret"]]).reshape(n, n)


def work_conv(chunk_id, payload):
    seed, tier, count, binary, workroot = payload
    rng = np.random.default_rng([seed, chunk_id, 1901])
    part = new_part()
    s = R.Script()
    meta = []
    fns = INVERSES + DIVIDES
    k = 0
    tries = 0
    while len(meta) < count and tries < 20 * count:
        tries += 1
        fname = fns[(k + chunk_id) % len(fns)]
        fam = FAMILIES[(k // len(fns)) % len(FAMILIES)]
        n = 1 + (k // (len(fns) * len(FAMILIES)) + chunk_id) % 8
        z0, zk = rand_z0(rng, n) if fname in DIVIDES else (None, -1)
        ades = family_matrix(rng, n, fam)
        m = input_for(fname, ades, z0)
        L, Rf = systems(fname, m, z0)
        kap = kappa_eq(L[0])
        k += 1
        if not (kap <= KAPPA_EQ_MAX) or not np.all(np.isfinite(m)):
            bump(part, "conv_skipped_ill_conditioned")
            continue
        ln = s.op(*conv_tokens(fname, m, z0))
        meta.append(dict(kind="res", line=ln, fname=fname, fam=fam, n=n,
                         m=m, z0=z0, zk=zk, kappa=kap))
    # metamorphic pairs: A and D P A through the two inverses
    nmeta = max(4, count // 6)
    made = 0
    tries = 0
    while made < nmeta and tries < 20 * nmeta:
        tries += 1
        fname = INVERSES[made % 2]
        n = 1 + (made // 2 + chunk_id) % 8
        fam = ("random", "permuted", "colscaled")[made % 3]
        a = family_matrix(rng, n, fam)
        kap = kappa_eq(a)
        if not (kap <= KAPPA_META_MAX):
            continue
        made += 1
        d = 2.0 ** rng.integers(-27, 28, n)
        perm = rng.permutation(n)
        dp = np.zeros((n, n))
        dp[np.arange(n), perm] = d           # D P : row i = d_i * row perm_i
        a2 = dp @ a                          # exact: powers of two
        l1 = s.op(*conv_tokens(fname, a, None))
        l2 = s.op(*conv_tokens(fname, a2, None))
        meta.append(dict(kind="meta", line=l1, line2=l2, fname=fname, fam=fam,
                         n=n, m=a, dp=dp, kappa=kap))
    text = s.text()
    lines = text.split("\n")
    wd = os.path.join(workroot, "conv%d" % chunk_id)
    res = R.run_cases(binary, [("conv", text)], wd, timeout=900)["conv"]
    v, inc = R.standard_violations(res, text, PROP)
    part["violations"] += v
    part["inconclusive"] += inc
    for md in meta:
        e = res.ev(md["line"])
        if e is None or "ret" not in e:
            continue
        n, fname = md["n"], md["fname"]
        out = parse_out(e, n)
        if md["kind"] == "res":
            L, Rf = systems(fname, md["m"], md["z0"])
            mu, ml, mr = form_mu(L, Rf, out)
            part["evaluations"] += 1
            bump(part, "conv_residual_cases")
            bump(part, "conv_family:" + md["fam"])
            part["distinct"].add(("res", fname, n, md["fam"], md["zk"],
                                  round(float(abs(md["m"].flat[0])), 12)))
            peak(part, "max_mu", mu if np.isfinite(mu) else 1e300)
            peak(part, "max_mu:" + md["fam"], mu if np.isfinite(mu) else 1e300)
            if len(part["samples"]) < 1 and n == 3:
                part["samples"].append(dict(
                    part="conv", fn=fname, n=n, family=md["fam"],
                    kappa_eq=md["kappa"], mu=mu,
                    input=[str(x) for x in md["m"].reshape(-1)],
                    z0=None if md["z0"] is None else [str(x) for x in md["z0"]],
                    output=[str(x) for x in out.reshape(-1)]))
            if not (mu <= TOL_MU):
                part["violations"].append(dict(
                    key="%s:residual:%s" % (PROP, fname),
                    desc="%s n=%d family=%s (row-equilibrated condition %.3g): "
                         "the output does not satisfy the linear system of its "
                         "port relations: row-equilibrated residual %.3g "
                         "(left form %.3g, right form %.3g; limit %.1g, a "
                         "backward-stable solve gives ~1e-15)" % (
                             fname, n, md["fam"], md["kappa"], mu, ml, mr,
                             TOL_MU),
                    script=lines[md["line"] - 1] + "\n"))
        else:
            e2 = res.ev(md["line2"])
            if e2 is None or "ret" not in e2:
                continue
            out2 = parse_out(e2, n)
            part["evaluations"] += 1
            bump(part, "conv_metamorphic_pairs")
            part["distinct"].add(("meta", fname, n, md["fam"],
                                  round(float(abs(md["m"].flat[0])), 12)))
            if not (np.all(np.isfinite(out)) and np.all(np.isfinite(out2))):
                err = float("inf")
            else:
                back = out2 @ md["dp"]       # exact scaling / permutation
                cn = np.max(np.abs(out), axis=0)
                cn = np.where(cn == 0, 1.0, cn)
                err = float(np.max(np.abs(back - out) / cn[None, :]))
            rel = err / (TOL_META * md["kappa"])
            peak(part, "max_metamorphic_err_over_kappa",
                 err / md["kappa"] if np.isfinite(err) else 1e300)
            if not (rel <= 1.0):
                part["violations"].append(dict(
                    key="%s:row-scaling-dependence:%s" % (PROP, fname),
                    desc="%s n=%d: inverse of D P A (rows scaled by powers of "
                         "two and permuted) times D P differs from the inverse "
                         "of A by %.3g relative (kappa %.3g, limit %.3g)" % (
                             fname, n, err, md["kappa"],
                             TOL_META * md["kappa"]),
                    script=lines[md["line"] - 1] + "\n" +
                    lines[md["line2"] - 1] + "\n"))
    return part


# ----------------------------------------------------------------------
# part 4a: singular inputs to the conversions
# ----------------------------------------------------------------------
def singular_matrix(rng, n, how):
    """exactly singular matrix with dyadic entries (k/8 x 2^e, k != 0), so
    that shifting by the identity / z0 (a power of two) keeps it exact"""
    kk = rng.integers(1, 17, (n, n)) * rng.choice([-1, 1], (n, n)) + \
        1j * rng.integers(-16, 17, (n, n))
    a = kk / 8.0 * 2.0 ** int(rng.integers(-6, 7))
    if how == "zero_row":
        a[int(rng.integers(0, n))] = 0
    elif how == "zero_col":
        a[:, int(rng.integers(0, n))] = 0
    elif how == "dup_rows":
        i, j = rng.choice(n, 2, replace=False)
        a[j] = a[i]
    elif how == "dup_cols":
        i, j = rng.choice(n, 2, replace=False)
        a[:, j] = a[:, i]
    elif how == "zero":
        a[:] = 0
    return a


def work_sing_conv(chunk_id, payload):
    seed, tier, count, binary, workroot = payload
    rng = np.random.default_rng([seed, chunk_id, 1904])
    part = new_part()
    s = R.Script()
    meta = []
    fns = INVERSES + DIVIDES
    hows = ("zero_row", "zero_col", "dup_rows", "dup_cols", "zero")
    for k in range(count):
        fname = fns[(k + chunk_id) % len(fns)]
        how = hows[(k // len(fns)) % len(hows)]
        n = 1 + (k // (len(fns) * len(hows)) + chunk_id) % 8
        if n == 1 and how.startswith("dup"):
            how = "zero"
        if fname in DIVIDES:
            z0 = np.full(n, float(2.0 ** rng.integers(-2, 9)), dtype=complex)
        else:
            z0 = None
        ades = singular_matrix(rng, n, how)
        m = input_for(fname, ades, z0)
        L, Rf = systems(fname, m, z0)
        al, bl = L[0], L[2]
        # the system matrix the function faces must be singular exactly
        # (all z0 equal here: the left and right forms share it)
        smax = float(np.max(np.abs(al)))
        if not np.array_equal(al, Rf[0]) or not np.array_equal(al, ades):
            bump(part, "sing_conv_skipped_not_exact")
            continue
        exact = (how in ("zero_row", "zero") and
                 np.any(np.all(al == 0, axis=1))) or \
                (how == "zero_col" and np.any(np.all(al == 0, axis=0))) or \
                (how == "dup_rows" and _has_dup(al)) or \
                (how == "dup_cols" and _has_dup(al.T))
        if not exact:
            bump(part, "sing_conv_skipped_not_exact")
            continue
        ln = s.op(*conv_tokens(fname, m, z0))
        meta.append(dict(line=ln, fname=fname, how=how, n=n, m=m, z0=z0,
                         scale_a=smax, scale_b=float(np.max(np.abs(bl)))))
    text = s.text()
    lines = text.split("\n")
    wd = os.path.join(workroot, "sconv%d" % chunk_id)
    res = R.run_cases(binary, [("sconv", text)], wd, timeout=900)["sconv"]
    v, inc = R.standard_violations(res, text, PROP)
    part["violations"] += v
    part["inconclusive"] += inc
    for md in meta:
        e = res.ev(md["line"])
        if e is None or "ret" not in e:
            continue
        out = parse_out(e, md["n"])
        part["evaluations"] += 1
        bump(part, "sing_conv_cases")
        bump(part, "sing_conv:" + md["how"])
        part["distinct"].add(("sing", md["fname"], md["n"], md["how"],
                              round(float(abs(md["m"].flat[0])), 12)))
        if md["scale_a"] == 0:
            thr = float("inf")       # all-zero system: only non-finite will do
        else:
            thr = SING_FACTOR * md["scale_b"] / md["scale_a"]
        nonfinite = not np.all(np.isfinite(out))
        big = float(np.max(np.abs(out))) if not nonfinite else float("inf")
        if nonfinite:
            bump(part, "sing_conv_nonfinite")
        else:
            bump(part, "sing_conv_astronomic")
            peak(part, "min_singular_magnitude_margin_inv",
                 thr / big if big > 0 else 1e300)
        if not (nonfinite or big >= thr):
            part["violations"].append(dict(
                key="%s:singular-looks-plausible:%s" % (PROP, md["fname"]),
                desc="%s n=%d with an exactly singular system matrix (%s): "
                     "output is finite with largest magnitude %.3g; a "
                     "singular system must stand out (non-finite or >= %.3g)\n"
                     "output %s" % (md["fname"], md["n"], md["how"], big, thr,
                                    out),
                script=lines[md["line"] - 1] + "\n"))
    return part


def _has_dup(a):
    n = a.shape[0]
    for i in range(n):
        for j in range(i + 1, n):
            if np.array_equal(a[i], a[j]):
                return True
    return False


# ----------------------------------------------------------------------
# part 2: a/b -> m reduction with badly scaled a
# ----------------------------------------------------------------------
A_FAMILIES = ("colscaled", "permuted", "permcol", "mildrow", "plain")


def bad_a(rng, nc, fam, column_type):
    """a-matrix (nc x nc, or 1 x nc for the per-column types) and the
    condition of its column-equilibrated form.  Column k of a and b belongs to
    the excitation of port k, so a column scaling (source level per port) is
    the scaling that leaves m = b a^-1 well posed: (X C D = B  <=>  X C = B
    D^-1).  A row scaling of a is *not* benign: it scales the columns of X in
    the product b = m a and the small ones are lost when b is rounded; it is
    only used mildly, with the condition accounted for."""
    if column_type:
        a = (1.0 + 0.4 * crand(rng, nc)) * 10.0 ** rng.uniform(-8, 8, nc)
        return a.reshape(1, nc), 1.0
    a = np.eye(nc) + 0.25 * crand(rng, (nc, nc))
    if fam in ("permuted", "permcol"):
        a = a[rng.permutation(nc)]
        a = a[:, rng.permutation(nc)]
    if fam == "mildrow":
        a = a * 10.0 ** rng.uniform(-1, 1, (nc, 1))
    kc = float(np.linalg.cond(a / np.max(np.abs(a), axis=0)[None, :]))
    if fam in ("colscaled", "permcol"):
        a = a * 10.0 ** rng.uniform(-8, 8, (1, nc))
    return a, kc


def emit_apply_ab(sc, s, S_duts, As, ci, vd, tag):
    p = sc.p
    column_type = sc.ctype in physics.COLUMN_TYPES
    Ms = [physics.apply_measurement(sc.enet[f], S_duts[f]) for f in range(sc.F)]
    Bs = []
    for f in range(sc.F):
        if column_type:
            Bs.append(Ms[f] * As[f][0][None, :])
        else:
            Bs.append(Ms[f] @ As[f])
    ar = 1 if column_type else p
    s.cmat("%sa" % tag, [[As[f][i, k] for f in range(sc.F)]
                         for i in range(ar) for k in range(p)])
    s.cmat("%sb" % tag, [[Bs[f][i, k] for f in range(sc.F)]
                         for i in range(p) for k in range(p)])
    la = s.op("vnacal_apply $vc %s @freq %d @%sa %d %d @%sb %d %d $%s" % (
        ci, sc.F, tag, ar, p, tag, p, p, vd))
    ld = s.op("dump_vnadata $%s" % vd)
    return la, ld


def reset_vars(sc):
    for st in sc.stds:
        for row in st.sp:
            for prm in row:
                prm.var = None


def build_ab_script(sc, rng, fam):
    """one vnacal_t, the same scenario entered in m form and in a/b form with
    badly scaled a; four applies: (cal m, apply m) is the reference"""
    column_type = sc.ctype in physics.COLUMN_TYPES
    s = R.Script()
    lines = dict(add=[], add2=[])
    sc.emit_header(s)
    uid = [0]
    for st in sc.stds:
        st.form = "m"
    for i, st in enumerate(sc.stds):
        lines["add"].append(sc.emit_std(s, st, i, uid=uid))
    lines["solve"] = s.op("vnacal_new_solve $vn")
    lines["addcal"] = s.op("ci=vnacal_add_calibration $vc \"m\" $vn")
    # second entry of the same data
    reset_vars(sc)
    kmax = 1.0
    for st in sc.stds:
        st.form = "ab"
        rows, cols = sc.given_cells(st)
        st.A = []
        for f in range(sc.F):
            a, kc = bad_a(rng, len(cols), fam, column_type)
            kmax = max(kmax, kc)
            st.A.append(a)
    sc.emit_header(s, vn="vn2", create=False)
    for i, st in enumerate(sc.stds):
        lines["add2"].append(sc.emit_std(s, st, i, vn="vn2", uid=uid))
    lines["solve2"] = s.op("vnacal_new_solve $vn2")
    lines["addcal2"] = s.op("ci2=vnacal_add_calibration $vc \"ab\" $vn2")
    duts = sc.rand_dut()
    As = []
    for f in range(sc.F):
        a, kc = bad_a(rng, sc.p, fam, column_type)
        kmax = max(kmax, kc)
        As.append(a)
    s.op("vd=vnadata_alloc")
    lines["ref"] = sc.emit_apply(s, duts, "m", form="m", ci="$ci", tag="d0")
    lines["apply_ab_cal_m"] = emit_apply_ab(sc, s, duts, As, "$ci", "vd", "d1")
    lines["apply_m_cal_ab"] = sc.emit_apply(s, duts, "ab", form="m", ci="$ci2",
                                            tag="d2")
    lines["apply_ab_cal_ab"] = emit_apply_ab(sc, s, duts, As, "$ci2", "vd",
                                             "d3")
    return s, lines, duts, kmax


def dump_matrix(ev, p, F):
    out = ev["out"]
    return [np.array([complex(a, b) for a, b in out["data"][f]]).reshape(p, p)
            for f in range(F)]


def work_ab(chunk_id, payload):
    seed, tier, count, binary, workroot = payload
    rng = np.random.default_rng([seed, chunk_id, 1902])
    part = new_part()
    cases = []
    meta = {}
    for k in range(count):
        ctype = physics.TYPES[(chunk_id + k) % 8]
        p = int(rng.choice([1, 2, 2, 3, 3] + ([4] if tier == "thorough" else [])))
        F = int(rng.choice([1, 2]))
        fam = A_FAMILIES[(k // 8 + chunk_id) % len(A_FAMILIES)]
        sc = None
        for attempt in range(6):
            c = calgen.Scenario(ctype, p, p, F, rng, form="m")
            c.sufficient_recipe(extras=int(rng.integers(0, 2)))
            c.choose_entries(form="m")
            ok, kappa = c.well_determined(KAPPA_CAL_MAX)
            if ok:
                sc = c
                break
        if sc is None:
            bump(part, "ab_skipped_not_well_determined")
            continue
        s, lines, duts, ka = build_ab_script(sc, rng, fam)
        cid = "ab%d_%d" % (chunk_id, k)
        cases.append((cid, s.text()))
        meta[cid] = (sc, kappa, ka, fam, lines, duts)
    wd = os.path.join(workroot, "ab%d" % chunk_id)
    results = R.run_cases(binary, cases, wd, timeout=1200)
    for cid, text in cases:
        res = results[cid]
        sc, kappa, ka, fam, lines, duts = meta[cid]
        v, inc = R.standard_violations(res, text, PROP)
        part["violations"] += v
        part["inconclusive"] += inc

        def bad(what, desc):
            part["violations"].append(dict(
                key="%s:%s:%s" % (PROP, what, sc.ctype),
                desc="%s %dx%d F=%d a-family=%s: %s" % (
                    sc.ctype, sc.r, sc.c, sc.F, fam, desc),
                script=text))
        failed = False
        for key in ("add", "add2"):
            for i, ln in enumerate(lines[key]):
                e = res.ev(ln)
                if e is None:
                    failed = True
                elif e.get("ret") != 0 and not failed:
                    failed = True
                    if key == "add2":
                        bad("ab-add-refused", "standard %d with a nonsingular "
                            "(badly scaled) a matrix refused: %s" % (i, e))
        if failed:
            continue
        ok = True
        for key in ("solve", "solve2"):
            e = res.ev(lines[key])
            if e is None or e.get("ret") != 0:
                ok = False
                if e is not None and key == "solve2" and \
                        (res.ev(lines["solve"]) or {}).get("ret") == 0:
                    bad("ab-solve-failed", "the a/b entry of a scenario that "
                        "solves in m form failed: %s" % e)
        if not ok:
            continue
        ref = res.ev(lines["ref"][1])
        if ref is None or "out" not in ref or \
                (res.ev(lines["ref"][0]) or {}).get("ret") != 0:
            continue
        Sref = dump_matrix(ref, sc.p, sc.F)
        part["evaluations"] += 1
        bump(part, "ab_scenarios")
        part["distinct"].add(("ab", sc.ctype, sc.p, sc.F, fam,
                              round(float(abs(Sref[0].flat[0])), 12)))
        tol = TOL_AB * (1 + kappa) * ka
        for which in ("apply_ab_cal_m", "apply_m_cal_ab", "apply_ab_cal_ab"):
            la, ld = lines[which]
            e = res.ev(la)
            d = res.ev(ld)
            if e is None or d is None:
                continue
            if e.get("ret") != 0:
                bad("ab-apply-failed:" + which, "apply failed: %s" % e)
                continue
            got = dump_matrix(d, sc.p, sc.F)
            err = 0.0
            for f in range(sc.F):
                if not np.all(np.isfinite(got[f])):
                    err = float("inf")
                else:
                    err = max(err, float(np.max(np.abs(got[f] - Sref[f]))))
            bump(part, "ab_comparisons")
            peak(part, "max_ab_err_over_tol", err / tol
                 if np.isfinite(err) else 1e300)
            if not (err <= tol):
                bad("ab-differs-from-m:" + which,
                    "corrected S differs from the m-form run of the same "
                    "scenario by %.3g (calibration kappa %.3g, condition "
                    "of the column-equilibrated a %.3g, limit %.3g)" % (err, kappa, ka, tol))
        if len(part["samples"]) < 1:
            part["samples"].append(dict(
                part="ab", type=sc.ctype, ports=sc.p, F=sc.F, a_family=fam,
                kappa=kappa,
                a_first_standard=[str(x) for x in sc.stds[0].A[0].reshape(-1)]))
    return part


# ----------------------------------------------------------------------
# part 3: least-squares minimiser
# ----------------------------------------------------------------------
class NoisyScenario(calgen.Scenario):
    """measurements carry a fixed additive perturbation per standard, so the
    equations are inconsistent"""

    def measure_std(self, std, f):
        M = self.enet[f].measure(std.S_full(f, self.p))
        nz = getattr(std, "noise", None)
        if nz is not None:
            M = M + nz[f]
        return M


def term_list(ctype, r, c):
    """error terms in file order: list of (block, a, b)"""
    p = max(r, c)
    diag = ctype in ("T8", "U8")
    if ctype in ("T8", "T16"):
        shapes = (("ts", r, p), ("ti", r, p), ("tx", c, p), ("tm", c, p))
    else:
        shapes = (("um", p, r), ("ui", p, c), ("ux", p, r), ("us", p, c))
    terms = []
    for name, rows, cols in shapes:
        if diag:
            terms += [(name, i, i) for i in range(min(rows, cols))]
        else:
            terms += [(name, i, j) for i in range(rows) for j in range(cols)]
    return terms


def equation_rows(ctype, r, c, S, M):
    """rows of the documented matrix equation for one standard:
      T:  -Ts S - Ti + M Tx S + M Tm = 0          (r x p cells)
      U:   Um M + Ui - S Ux M - S Us = 0          (p x c cells)"""
    p = max(r, c)
    terms = term_list(ctype, r, c)
    col = {t: k for k, t in enumerate(terms)}
    rows = []
    if ctype in ("T8", "T16"):
        for i in range(r):
            for j in range(p):
                row = np.zeros(len(terms), dtype=complex)
                for k in range(p):
                    t = ("ts", i, k)
                    if t in col:
                        row[col[t]] += -S[k, j]
                t = ("ti", i, j)
                if t in col:
                    row[col[t]] += -1.0
                for q in range(c):
                    for k in range(p):
                        t = ("tx", q, k)
                        if t in col:
                            row[col[t]] += M[i, q] * S[k, j]
                    t = ("tm", q, j)
                    if t in col:
                        row[col[t]] += M[i, q]
                rows.append(row)
    else:
        for i in range(p):
            for j in range(c):
                row = np.zeros(len(terms), dtype=complex)
                for k in range(r):
                    t = ("um", i, k)
                    if t in col:
                        row[col[t]] += M[k, j]
                t = ("ui", i, j)
                if t in col:
                    row[col[t]] += 1.0
                for q in range(p):
                    for k in range(r):
                        t = ("ux", q, k)
                        if t in col:
                            row[col[t]] += -S[i, q] * M[k, j]
                    t = ("us", q, j)
                    if t in col:
                        row[col[t]] += -S[i, q]
                rows.append(row)
    return terms, rows


def parse_cal_terms(text):
    """error terms per frequency from a saved calibration file:
    list (per frequency) of dict block -> list of complex in file order"""
    out = []
    cur = None
    block = None
    in_data = False
    for ln in text.split("\n"):
        st = ln.strip()
        if st == "data:":
            in_data = True
            continue
        if not in_data:
            continue
        if st.startswith("- f:"):
            cur = {}
            out.append(cur)
            block = None
            continue
        if cur is None:
            continue
        if st.endswith(":") and not st.startswith("-"):
            block = st[:-1]
            cur[block] = []
            continue
        if st.startswith("-") and block is not None:
            val = st
            while val.startswith("- "):      # list markers, not the sign
                val = val[2:].lstrip()
            toks = val.split()
            if len(toks) == 2 and toks[1].endswith("j"):
                cur[block].append(complex(float.fromhex(toks[0]),
                                          float.fromhex(toks[1][:-1])))
            else:
                raise ValueError("unparsed value line %r" % ln)
        elif st == "...":
            break
    return out


def work_ls(chunk_id, payload):
    seed, tier, count, binary, workroot = payload
    rng = np.random.default_rng([seed, chunk_id, 1903])
    part = new_part()
    cases = []
    meta = {}
    types = ("T8", "U8", "T16", "U16")
    for k in range(count):
        ctype = types[(chunk_id + k) % 4]
        shp = [(1, 1), (2, 2), (2, 2), (3, 3)]
        shp += [(1, 2)] if ctype[0] == "T" else [(2, 1)]
        if tier == "thorough":
            shp += [(4, 4)] + ([(2, 3)] if ctype[0] == "T" else [(3, 2)])
        r, c = shp[int(rng.integers(0, len(shp)))]
        p = max(r, c)
        F = int(rng.choice([1, 2]))
        nterms = len(term_list(ctype, r, c))
        eq_per = (r * p) if ctype[0] == "T" else (p * c)
        need = -(-(nterms - 1) // eq_per)
        extra = int(rng.choice([0, 0, 1, 2, 3, 6]))
        sc = NoisyScenario(ctype, r, c, F, rng, form="m")
        ports = list(range(1, p + 1))
        for _ in range(need + extra):
            st = sc.add_matrix([int(x) for x in rng.permutation(ports)])
            st.entry = "mapped_matrix"
            st.full_rows = st.full_cols = True
            st.form = "m"
            st.use_null_map = (st.ports == ports and rng.random() < 0.5)
        level = float(10.0 ** rng.uniform(-5, -2))
        for st in sc.stds:
            st.noise = [level * crand(rng, (r, c)) for _ in range(F)]
        # oracle
        sols = []
        kmax = 0.0
        okc = True
        for f in range(F):
            rows = []
            for st in sc.stds:
                S = st.S_full(f, p)
                M = sc.measure_std(st, f)
                terms, rr = equation_rows(ctype, r, c, S, M)
                rows += rr
            A = np.array(rows)
            unity = terms.index(("tm", 0, 0) if ctype[0] == "T"
                                else ("um", 0, 0))
            keep = [i for i in range(len(terms)) if i != unity]
            Ak = A[:, keep]
            b = -A[:, unity]
            sv = np.linalg.svd(Ak, compute_uv=False)
            kap = float(sv[0] / sv[-1]) if sv[-1] > 0 else float("inf")
            kmax = max(kmax, kap)
            if not (kap <= KAPPA_LS_MAX):
                okc = False
                break
            x, *_ = np.linalg.lstsq(Ak, b, rcond=None)
            full = np.zeros(len(terms), dtype=complex)
            full[keep] = x
            full[unity] = 1.0
            rmin = float(np.linalg.norm(Ak @ x - b))
            sols.append((terms, full, Ak, b, rmin, A.shape))
        if not okc:
            bump(part, "ls_skipped_ill_conditioned")
            continue
        s = R.Script()
        lines = dict(add=[])
        sc.emit_header(s)
        uid = [0]
        for i, st in enumerate(sc.stds):
            lines["add"].append(sc.emit_std(s, st, i, uid=uid))
        lines["solve"] = s.op("vnacal_new_solve $vn")
        lines["addcal"] = s.op("ci=vnacal_add_calibration $vc \"ls\" $vn")
        s.op("vnacal_set_dprecision $vc 1000")
        lines["save"] = s.op("vnacal_save $vc \"ls.vnacal\"")
        lines["read"] = s.op("read_file \"ls.vnacal\"")
        cid = "ls%d_%d" % (chunk_id, k)
        cases.append((cid, s.text()))
        meta[cid] = (sc, sols, kmax, lines, level)
    wd = os.path.join(workroot, "ls%d" % chunk_id)
    results = R.run_cases(binary, cases, wd, timeout=1200)
    for cid, text in cases:
        res = results[cid]
        sc, sols, kmax, lines, level = meta[cid]
        v, inc = R.standard_violations(res, text, PROP)
        part["violations"] += v
        part["inconclusive"] += inc
        shape = sols[0][5]

        def bad(what, desc):
            part["violations"].append(dict(
                key="%s:%s:%s" % (PROP, what, sc.ctype),
                desc="%s %dx%d F=%d, %d standards, system %dx%d: %s" % (
                    sc.ctype, sc.r, sc.c, sc.F, len(sc.stds), shape[0],
                    shape[1] - 1, desc),
                script=text))
        if any((res.ev(ln) or {}).get("ret") != 0 for ln in lines["add"]):
            e = [res.ev(ln) for ln in lines["add"] if (res.ev(ln) or {}).get("ret") != 0]
            if e[0] is not None:
                bad("ls-add-refused", "full-matrix standard refused: %s" % e[0])
            continue
        e = res.ev(lines["solve"])
        if e is None:
            continue
        if e.get("ret") != 0:
            bad("ls-solve-failed", "solve failed on a full-rank system "
                "(kappa %.3g): %s" % (kmax, e))
            continue
        e = res.ev(lines["read"])
        if e is None or not isinstance(e.get("ret"), str):
            part["inconclusive"].append(dict(key="ls:no-file"))
            continue
        try:
            terms_f = parse_cal_terms(e["ret"])
        except ValueError as ex:
            part["harness_errors"].append("C19 ls: %s" % ex)
            continue
        if len(terms_f) != sc.F:
            part["harness_errors"].append("C19 ls: %d frequencies parsed" %
                                          len(terms_f))
            continue
        part["evaluations"] += 1
        bump(part, "ls_scenarios")
        bump(part, "ls_exactly_determined" if shape[0] == shape[1] - 1
             else "ls_over_determined")
        part["distinct"].add(("ls", sc.ctype, sc.r, sc.c, sc.F, len(sc.stds),
                              round(level, 12)))
        for f in range(sc.F):
            terms, full, Ak, b, rmin, shp = sols[f]
            got = []
            names = []
            for t in terms:
                if t[0] not in names:
                    names.append(t[0])
            okp = True
            for nm in names:
                if nm not in terms_f[f]:
                    okp = False
                    break
                got += terms_f[f][nm]
            if not okp or len(got) != len(terms):
                part["harness_errors"].append(
                    "C19 ls: file blocks %s do not match the model %s" % (
                        {kk: len(vv) for kk, vv in terms_f[f].items()}, names))
                break
            got = np.array(got)
            unity = terms.index(("tm", 0, 0) if sc.ctype[0] == "T"
                                else ("um", 0, 0))
            if got[unity] != 1.0:
                part["harness_errors"].append(
                    "C19 ls: unity term is %s" % got[unity])
                break
            tol = TOL_LS * (1 + kmax)
            err = float(np.max(np.abs(got - full))) \
                if np.all(np.isfinite(got)) else float("inf")
            keep = [i for i in range(len(terms)) if i != unity]
            rlib = float(np.linalg.norm(Ak @ got[keep] - b)) \
                if np.all(np.isfinite(got)) else float("inf")
            peak(part, "max_ls_err_over_tol", err / tol
                 if np.isfinite(err) else 1e300)
            if rmin > 1e-9 * float(np.linalg.norm(b)):
                peak(part, "max_ls_residual_excess",
                     (rlib / rmin - 1.0) if np.isfinite(rlib) else 1e300)
            if not (err <= tol):
                bad("ls-not-minimiser",
                    "error terms in the saved file differ from the "
                    "least-squares solution of the documented equation by "
                    "%.3g (kappa %.3g, limit %.3g); residual norm library "
                    "%.6g vs minimum %.6g" % (err, kmax, tol, rlib, rmin))
                break
        if len(part["samples"]) < 1:
            part["samples"].append(dict(
                part="ls", type=sc.ctype, rows=sc.r, cols=sc.c, F=sc.F,
                standards=len(sc.stds), equations=shape[0],
                unknowns=shape[1] - 1, noise_level=level, kappa=kmax,
                min_residual_norm=sols[0][4]))
    return part


# ----------------------------------------------------------------------
# part 4b/4c: singular a matrices and singular calibrations
# ----------------------------------------------------------------------
def expect_edom(part, res, ln, text, what, shape, desc):
    e = res.ev(ln)
    if e is None:
        return False
    part["evaluations"] += 1
    bump(part, "sing_api_cases")
    cbs = e.get("cb") or []
    ok = (e.get("ret") == -1 and e.get("errno") == "EDOM" and
          len(cbs) == 1 and cbs[0][0] == "MATH")
    if not ok:
        part["violations"].append(dict(
            key="%s:%s:%s" % (PROP, what, shape),
            desc="%s: expected -1 / EDOM with one MATH callback, got ret=%r "
                 "errno=%r callbacks=%r" % (desc, e.get("ret"), e.get("errno"),
                                            cbs),
            script=text))
    return True


def singular_a(rng, n, how):
    a = np.eye(n) + 0.25 * crand(rng, (n, n))
    a = a * 10.0 ** rng.uniform(-3, 3)
    if how == "zero_row":
        a[int(rng.integers(0, n))] = 0
    elif how == "zero_col":
        a[:, int(rng.integers(0, n))] = 0
    elif how == "zero":
        a[:] = 0
    return a


def work_sing_api(chunk_id, payload):
    seed, tier, count, binary, workroot = payload
    rng = np.random.default_rng([seed, chunk_id, 1905])
    part = new_part()
    cases = []
    meta = {}
    hows = ("zero_row", "zero_col", "zero")
    # (b) singular a matrix in add and in apply
    for k in range(count):
        ctype = physics.TYPES[(chunk_id + k) % 8]
        p = int(rng.choice([1, 2, 2, 3]))
        how = hows[(k // 8 + chunk_id) % 3]
        column_type = ctype in physics.COLUMN_TYPES
        sc = None
        for attempt in range(6):
            c = calgen.Scenario(ctype, p, p, 1 + int(rng.integers(0, 2)), rng,
                                form="m")
            c.sufficient_recipe(extras=0)
            c.choose_entries(form="m")
            ok, kappa = c.well_determined(KAPPA_CAL_MAX)
            if ok:
                sc = c
                break
        if sc is None:
            continue
        s = R.Script()
        lines = {}
        sc.emit_header(s)
        uid = [0]
        addl = [sc.emit_std(s, st, i, uid=uid) for i, st in enumerate(sc.stds)]
        # one more standard, entered in a/b form with a singular a at one
        # frequency
        reset_vars(sc)
        st = sc.stds[int(rng.integers(0, len(sc.stds)))]
        st.form = "ab"
        rows, cols = sc.given_cells(st)
        nc = len(cols)
        fbad = int(rng.integers(0, sc.F))
        st.A = []
        for f in range(sc.F):
            if column_type:
                a = (1.0 + 0.4 * crand(rng, nc)).reshape(1, nc)
                if f == fbad:
                    a[0, int(rng.integers(0, nc))] = 0
            else:
                a = singular_a(rng, nc, how if f == fbad else "none")
            st.A.append(a)
        lines["sing_add"] = sc.emit_std(s, st, 900, uid=uid)
        st.form = "m"
        lines["solve"] = s.op("vnacal_new_solve $vn")
        lines["addcal"] = s.op("ci=vnacal_add_calibration $vc \"c\" $vn")
        s.op("vd=vnadata_alloc")
        duts = sc.rand_dut()
        As = []
        for f in range(sc.F):
            if column_type:
                a = (1.0 + 0.4 * crand(rng, p)).reshape(1, p)
                if f == fbad:
                    a[0, int(rng.integers(0, p))] = 0
            else:
                a = singular_a(rng, p, how if f == fbad else "none")
            As.append(a)
        lines["sing_apply"] = emit_apply_ab(sc, s, duts, As, "$ci", "vd", "d")[0]
        cid = "sa%d_%d" % (chunk_id, k)
        cases.append((cid, s.text()))
        meta[cid] = ("a", sc, how, lines, addl, nc)
    # (c) singular calibrations on 1x1 systems with exactly representable
    # data: three unknowns, one equation per reflect standard
    dy = [-1.0, 1.0]
    kinds = ("duplicate3", "duplicate2", "zero_column", "missing_row",
             "zero_column_tall", "zero_m_column", "zero_m_column_tall")
    for k in range(max(4, count // 2)):
        ctype = physics.TYPES[(chunk_id + k) % 8]
        kind = kinds[(k // 8 + chunk_id) % len(kinds)]
        F = 1 + int(rng.integers(0, 2))
        s = R.Script()
        s.op("vc=vnacal_create")
        s.op("vn=vnacal_new_alloc $vc %s 1 1 %d" % (ctype, F))
        s.rvec("freq", [1e9 * (i + 1) for i in range(F)])
        s.op("vnacal_new_set_frequency_vector $vn @freq")

        def dyadic():
            return (int(rng.integers(-8, 9)) + 1j * int(rng.integers(-8, 9))) / 8.0

        g1 = dy[int(rng.integers(0, 2))]
        m1 = dyadic()
        m2 = dyadic()
        while m2 == m1:
            m2 = dyadic()
        if kind == "duplicate3":
            stds = [(g1, m1)] * 3
        elif kind == "duplicate2":
            # every intermediate of the elimination is exactly representable
            # whichever row is taken as pivot and whether the multipliers are
            # formed by division or by multiplying with the reciprocal: for
            # the U equations the second pivot is -g (m1 + m2), made real
            if ctype[0] != "T":
                if m1 == 0.5:
                    m1 = 0.25 + 0.5j
                m2 = 1.0 - m1
            stds = [(g1, m1), (-g1, m2), (g1, m1)]
            order = rng.permutation(3)
            stds = [stds[i] for i in order]
        elif kind in ("zero_column", "zero_column_tall"):
            # only matches: the terms multiplying S never get a coefficient
            stds = [(0.0, m1), (0.0, m2), (0.0, dyadic())]
            if kind.endswith("tall"):      # over-determined: QR path
                stds += [(0.0, dyadic()) for _ in range(int(rng.integers(1, 4)))]
        elif kind in ("zero_m_column", "zero_m_column_tall"):
            # every measurement exactly zero: the term multiplying M S never
            # gets a coefficient (exactly one zero column)
            gs = [1.0, -1.0, 0.0]
            stds = [(gs[i], 0j) for i in rng.permutation(3)]
            if kind.endswith("tall"):
                stds += [(gs[int(rng.integers(0, 3))], 0j)
                         for _ in range(int(rng.integers(1, 4)))]
        else:
            stds = [(g1, m1), (-g1, m2)]
        addl = []
        for i, (g, mv) in enumerate(stds):
            code = {0.0: 0, 1.0: 1, -1.0: 2}[g]
            s.cmat("m%d" % i, [[mv] * F])
            addl.append(s.op("vnacal_new_add_single_reflect_m $vn @m%d 1 1 "
                             "%d 1" % (i, code)))
        lines = dict(solve=s.op("vnacal_new_solve $vn"))
        cid = "sc%d_%d" % (chunk_id, k)
        cases.append((cid, s.text()))
        meta[cid] = ("c", ctype, kind, lines, addl, stds)
    wd = os.path.join(workroot, "sapi%d" % chunk_id)
    results = R.run_cases(binary, cases, wd, timeout=1200)
    for cid, text in cases:
        res = results[cid]
        v, inc = R.standard_violations(res, text, PROP)
        part["violations"] += v
        part["inconclusive"] += inc
        if meta[cid][0] == "a":
            _, sc, how, lines, addl, nc = meta[cid]
            if any((res.ev(ln) or {}).get("ret") != 0 for ln in addl):
                continue
            column_type = sc.ctype in physics.COLUMN_TYPES
            hw = "zero_entry" if column_type else how
            part["distinct"].add(("sing_a", sc.ctype, sc.p, hw, nc))
            expect_edom(part, res, lines["sing_add"], text,
                        "singular-a-accepted:add", sc.ctype,
                        "%s %dx%d: vnacal_new_add_* with an exactly singular "
                        "a matrix (%s, %dx%d)" % (sc.ctype, sc.p, sc.p, hw,
                                                  1 if column_type else nc, nc))
            e = res.ev(lines["solve"])
            if e is None or e.get("ret") != 0:
                continue
            expect_edom(part, res, lines["sing_apply"], text,
                        "singular-a-accepted:apply", sc.ctype,
                        "%s %dx%d: vnacal_apply with an exactly singular a "
                        "matrix (%s)" % (sc.ctype, sc.p, sc.p, hw))
            if len(part["samples"]) < 1:
                part["samples"].append(dict(
                    part="sing", type=sc.ctype, ports=sc.p, a_defect=hw,
                    add_event=res.ev(lines["sing_add"]),
                    apply_event=res.ev(lines["sing_apply"])))
        else:
            _, ctype, kind, lines, addl, stds = meta[cid]
            if any((res.ev(ln) or {}).get("ret") != 0 for ln in addl):
                continue
            part["distinct"].add(("sing_cal", ctype, kind, str(stds)))
            bump(part, "sing_cal:" + kind)
            expect_edom(part, res, lines["solve"], text,
                        "singular-solve-accepted:" + kind, ctype,
                        "%s 1x1 calibration from reflect standards (gamma, m) "
                        "= %s (%s): vnacal_new_solve" % (ctype, stds, kind))
    return part


WORKERS = dict(conv=work_conv, sconv=work_sing_conv, ab=work_ab, ls=work_ls,
               sapi=work_sing_api)


def dispatch(chunk_id, payload):
    kind, sub_id, rest = payload
    return WORKERS[kind](sub_id, rest)


def main():
    chk = R.Check(PROP)
    binary = chk.build("asan")
    w = forms_selftest()
    if not (w < 1e-12):
        print("HARNESS-ERROR: oracle self-test: reference conversion leaves "
              "residual %.3g in the hand-derived systems" % w)
        chk.cleanup()
        sys.exit(2)
    quick = chk.tier == "quick"
    sc = chk.args.scale
    plan = []      # (kind, chunks, per chunk)
    plan.append(("conv", 16 if quick else 64, int((3000 if quick else 10000) * sc)))
    plan.append(("sconv", 8 if quick else 32, int((600 if quick else 3000) * sc)))
    plan.append(("ab", 16 if quick else 64, int((24 if quick else 200) * sc)))
    plan.append(("ls", 16 if quick else 64, int((60 if quick else 500) * sc)))
    plan.append(("sapi", 16 if quick else 64, int((24 if quick else 160) * sc)))
    payloads = []
    for kind, nch, per in plan:
        if ONLY and kind not in ONLY.split(","):
            continue
        for i in range(nch):
            payloads.append((kind, i, (chk.seed, chk.tier, max(1, per), binary,
                                       chk.workroot)))
    # long jobs first
    order = {"ab": 0, "ls": 1, "sapi": 2, "conv": 3, "sconv": 4}
    payloads.sort(key=lambda p: order[p[0]])
    one_per_part = {}
    for part in R.pmap(dispatch, payloads):
        for sm in part.get("samples", []):
            one_per_part.setdefault(sm.get("part"), sm)
        chk.merge(part)
    chk.samples = list(one_per_part.values())[:6]
    chk.counters["oracle_selftest_residual"] = w
    chk.finish(
        rule="conv: vnaconv_ztoyn/ytozn/stozn/stoyn/ztosn/ytosn, n=1..8, "
             "system matrix from the families random / row-permuted / "
             "row-scaled / column-scaled / entry-scaled (10^U(-8,8)) / trap / "
             "lossless (imaginary-dominant with zeros on the diagonal) "
             "(35% of entries x1e-9, rows rescaled), row-equilibrated "
             "condition <= 1e8; judged by the row-equilibrated residual of the "
             "system derived from the port relations (smaller of the left and "
             "right form) and by (D P A)^-1 D P = A^-1 with power-of-two D. "
             "ab: calgen scenarios of all eight types entered in m form and in "
             "a/b form with row/column-scaled and permuted a, applied in both "
             "forms. ls: T8/U8/T16/U16 with full-matrix standards and "
             "inconsistent (noisy) measurements, error terms from the file "
             "saved with dprecision 1000 vs numpy lstsq on the documented "
             "equation. sing: exactly singular system matrices (zero row / "
             "column, duplicated rows / columns) into the conversions, "
             "singular a into add/apply, duplicated / zero-column / "
             "missing-row 1x1 calibrations with dyadic data. distinct = "
             "distinct (part, function or type, size, family, data) tuples "
             "judged.",
        min_events=20,
        assumptions=["numpy.linalg (LAPACK) and x87 long double residuals are "
                     "the trusted numerical base",
                     "an implementation may eliminate on the rows of the "
                     "system matrix in either the left (A X = B) or the right "
                     "(X A = B) form of the port relations",
                     "nothing is asserted about numerically rank-deficient "
                     "systems that are not exactly singular"])


if __name__ == "__main__":
    main()
