#!/usr/bin/env python3-vt
"""C12: any single allocation failure yields a clean ENOMEM failure.

Level: fault enumeration.  The "fi" build routes every allocation call site in
libvna source text (malloc/calloc/realloc/strdup/vasprintf) through a counting
shim.  For each scripted history the fault-free run counts K allocations; then
the history is re-run once per k = 1..K with the k-th allocation failing.  The
driver retries a faulted *failed* operation once (fault disarmed), so the rest
of the history must produce exactly the events of the fault-free run.
"""
import json
import os
import sys

import numpy as np

sys.path.insert(0, os.path.join(os.path.dirname(os.path.abspath(__file__)),
                                "..", "pylib"))
sys.path.insert(0, os.path.dirname(os.path.abspath(__file__)))
import calgen  # noqa: E402
import runner as R  # noqa: E402
from runner import Script, cx, hx, qs  # noqa: E402

PROP = "C12"


# ----------------------------------------------------------------------
# scripted histories
# ----------------------------------------------------------------------
def cal_script(seed, ctype, r, c, F, form, m_error=False, props=True,
               tag="x"):
    rng = np.random.default_rng([seed, 1212, hash(ctype) % 1000, r, c, F])
    for _ in range(20):
        sc = calgen.Scenario(ctype, r, c, F, rng, form=form)
        sc.sufficient_recipe(extras=1)
        sc.choose_entries()
        ok, kappa = sc.well_determined(1e4)
        if ok:
            break
    s = Script()
    sc.emit_header(s)
    if m_error:
        s.rvec("nf", [1e-4] * F)
        s.rvec("tr", [1e-3] * F)
        s.op("vnacal_new_set_m_error $vn NULL %d @nf @tr" % F)
    uid = [0]
    for i, st in enumerate(sc.stds):
        sc.emit_std(s, st, i, uid=uid)
    s.op("vnacal_new_solve $vn")
    s.op("ci=vnacal_add_calibration $vc %s $vn" % qs("cal_" + tag))
    if props:
        s.op("vnacal_property_set $vc -1 %s" % qs("instrument.model=XYZ 100"))
        s.op("vnacal_property_set $vc $ci %s" % qs("ports[1].name=two"))
        s.op("vnacal_property_set $vc $ci %s" % qs("note=line1\nline2"))
        s.op("vnacal_property_get $vc $ci %s" % qs("note"))
        s.op("vnacal_property_keys $vc $ci %s" % qs("."))
    s.op("vnacal_set_dprecision $vc 9")
    path = "c12_%s.vnacal" % tag
    s.op("vnacal_save $vc %s" % qs(path))
    s.op("read_file %s" % qs(path))
    s.op("vd=vnadata_alloc")
    if sc.can_apply():
        sc.emit_apply(s, sc.rand_dut(), "cal")
    s.op("vc2=vnacal_load %s" % qs(path))
    s.op("dump_vnacal $vc2")
    if sc.can_apply():
        sc.emit_apply(s, sc.rand_dut(), "cal", vc="vc2", ci="0", tag="e")
    s.op("vnacal_delete_calibration $vc2 0")
    s.op("dump_vnacal $vc")
    s.op("vnacal_new_free $vn")
    return s.text()


def param_script(seed):
    s = Script()
    s.op("vc=vnacal_create")
    s.rvec("pf", [1e9, 2e9, 3e9, 4e9])
    s.cvec("pg", [0.5 + 0.1j, 0.4 + 0.2j, 0.3 + 0.3j, 0.2 + 0.4j])
    s.op("p1=vnacal_make_scalar_parameter $vc 0x1p-1 0x1p-2")
    s.op("p2=vnacal_make_vector_parameter $vc @pf 4 @pg")
    s.op("p3=vnacal_make_unknown_parameter $vc $p1")
    s.rvec("sf", [1e9, 4e9])
    s.rvec("sv", [0.01, 0.02])
    s.op("p4=vnacal_make_correlated_parameter $vc $p2 @sf 2 @sv")
    s.op("p5=vnacal_make_correlated_parameter $vc $p1 NULL 1 @sv")
    # sigma given per point of the correlate's own grid (NULL frequency
    # vector): the new parameter borrows the vector parameter's frequencies
    s.rvec("sv4", [0.01, 0.02, 0.03, 0.04])
    s.op("p6=vnacal_make_correlated_parameter $vc $p2 NULL 4 @sv4")
    s.op("p7=vnacal_make_unknown_parameter $vc $p2")
    s.op("p8=vnacal_make_correlated_parameter $vc $p7 NULL 4 @sv4")
    for p in ("$p1", "$p2", "$p3", "$p4", "$p5", "$p6", "$p8", "0", "1", "2"):
        s.op("vnacal_get_parameter_value $vc %s %s" % (p, hx(2.5e9)))
    for k in range(12):
        s.op("q%d=vnacal_make_scalar_parameter $vc %s" % (k, cx(0.1 * k + 0.05j)))
    s.op("vnacal_delete_parameter $vc $p4")
    s.op("vnacal_delete_parameter $vc $q3")
    s.op("q20=vnacal_make_scalar_parameter $vc 0x1p-3 0")
    s.op("vn=vnacal_new_alloc $vc T8 1 1 2")
    s.rvec("f", [1.5e9, 3.5e9])
    s.op("vnacal_new_set_frequency_vector $vn @f")
    s.op("vnacal_new_set_z0 $vn 75 0")
    s.cmat("m1", [[0.1 + 0.2j, 0.2 + 0.1j]])
    s.cmat("m2", [[0.5 + 0.2j, 0.6 + 0.1j]])
    s.cmat("m3", [[-0.4 + 0.2j, -0.2 + 0.3j]])
    s.op("vnacal_new_add_single_reflect_m $vn @m1 1 1 $p2 1")
    s.op("vnacal_new_add_single_reflect_m $vn @m2 1 1 1 1")
    s.op("vnacal_new_add_single_reflect_m $vn @m3 1 1 2 1")
    s.op("vnacal_new_solve $vn")
    s.op("ci=vnacal_add_calibration $vc \"one\" $vn")
    s.op("ci2=vnacal_add_calibration $vc \"one\" $vn")
    # replace an existing calibration by name (the solved state moves into
    # the vnacal_t, so each add needs its own solve)
    s.op("vnacal_new_solve $vn")
    s.op("ci3=vnacal_add_calibration $vc \"one\" $vn")
    s.op("dump_vnacal $vc")
    s.op("vnacal_new_solve $vn")
    s.op("ci4=vnacal_add_calibration $vc \"two\" $vn")
    s.op("vnacal_new_solve $vn")
    s.op("ci5=vnacal_add_calibration $vc \"one\" $vn")
    s.op("vnacal_find_calibration $vc \"one\"")
    s.op("vnacal_delete_calibration $vc $ci4")
    s.op("vnacal_new_solve $vn")
    s.op("ci6=vnacal_add_calibration $vc \"three\" $vn")
    s.op("dump_vnacal $vc")
    return s.text()


def vnadata_script(seed):
    s = Script()
    s.op("vd=vnadata_alloc")
    s.op("vnadata_init $vd S 2 2 3")
    s.rvec("f", [1e9, 2e9, 3e9])
    s.op("vnadata_set_frequency_vector $vd @f")
    for fi in range(3):
        s.cvec("m%d" % fi, [0.1 + 0.1j * fi, 0.8 - 0.1j, 0.7 + 0.2j, 0.2 - 0.1j * fi])
        s.op("vnadata_set_matrix $vd %d @m%d" % (fi, fi))
    s.op("vnadata_set_z0 $vd 1 75 5")
    s.op("dump_vnadata $vd")
    s.op("vnadata_resize $vd S 3 3 4")
    s.op("vnadata_set_frequency $vd 3 0x1p+32")
    s.op("vnadata_add_frequency $vd 0x1.8p+32")
    s.op("dump_vnadata $vd")
    s.op("vnadata_set_fz0 $vd 1 2 60 1")
    s.op("dump_vnadata $vd")
    s.op("vnadata_set_all_z0 $vd 50 0")
    s.op("vnadata_resize $vd S 2 2 3")
    s.op("vo=vnadata_alloc")
    for t in ("Z", "Y", "T", "H", "A", "ZIN"):
        s.op("vnadata_convert $vd $vo %s" % t)
        s.op("dump_vnadata $vo")
    s.op("vnadata_set_fz0 $vd 0 0 40 2")
    s.op("vnadata_convert $vd $vo Z")
    s.op("dump_vnadata $vo")
    s.op("vnadata_set_all_z0 $vd 50 0")
    for k, (ext, fmt) in enumerate([(".s2p", "Sma"), (".ts", "Zri"),
                                    (".npd", "SdB,Zri,IL,RL,VSWR,PRC,Zin"),
                                    (".s2p", "ri")]):
        path = "c12d_%d%s" % (k, ext)
        s.op("vnadata_set_format $vd %s" % qs(fmt))
        s.op("vnadata_get_format $vd")
        s.op("vnadata_cksave $vd %s" % qs(path))
        s.op("vnadata_save $vd %s" % qs(path))
        # (a type-less format is completed by the save)
        s.op("vnadata_get_format $vd")
        s.op("read_file %s" % qs(path))
        s.op("vl=vnadata_alloc")
        s.op("vnadata_load $vl %s" % qs(path))
        s.op("dump_vnadata $vl")
        s.op("vnadata_free $vl")
    s.op("vnadata_set_filetype $vd 2")
    s.op("vnadata_set_fz0 $vd 0 0 40 2")
    s.op("vnadata_set_format $vd \"Sri\"")
    s.op("vnadata_fsave $vd \"c12d_f.ts\"")
    s.op("read_file \"c12d_f.ts\"")
    s.op("vl=vnadata_alloc")
    s.op("vnadata_fload $vl \"c12d_f.ts\"")
    s.op("dump_vnadata $vl")
    s.op("vx=vnadata_alloc_and_init Z 3 3 2")
    s.op("dump_vnadata $vx")
    # an object on which no format was ever set: the savers install the
    # default one themselves; saved in three file types one after the other
    s.op("vy=vnadata_alloc_and_init S 2 2 2")
    s.op("vnadata_set_frequency_vector $vy @f")
    s.op("vnadata_set_matrix $vy 0 @m0")
    s.op("vnadata_set_matrix $vy 1 @m1")
    for path in ("c12y.s2p", "c12y.npd", "c12y.ts"):
        s.op("vnadata_cksave $vy %s" % qs(path))
        s.op("vnadata_save $vy %s" % qs(path))
        s.op("read_file %s" % qs(path))
        s.op("vnadata_get_format $vy")
    s.op("dump_vnadata $vy")
    # hand-written files whose lines fill the loaders' text buffers exactly
    # (81, 162 bytes) at the end of a field, in the middle of one and at the
    # end of the line: every growth step of the scanners is then an
    # allocation of its own to fail
    npd = ("#NPD\n#:version 1.0\n#:ports 2\n#:frequencies 2\n"
           "#:parameters Sri\n#:z0 50 +0j 50 +0j\n"
           "1.0000e+9 +.1000000 +.2000000 +.3000000 +.4000000 +.5000000 "
           "+.6000000 +.700000000 +.8000000\n"
           "2.0000e+9 +.1000000 +.2000000 +.3000000 +.4000000 +.5000000 "
           "+.6000000 +.7000000001 +.80000000000000000000000000000000000000000"
           "000000000000000000000000000000000000000000000000001\n")
    s.op("write_file \"c12h.npd\" %s" % qs(npd))
    s.op("vh=vnadata_alloc")
    s.op("vnadata_load $vh \"c12h.npd\"")
    s.op("dump_vnadata $vh")
    ts = ("# GHz S RI R 50\n"
          "1.0000000 +.1000000 +.2000000 +.3000000 +.4000000 +.5000000 "
          "+.6000000 +.700000000 +.8000000\n"
          "2.0 .1 .2 .3 .4 .5 .6 .7 "
          ".80000000000000000000000000000000000000000000000000000000000000000"
          "00000000000000000000000000000000000000000001\n")
    s.op("write_file \"c12h.s2p\" %s" % qs(ts))
    s.op("vnadata_load $vh \"c12h.s2p\"")
    s.op("dump_vnadata $vh")
    return s.text()


def property_script(seed):
    s = Script()
    s.op("pr=proot")
    for d in ("a.b.c=1", "a.b.d=two words", "list[2]=x", "list[0+]=first",
              "list[+]=last", "m.k1#", "m.k2=v", "deep[1][2].x=3",
              "esc\\.key=dot", "two words.inner=5", "m.k2=replaced",
              "a.b=flat"):
        s.op("vnaproperty_set $pr %s" % qs(d))
    s.op("dump_property $pr")
    # a list filled to exactly the size of its vector (8, then 16), then an
    # insertion below the end: the vector has to grow while an element is
    # being placed in the middle; a map grown past its first rehash
    for i in range(8):
        s.op("vnaproperty_set $pr %s" % qs("full[+]=v%d" % i))
    s.op("vnaproperty_set $pr \"full[2+]=ins\"")
    for i in range(7):
        s.op("vnaproperty_set $pr %s" % qs("full[+]=w%d" % i))
    s.op("vnaproperty_set $pr \"full[0+]=first\"")
    s.op("vnaproperty_set_subtree $pr \"full[5+]\" \"k=v\"")
    for i in range(20):
        s.op("vnaproperty_set $pr %s" % qs("big.key%d=%d" % (i, i)))
    s.op("vnaproperty_delete $pr \"full[3]\"")
    s.op("dump_property $pr")
    s.op("vnaproperty_set_kv $pr \"kv.key\" \"value with = sign\"")
    for d in ("a", "list", "m", ".", "deep[1]"):
        s.op("vnaproperty_type $pr %s" % qs(d))
        s.op("vnaproperty_count $pr %s" % qs(d))
        s.op("vnaproperty_keys $pr %s" % qs(d))
        s.op("vnaproperty_get_subtree $pr %s" % qs(d))
    s.op("vnaproperty_get $pr \"a.b\"")
    s.op("vnaproperty_quote_key \"a.b[1]{x} y \"")
    s.op("vnaproperty_set_subtree $pr \"sub.tree[1]\" \"k=v\"")
    s.op("p2=proot")
    s.op("vnaproperty_copy $p2 $pr")
    s.op("dump_property $p2")
    s.op("vnaproperty_delete $pr \"list[1]\"")
    s.op("vnaproperty_delete $pr \"m.k1\"")
    s.op("vnaproperty_delete $pr \"a.\"")
    s.op("dump_property $pr")
    s.op("vnaproperty_export_yaml_to_file $pr \"c12p.yaml\"")
    s.op("read_file \"c12p.yaml\"")
    s.op("p3=proot")
    s.op("vnaproperty_import_yaml_from_file $p3 \"c12p.yaml\"")
    s.op("dump_property $p3")
    s.op("vnaproperty_import_yaml_from_string $p3 %s" % qs(
        "a: [1, 2, {b: c}]\nd: ~\ne: 'x y'\n"))
    s.op("dump_property $p3")
    s.op("vnaproperty_delete $p3 \".\"")
    return s.text()


def selfcal_script(seed, which):
    """unknown-parameter solves: analytic TRL and Levenberg-Marquardt"""
    import C02
    rng = np.random.default_rng([seed, 1212, 77, 0 if which == "trl" else 1])
    if which == "trl":
        sc, unk = C02.trl_scenario(rng, "TE10", 2)
        settings = {}
    else:
        for _ in range(20):
            sc, unk, info = C02.lm_scenario(rng, "T8", 2, 2, 2, 0.05)
            if sc is not None and info.get("corr") is not None:
                break
        settings = dict(p_tol=1e-8, iter=50)
    s, L = C02.emit(sc, unk, settings, sc.rand_dut())
    s.op("dump_vnacal $vc")
    s.op("vnacal_save $vc \"c12_%s.vnacal\"" % which)
    s.op("read_file \"c12_%s.vnacal\"" % which)
    return s.text()


def alias_script(seed):
    """short flows every k of which is failed in the quick tier too: mode
    switches that happen inside other calls, and calls that hand the library a
    string it returned itself"""
    s = Script()
    s.op("vd=vnadata_alloc")
    s.op("vnadata_init $vd 1 2 2 2")
    s.op("vnadata_set_fz0 $vd 0 0 0x1.2p+6 0x1p+2")
    s.op("vnadata_init $vd 1 1 1 1")
    s.op("vnadata_has_fz0 $vd")
    s.op("vnadata_set_fz0 $vd 0 0 0x1.2p+6 0x1p+2")
    s.op("vnadata_set_all_z0 $vd 75 0")
    s.op("vnadata_set_format $vd \"Sma\"")
    s.op("vnadata_set_format_own $vd")
    s.op("vnadata_set_format $vd \"Sri,Zma\"")
    s.op("vnadata_get_format $vd")
    s.op("vnadata_set_format_own $vd")
    s.op("dump_vnadata $vd")
    s.op("vc=vnacal_create")
    s.op("vn=vnacal_new_alloc $vc T8 1 1 1")
    s.rvec("f", [1.5e9])
    s.op("vnacal_new_set_frequency_vector $vn @f")
    s.cmat("m1", [[0.1 + 0.2j]])
    s.cmat("m2", [[0.5 + 0.2j]])
    s.cmat("m3", [[-0.4 + 0.2j]])
    s.op("vnacal_new_add_single_reflect_m $vn @m1 1 1 0 1")
    s.op("vnacal_new_add_single_reflect_m $vn @m2 1 1 1 1")
    s.op("vnacal_new_add_single_reflect_m $vn @m3 1 1 2 1")
    s.op("vnacal_new_solve $vn")
    s.op("ci=vnacal_add_calibration $vc \"a\" $vn")
    s.op("vnacal_new_solve $vn")
    s.op("ci2=vnacal_add_calibration_own_name $vc 0 $vn")
    s.op("vnacal_save $vc \"c12_alias.vnacal\"")
    s.op("vnacal_save_own_filename $vc")
    s.op("vnacal_get_filename $vc")
    s.op("dump_vnacal $vc")
    s.op("read_file \"c12_alias.vnacal\"")
    return s.text()


def resolve_script(seed):
    """one unknown parameter handle solved by two vnacal_new_t on two grids
    with a different number of points (and read back after each solve): the
    stored solution of the first solve is replaced by the second one"""
    import gen_handles
    for k in range(200):
        rng = np.random.default_rng([seed, 1212, 88, k])
        g = gen_handles.ResolveGen(rng)
        text = g.generate()
        if text and g.shape[1] == "other_count" and g.shape[-1] == "unknown" \
                and text.count("\n") < 120:
            return text
    return None


def conv_script(seed):
    """every vnaconv function once with a separate and once with an aliased
    output.  They return nothing, so an allocation that fails inside one of
    them can only be tolerated: the result must be the fault-free one."""
    import build
    rng = np.random.default_rng([seed, 1204])
    s = Script()
    for name, kind in build.conv_functions():
        n = 2 if kind in ("K22", "K22Z", "K2I") else 3
        m = np.eye(n) * 0.3 + 0.25 * (rng.standard_normal((n, n)) +
                                      1j * rng.standard_normal((n, n)))
        z0 = [complex(50 + 10 * i, 5 * i) for i in range(n)]
        for alias in (0, 1):
            if alias and kind in ("K2I", "KNI"):
                continue
            toks = ["conv", name, n, alias] + [cx(v) for v in m.reshape(-1)]
            if kind not in ("K22", "KN"):
                toks += [cx(v) for v in z0]
            s.op(*toks)
    return s.text()


def generated_scripts(seed, n, nops=50):
    """call histories from the C03 generator (valid / boundary / invalid
    arguments over every object kind, deep calibration states, files):
    allocation failures in states no scripted flow reaches"""
    import gen_api
    out = []
    for k in range(n):
        rng = np.random.default_rng([seed, k, 1212])
        g = gen_api.ApiGen(rng)
        w = [(0.3, 0.2, 0.5), (0.6, 0.2, 0.2), (0.1, 0.6, 0.3),
             (0.1, 0.05, 0.85)][k % 4]
        out.append(("gen%d" % k, g.generate(nops, w)))
    return out


def all_scripts(seed):
    return [
        ("cal_trl", selfcal_script(seed, "trl")),
        ("cal_lm_corr", selfcal_script(seed, "lm")),
        ("param", param_script(seed)),
        ("resolve", resolve_script(seed)),
        ("alias", alias_script(seed)),
        ("property", property_script(seed)),
        ("vnadata", vnadata_script(seed)),
        ("conv", conv_script(seed)),
        ("cal_t8_m", cal_script(seed, "T8", 2, 2, 2, "m", tag="t8")),
        ("cal_te10_merr", cal_script(seed, "TE10", 2, 2, 2, "m", m_error=True,
                                     tag="te10")),
        ("cal_e12_ab", cal_script(seed, "E12", 2, 2, 2, "ab", tag="e12")),
        ("cal_u16_ab", cal_script(seed, "U16", 2, 2, 1, "ab", props=False,
                                  tag="u16")),
        ("cal_ue14_merr", cal_script(seed, "UE14", 2, 1, 2, "m", m_error=True,
                                     props=False, tag="ue14")),
        ("cal_u8_3x3", cal_script(seed, "U8", 3, 3, 1, "m", props=False,
                                  tag="u8")),
    ]


# ----------------------------------------------------------------------
def strip(ev):
    d = {k: v for k, v in ev.items()
         if k not in ("a0", "a1", "fault", "i", "retried", "ms")}
    if isinstance(d.get("ret"), str) and d["ret"].startswith("obj#"):
        d["ret"] = "obj"
    if isinstance(d.get("out"), dict) and "first_errno" in d["out"]:
        d["out"] = {k: v for k, v in d["out"].items()
                    if k not in ("first_rc", "first_errno")}
    if not is_fail(d):
        d.pop("errno", None)   # errno is meaningless after success
    return d


def is_fail(ev):
    r = ev.get("ret")
    if r == -1 or r is None:
        return True
    if isinstance(r, float) and r == float("inf"):
        return True
    if isinstance(r, list) and r and r[0] == float("inf"):
        return True
    return False


def work(chunk_id, payload):
    binary, workroot, name, text, base_events, ks = payload
    part = dict(evaluations=0, counters={}, maxima={}, distinct=set(),
                samples=[], violations=[], inconclusive=[], harness_errors=[])
    cnt = part["counters"]
    wd = os.path.join(workroot, "w%s_%d" % (name, chunk_id))
    cases = [("%s.k%d" % (name, k),
              "!faultretry 1\nfault arm %d\n" % k + text) for k in ks]
    results = R.run_cases(binary, cases, wd, timeout=1800)
    base = [strip(e) for e in base_events]
    cbase = [json.dumps(x, sort_keys=True) for x in base]
    for (cid, ctext), k in zip(cases, ks):
        res = results[cid]
        v, inc = R.standard_violations(res, ctext, PROP)
        for x in v:
            # key by fault site where known
            pass
        part["violations"] += v
        part["inconclusive"] += inc
        if res.status != "ok":
            if res.status in ("driver_error", "notrun"):
                part["harness_errors"].append("%s %s %s" % (cid, res.status,
                                                            res.detail))
            continue
        part["evaluations"] += 1
        evs = res.events[1:]     # drop the "fault arm" event
        faulted = [e for e in evs if "fault" in e]
        if not faulted:
            cnt["fault_not_reached"] = cnt.get("fault_not_reached", 0) + 1
            continue
        fe = faulted[0]
        site = os.path.basename(fe["fault"])
        part["distinct"].add(site)
        # composite subtree ops repeat only their failed second step (the
        # first one created a node): "first_errno" is that failure's errno
        inner = isinstance(fe.get("out"), dict) and "first_errno" in fe["out"]
        failed = is_fail(fe) or bool(fe.get("retried")) or inner
        # position of the faulted event in the aligned sequence
        pos = 0
        for e in evs:
            if e is fe:
                break
            if not e.get("retried"):
                pos += 1
        inherent = (failed and pos < len(base) and is_fail(base[pos]) and
                    base[pos].get("errno") == fe.get("errno"))
        if inherent:
            # the call fails in the fault-free run too; the fault hit its
            # error reporting path
            cnt["outcome_fault_in_error_path"] = cnt.get(
                "outcome_fault_in_error_path", 0) + 1
        elif failed:
            cnt["outcome_clean_failure"] = cnt.get("outcome_clean_failure", 0) + 1
            # one line per failing call and object (C11's clause, here
            # under an allocation failure): vnacal_apply legitimately ends
            # with one line from the result object and one from the vnacal_t
            tags = [c_[2] if len(c_) > 2 else "" for c_ in (fe.get("cb") or [])
                    if c_[0] != "WARNING"]
            if len(tags) != len(set(tags)):
                part["violations"].append(dict(
                    key="%s:multiple-error-callbacks:%s" % (PROP, fe["op"]),
                    desc="allocation %d (%s) failed inside %s: the failure "
                         "was reported more than once through the same "
                         "object's error function: %s" % (
                             k, site, fe["op"], fe.get("cb")),
                    script=ctext))
            eno = fe.get("errno")
            if isinstance(fe.get("out"), dict) and "set_errno" in fe["out"] \
                    and fe["out"].get("set_rc") == -1:
                eno = fe["out"]["set_errno"]
            if inner:
                eno = fe["out"]["first_errno"]
            if eno != "ENOMEM":
                part["violations"].append(dict(
                    key="%s:wrong-errno:%s" % (PROP, fe["op"]),
                    desc="allocation %d (%s) failed inside %s: the call failed "
                         "with errno %s instead of ENOMEM: %s" % (
                             k, site, fe["op"], fe.get("errno"), fe),
                    script=ctext))
        else:
            cnt["outcome_tolerated"] = cnt.get("outcome_tolerated", 0) + 1
        # the rest of the history must equal the fault-free run: drop the
        # failed first attempt (it was retried)
        seq = []
        skip_next_dup = False
        for e in evs:
            if e.get("retried"):
                continue
            seq.append(strip(e))
        # compared as canonical JSON text: NaN values are legitimate
        # contents and NaN != NaN as a float
        cseq = [json.dumps(x, sort_keys=True) for x in seq]
        cb_ = cbase
        if not failed and pos < len(seq) and pos < len(base):
            # the faulted call succeeded: a warning it issued while the
            # allocation for the message text failed carries strerror text
            # instead; the call's result is what counts
            cseq = list(cseq)
            cb_ = list(cbase)
            cseq[pos] = json.dumps({k: v for k, v in seq[pos].items()
                                    if k != "cb"}, sort_keys=True)
            cb_[pos] = json.dumps({k: v for k, v in base[pos].items()
                                   if k != "cb"}, sort_keys=True)
        if len(seq) != len(base) or cseq != cb_:
            # find first difference
            d = 0
            while d < min(len(seq), len(base)) and cseq[d] == cb_[d]:
                d += 1
            a = seq[d] if d < len(seq) else None
            b = base[d] if d < len(base) else None
            part["violations"].append(dict(
                key="%s:state-differs:%s" % (PROP, fe["op"]),
                desc="after failing allocation %d (%s) inside %s (%s) and "
                     "retrying, the history no longer matches the fault-free "
                     "run; first difference at event %d:\n with fault: %s\n "
                     "fault-free: %s" % (
                         k, site, fe["op"],
                         "failed" if failed else "tolerated", d,
                         json.dumps(a)[:600], json.dumps(b)[:600]),
                script=ctext))
        if len(part["samples"]) < 1:
            part["samples"].append(dict(script=name, k=k, site=site,
                                        op=fe["op"], failed=failed,
                                        errno=fe.get("errno")))
    return part


def main():
    chk = R.Check(PROP, level="fault_enumeration")
    binary = chk.build("fi")
    errs, seen = R.monitor_canaries({"fi": binary}, chk.workroot)
    chk.harness_errors += errs
    chk.counters["monitor_canaries_noticed"] = sum(1 for v in seen.values()
                                                   if v)
    scripts = [(n_, t_) for n_, t_ in all_scripts(chk.seed) if t_]
    ngen = int((8 if chk.tier == "quick" else 96) * chk.args.scale)
    scripts += generated_scripts(chk.seed, ngen)
    payloads = []
    Ks = {}
    for name, text in scripts:
        wd = os.path.join(chk.workroot, "base_" + name)
        res = R.run_cases(binary, [(name, "!faultretry 0\nfault count\n" + text + "fault count\n")],
                          wd)[name]
        v, inc = R.standard_violations(res, text, PROP)
        if res.status != "ok" or v:
            for x in v:
                chk.violation(x["key"], "fault-free run of script %s: %s" % (
                    name, x["desc"]), x["script"])
            if res.status != "ok":
                chk.harness_errors.append("fault-free run of %s: %s %s" % (
                    name, res.status, res.detail))
            continue
        K = res.events[-1]["ret"] - res.events[0]["ret"]
        Ks[name] = K
        base_events = res.events[1:-1]
        nfail = sum(1 for e in base_events if is_fail(e))
        chk.count("fault_free_failed_events", nfail)
        if chk.tier == "quick":
            step = 3 if name.startswith("gen") else 1
            off = chk.seed % step
            ks = list(range(1 + off, K + 1, step))
        else:
            ks = list(range(1, K + 1))
        size = max(20, len(ks) // 16 + 1)
        for i in range(0, len(ks), size):
            payloads.append((binary, chk.workroot, name, text, base_events,
                             ks[i:i + size]))
    for part in R.pmap(work, payloads):
        chk.merge(part)
    chk.counters["scripts"] = len(scripts)
    chk.counters["allocations_in_fault_free_runs"] = sum(Ks.values())
    chk.finish(
        rule="for each scripted history and each generated API history "
             "(C03 generator: quick 8, thorough 96) every allocation index k "
             "(quick: every k of the scripted histories, every 3rd of the "
             "generated ones) made from "
             "a libvna call site is failed once; the faulted call must succeed "
             "or fail with ENOMEM, the process must stay clean under "
             "ASan/UBSan/LSan, and after one retry of the failed call every "
             "later event (returns, dumps, saved bytes) must equal the "
             "fault-free run; distinct = distinct allocation sites (file:line) "
             "faulted",
        min_events=50,
        assumptions=["only allocations requested from libvna source text are "
                     "faulted (libyaml and libc keep the real allocator)",
                     "one fault per run"],
        extra=dict(K_per_script=Ks, exhaustive=(chk.tier == "thorough")))


if __name__ == "__main__":
    main()
