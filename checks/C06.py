#!/usr/bin/env python3-vt
"""C06: network data survive save and load in Touchstone 1, Touchstone 2, NPD.

Monitor: the driver builds vnadata_t objects, calls vnadata_cksave /
vnadata_save / vnadata_fsave, returns the bytes written and loads them into a
fresh object.  Offline, pylib/tsnpd.py (an independent reader written from the
format specifications) parses the bytes and pylib/netparams.py computes what
every requested parameter form must be; the loaded object is compared with
what the file denotes.  Nothing in the oracle calls libvna.
"""
import math
import os
import sys

import numpy as np

sys.path.insert(0, os.path.join(os.path.dirname(os.path.abspath(__file__)),
                                "..", "pylib"))
import netparams as NP  # noqa: E402
import runner as R  # noqa: E402
import tsnpd as TS  # noqa: E402

PROP = "C06"
EPS = NP.EPS
MAXP = TS.MAX_PRECISION
# computed (converted) values: allowed error in units of eps*(|ref|+sens);
# worst seen on the unchanged tree: see evidence counters max_margin_*
TOL_MARGIN = 2.0e6
KAPPA_MAX = 1.0e4
# conversions are normwise (not componentwise) accurate: entries far below the
# largest entry of the result carry an absolute error of a few eps * max|ref|
NORM_K = 1.0e3
# "to rounding": a normalisation is one multiplication or division (1 eps)
ROUNDING_K = 1.0e3
FT_NAMES = {0: "AUTO", 1: "TS1", 2: "TS2", 3: "NPD"}
TYPE_CODE = {"S": 1, "T": 2, "U": 3, "Z": 4, "Y": 5, "H": 6, "G": 7, "A": 8,
             "B": 9, "ZIN": 10}
CODE_TYPE = {v: k for k, v in TYPE_CODE.items()}
TWO_PORT = ("T", "U", "H", "G", "A", "B")


# ----------------------------------------------------------------------
# generation
# ----------------------------------------------------------------------
def wchoice(rng, items, weights):
    w = np.asarray(weights, dtype=float)
    return items[int(rng.choice(len(items), p=w / w.sum()))]


def round_sig(x, p):
    return float("%.*e" % (p - 1, x))


def gen_freqs(rng, F, fp, allow_zero):
    for _ in range(30):
        mode = int(rng.integers(0, 3))
        if mode == 0:
            start = float(wchoice(rng, [1e3, 1e6, 1e8, 1e9, 2.4e9, 50.0],
                                  [1, 2, 2, 3, 1, 1]))
            step = start * float(wchoice(rng, [0.1, 0.5, 1.0, 10.0],
                                         [1, 1, 1, 1]))
            fr = [start + i * step for i in range(F)]
        elif mode == 1:
            fr = sorted(float(10 ** rng.uniform(1, 11)) for _ in range(F))
        else:
            f0 = float(10 ** rng.uniform(0, 11))
            fr = [f0]
            for _ in range(F - 1):
                fr.append(fr[-1] * (1 + float(10 ** rng.uniform(-6, 0.5))))
        if allow_zero and rng.random() < 0.04:
            fr[0] = 0.0
        chk = fr if fp == MAXP else [round_sig(f, fp) if f else 0.0 for f in fr]
        if all(b > a for a, b in zip(chk, chk[1:])):
            return fr
    return [10.0 ** (6 + i) for i in range(F)]


def _tie(rng, re_):
    """partly equal reference impedances: some ports agree exactly (in the
    real part), others do not"""
    n = len(re_)
    if n >= 3 and rng.random() < 0.35:
        for _ in range(int(rng.integers(1, n))):
            i, j = rng.choice(n, 2, replace=False)
            re_[j] = re_[i]
        if len(set(float(x) for x in re_)) == 1:
            re_[0] = re_[0] * 2.0
    return re_


def gen_z0(rng, n, F, want):
    """want: 'equal' 'unequal' 'complex' 'perf'; returns (kind, z0|None, fz0)"""
    if want == "equal":
        r = float(wchoice(rng, [50.0, 1.0, 75.0, None], [4, 1, 1, 3]) or
                  10 ** rng.uniform(-1, 3))
        return [complex(r)] * n, None
    if want == "unequal":
        lo, hi = (-1, 3) if rng.random() < 0.2 else (1, 2.5)
        z = [complex(float(x)) for x in
             _tie(rng, 10 ** rng.uniform(lo, hi, n))]
        if n > 1 and z[0] == z[1] and len(set(z)) == 1:
            z[1] = z[0] * 2
        return z, None
    if want == "complex":
        re_ = _tie(rng, 10 ** rng.uniform(0, 3, n))
        im = re_ * rng.uniform(-2, 2, n)
        return [complex(a, b) for a, b in zip(re_, im)], None
    fz = []
    cplx = rng.random() < 0.6
    for _ in range(F):
        re_ = _tie(rng, 10 ** rng.uniform(0, 3, n))
        im = re_ * rng.uniform(-2, 2, n) if cplx else np.zeros(n)
        fz.append([complex(a, b) for a, b in zip(re_, im)])
    return None, fz


def gen_matrix(rng, xtype, n, z0):
    z0 = np.asarray(z0, dtype=complex)
    if xtype == "ZIN":
        s = (rng.standard_normal((n, n)) + 1j * rng.standard_normal((n, n))) \
            * rng.uniform(0.1, 0.6)
        if rng.random() < 0.5:
            return NP.zin("S", s, z0).reshape(1, n)
        return ((rng.standard_normal(n) + 1j * rng.standard_normal(n)) *
                np.abs(z0)).reshape(1, n)
    s = (rng.standard_normal((n, n)) + 1j * rng.standard_normal((n, n))) \
        * rng.uniform(0.05, 0.5) / math.sqrt(n)
    if xtype == "S":
        return s
    if rng.random() < 0.7:
        return NP.convert("S", xtype, s, z0)
    m = rng.standard_normal((n, n)) + 1j * rng.standard_normal((n, n))
    zl = np.sqrt(np.abs(z0))
    if xtype == "Z":
        m = m * np.outer(zl, zl)
    elif xtype == "Y":
        m = m / np.outer(zl, zl)
    elif xtype == "H":
        m = m * np.array([[zl[0] * zl[0], 1], [1, 1 / (zl[1] * zl[1])]])
    elif xtype == "G":
        m = m * np.array([[1 / (zl[0] * zl[0]), 1], [1, zl[1] * zl[1]]])
    elif xtype in ("A", "B"):
        m = m * np.array([[1, zl[0] * zl[1]], [1 / (zl[0] * zl[1]), 1]])
    return m


def rand_case_str(rng, s):
    r = rng.random()
    if r < 0.4:
        return s
    if r < 0.55:
        return s.upper()
    if r < 0.7:
        return s.lower()
    return "".join(c.upper() if rng.random() < 0.5 else c.lower() for c in s)


def gen_format_own(rng, kind, xtype, n):
    """forms that need no matrix conversion (used with extreme magnitudes)"""
    zin = xtype == "ZIN"
    name = "Zin" if zin else xtype
    coords = ["", "ri", "ma"] + ([] if zin or (kind == "npd" and xtype not in
                                                 ("S", "T", "U")) else ["dB"])
    pool = [name + c for c in coords] + [name + c for c in coords]
    if not zin:
        pool += [c for c in coords if c]
    if kind != "npd":
        return [pool[int(rng.integers(0, len(pool)))]]
    if rng.random() < 0.06 and not zin:
        return None
    if xtype == "S":
        pool += ["RL", "VSWR"] + (["IL", "IL"] if n >= 2 else [])
    if zin:
        pool += ["PRC", "PRL", "SRC", "SRL"]
    k = int(wchoice(rng, [1, 2, 3, 4], [4, 3, 2, 1]))
    return [pool[int(rng.integers(0, len(pool)))] for _ in range(k)]


def gen_format(rng, kind, xtype, n, misuse, own_only=False):
    """list of spec strings (manual spelling) or None (set_format not called)"""
    if own_only and not misuse:
        return gen_format_own(rng, kind, xtype, n)
    coords_all = ["", "ri", "ma", "dB"]
    if kind in ("ts1", "ts2"):
        if rng.random() < 0.08 and not misuse and \
                xtype in ("S", "Z", "Y", "H", "G"):
            return None
        letters = ["S", "Z", "Y"] + (["H", "G"] if n == 2 else [])
        if misuse:
            letters = letters + ["T", "A", "Zin", "PRC", "IL", "VSWR"] + \
                (["H"] if n != 2 else [])
        if rng.random() < 0.25 and xtype in ("S", "Z", "Y", "H", "G"):
            spec = wchoice(rng, ["ri", "ma", "dB"], [1, 1, 1])
        else:
            L = letters[int(rng.integers(0, len(letters)))]
            if L in ("PRC", "IL", "VSWR"):
                spec = L
            else:
                c = coords_all[int(rng.integers(0, 4))]
                if L == "Zin" and c == "dB":
                    c = "ma"
                spec = L + c
        out = [spec]
        if misuse and rng.random() < 0.3:
            out.append("Sri")
        return out
    # NPD
    if rng.random() < 0.06:
        return None
    pool = []
    mats = ["S", "Z", "Y"] + (["T", "U", "H", "G", "A", "B"]
                              if n == 2 or misuse else [])
    for L in mats:
        for c in coords_all:
            if c == "dB" and L not in ("S", "T", "U") and not misuse:
                continue
            pool.append(L + c)
    pool += ["Zin", "Zinri", "Zinma", "PRC", "PRL", "SRC", "SRL", "RL", "VSWR",
             "ri", "ma"]
    if xtype in ("S", "T", "U"):
        pool.append("dB")
    if n >= 2 or misuse:
        pool += ["IL", "IL"]
    k = int(wchoice(rng, [1, 2, 3, 4, 5], [4, 3, 3, 2, 1]))
    # favour the scalar forms so that every list kind is covered
    out = []
    for _ in range(k):
        if rng.random() < 0.35:
            out.append(wchoice(rng, ["IL" if n >= 2 else "RL", "RL", "VSWR",
                                     "PRC", "PRL", "SRC", "SRL", "Zinma",
                                     "Zinri"], [2, 2, 2, 1, 1, 1, 1, 1, 1]))
        else:
            out.append(pool[int(rng.integers(0, len(pool)))])
    if xtype == "ZIN" and not misuse:
        out = [s for s in out if TS.parse_spec(s).source() in ("ZIN", None)
               and s.lower() != "db"] or ["Zinma"]
    return out


def gen_precision(rng):
    r = rng.random()
    if r < 0.10:
        return None
    if r < 0.32:
        return MAXP
    return int(rng.integers(1, 18))


def choose_route(rng, kind, n, equal_z0):
    """(extension, set_filetype value or None) that the manual maps to kind"""
    if kind == "ts1":
        r = rng.random()
        if r < 0.55:
            k = n if (rng.random() < 0.8 and n <= 4) else int(rng.integers(1, 5))
            ft = wchoice(rng, [None, 0, 1, 2, 3], [5, 1, 1, 1, 1])
            return ".s%dp" % k, ft
        if r < 0.8:
            return ".ts", 1
        return wchoice(rng, ["", ".dat", ".txt"], [2, 1, 1]), 1
    if kind == "ts2":
        r = rng.random()
        if r < 0.6:
            return ".ts", wchoice(rng, [None, 0, 2, 3], [5, 1, 2, 1])
        if r < 0.75 and (n > 4 or not equal_z0):
            return ".ts", 1          # Touchstone 1 cannot hold it: promoted
        return wchoice(rng, ["", ".dat", ".s2"], [2, 1, 1]), 2
    r = rng.random()
    if r < 0.6:
        return ".npd", wchoice(rng, [None, 0, 1, 2, 3], [5, 1, 1, 1, 1])
    return wchoice(rng, ["", ".dat", ".csv"], [2, 1, 1]), \
        wchoice(rng, [None, 0, 3], [3, 1, 2])


def expected_kinds(ext, ft, n, z0, fz0):
    """file kinds the manual allows for this filename / filetype setting"""
    e = ext.lower()
    if e == ".npd":
        return {"npd"}
    if len(e) >= 4 and e[1] == "s" and e[-1] == "p" and e[2:-1].isdigit():
        return {"ts1"}
    if e == ".ts":
        if ft == 1:
            return {"ts1", "ts2"}
        return {"ts2"}
    if ft in (None, 0, 3):
        return {"npd"}
    return {"ts1"} if ft == 1 else {"ts2"}


class Case(object):
    pass


def gen_case(rng, idx):
    c = Case()
    c.idx = idx
    kind = wchoice(rng, ["ts1", "ts2", "npd"], [30, 25, 45])
    misuse = rng.random() < 0.08      # combinations the saver must refuse
    if kind == "npd":
        xtype = wchoice(rng, ["S", "Z", "Y", "T", "U", "H", "G", "A", "B", "ZIN"],
                        [28, 12, 10, 7, 6, 7, 6, 7, 6, 11])
    else:
        xtype = wchoice(rng, ["S", "Z", "Y", "T", "U", "H", "G", "A", "B", "ZIN"],
                        [30, 14, 12, 7, 6, 8, 7, 6, 6, 4 if misuse else 0])
    if xtype in TWO_PORT:
        n = 2
    elif kind == "ts1" and not misuse:
        n = int(wchoice(rng, [1, 2, 3, 4], [2, 4, 3, 3]))
    else:
        n = int(wchoice(rng, [1, 2, 3, 4, 5, 6], [15, 28, 20, 15, 11, 11]))
    F = int(wchoice(rng, [1, 2, 3, 4], [2, 4, 3, 1]))
    if kind == "ts1":
        zk = "equal" if not misuse else wchoice(
            rng, ["equal", "unequal", "complex", "perf"], [40, 20, 20, 20])
    elif kind == "ts2":
        zk = wchoice(rng, ["equal", "unequal", "complex", "perf"],
                     [45, 55, 0, 0] if not misuse else [30, 30, 20, 20])
    else:
        zk = wchoice(rng, ["equal", "unequal", "complex", "perf"],
                     [30, 20, 25, 25])
    c.kind_wanted = kind
    c.misuse = misuse
    c.xtype, c.n, c.F, c.zkind = xtype, n, F, zk
    c.z0, c.fz0 = gen_z0(rng, n, F, zk)
    c.fp = gen_precision(rng)
    c.dp = gen_precision(rng)
    c.ext, c.ft = choose_route(rng, kind, n, zk == "equal")
    # extreme magnitudes go with forms of the object's own type: the accuracy
    # of conversions at extreme magnitudes is the subject of C04/C05
    c.scale = 1.0
    if rng.random() < 0.35 and not misuse and (
            kind == "npd" or xtype in ("S", "Z", "Y", "H", "G")):
        c.scale = float(10 ** rng.uniform(-12, 12))
    c.data = []
    for fi in range(F):
        z = c.fz0[fi] if c.fz0 is not None else c.z0
        m = gen_matrix(rng, xtype, n, z)
        c.data.append(np.asarray(m, dtype=complex) * c.scale)
    # formats: re-draw until every requested form is defined and the
    # reference conversion is well conditioned
    c.formats = None
    c.freqs = None
    for attempt in range(12):
        fm = gen_format(rng, kind, xtype, n, misuse, c.scale != 1.0)
        specs = resolve_specs(fm, xtype)
        needs_f = any(s.form in ("PRC", "PRL", "SRC", "SRL") for s in specs)
        fr = gen_freqs(rng, F, c.fp if c.fp is not None else 7, not needs_f)
        c.formats, c.freqs = fm, fr
        c.specs = specs
        c.truth_cache = {}
        if misuse or all_defined(c, kind):
            break
        if attempt >= 6:
            # fall back on forms of the object's own type
            c.formats = ["ri" if xtype != "ZIN" else "Zinri"]
            c.specs = resolve_specs(c.formats, xtype)
            c.truth_cache = {}
            break
    if c.formats is not None:
        sep = [",", ", ", " ,", " , "]
        txt = ""
        for i, s in enumerate(c.formats):
            if i:
                txt += sep[int(rng.integers(0, 4))] if rng.random() < 0.3 else ","
            txt += rand_case_str(rng, s)
        c.format_text = txt
    else:
        c.format_text = None
    c.order = list(rng.permutation(3))
    c.presave = None
    if rng.random() < 0.3:
        c.presave = [str(rng.choice([".npd", ".ts", ".s%dp" % min(n, 4),
                                     ".npd", ""]))
                     for _ in range(int(rng.integers(1, 3)))]
    c.fsave_alias = rng.random() < 0.3
    c.use_fload = rng.random() < 0.3
    return c


def resolve_specs(formats, xtype):
    if formats is None:
        formats = ["ri"]
    out = []
    for s in formats:
        sp = TS.parse_spec(s)
        if sp.param is None:
            sp = TS.Spec(sp.text, xtype, sp.form)
        out.append(sp)
    return out


# ----------------------------------------------------------------------
# reference values
# ----------------------------------------------------------------------
def z0_at(c, fi):
    return np.asarray(c.fz0[fi] if c.fz0 is not None else c.z0, dtype=complex)


def truth(c, P, fi, ts1norm):
    """reference values of parameter P at frequency fi.
    Returns (values, abs tolerance per entry, direct) or None when the
    reference conversion is ill conditioned / impossible."""
    key = (P, fi, ts1norm)
    if key in c.truth_cache:
        return c.truth_cache[key]
    res = _truth(c, P, fi, ts1norm)
    c.truth_cache[key] = res
    return res


def _sens(fn, m):
    try:
        ref, delta = NP.sensitivity(fn, m)
    except (np.linalg.LinAlgError, ZeroDivisionError, FloatingPointError):
        return None
    if not (np.all(np.isfinite(ref)) and np.all(np.isfinite(delta))):
        return None
    kap = float(np.max(delta) / (np.max(np.abs(ref)) + 1e-300))
    if kap > KAPPA_MAX:
        return None
    return ref, delta, kap


def _from_s(P, s, z):
    if P == "S":
        return s
    if P == "ZIN":
        return NP.zin("S", s, z)
    return NP.convert("S", P, s, z)


def _wave_sens(P, s0, z):
    """entrywise response of P(S) to a normwise-relative perturbation of the
    scattering matrix: the error of any conversion that is backward stable in
    the wave domain (libvna converts through S where no direct formula is
    used); None when not finite"""
    rng = np.random.default_rng(4242)
    rel = 1e-8
    y0 = np.asarray(_from_s(P, s0, z))
    scale = max(1.0, float(np.max(np.abs(s0))))
    d = np.zeros(y0.shape)
    for _ in range(3):
        e = rng.standard_normal(s0.shape) + 1j * rng.standard_normal(s0.shape)
        y = np.asarray(_from_s(P, s0 + rel * scale * e, z))
        d = np.maximum(d, np.abs(y - y0) / rel)
    if not np.all(np.isfinite(d)):
        return None
    return d


def _z0_spread(z):
    """libvna solves with the unscaled matrices (Z + Z0 etc.): its error grows
    with their row scaling, i.e. with the spread of the references"""
    a = np.abs(z)
    r = np.abs(np.real(z))
    return float((np.max(a) / np.min(a)) * math.sqrt(np.max(r) / np.min(r)))


def _truth(c, P, fi, ts1norm):
    X = c.xtype
    m = c.data[fi]
    z = z0_at(c, fi)
    n = c.n
    rho = _z0_spread(z)
    with np.errstate(all="ignore"):
        if X == "ZIN":
            if P != "ZIN":
                return None
            return m.reshape(-1), np.zeros(n), True
        if P in TWO_PORT and n != 2:
            return None
        norm = ts1norm and P in ("Z", "Y", "H", "G")
        if P == X and not norm:
            return m, np.zeros((n, n)), True
        try:
            s0 = m if X == "S" else NP.convert(X, "S", m, z)
        except np.linalg.LinAlgError:
            return None
        if not np.all(np.isfinite(s0)):
            return None
        if not norm:
            if P == "ZIN":
                r = _sens(lambda x: NP.zin(X, x, z), m)
            else:
                r = _sens(lambda x: NP.convert(X, P, x, z), m)
            if r is None:
                return None
            ref, delta, kap = r
            try:
                dw = _wave_sens(P, s0, z)
            except np.linalg.LinAlgError:
                return None
            if dw is None:
                return None
            tol = EPS * TOL_MARGIN * (np.abs(ref) + delta) + \
                EPS * NORM_K * rho * (np.max(np.abs(ref)) + dw)
            return ref, tol, False
        # Touchstone 1: Z/Y/H/G divided / multiplied by R entry by entry
        Rr = float(z[0].real)
        if X == P:
            ref = TS.ts_normalise(P, m, Rr)
            return ref, EPS * ROUNDING_K * np.abs(ref), False
        r = _sens(lambda x: NP.convert(X, P, x, z), m)
        if r is None:
            return None
        ref, delta, kap = r
        try:
            dw = _wave_sens(P, s0, z)
        except np.linalg.LinAlgError:
            return None
        if dw is None:
            return None
        tol = EPS * TOL_MARGIN * (np.abs(ref) + delta) + \
            EPS * NORM_K * rho * (np.max(np.abs(ref)) + dw)
        return TS.ts_normalise(P, ref, Rr), \
            np.abs(TS.ts_normalise(P, tol, Rr)), False


def block_reference(c, sp, fi, ts1norm):
    """(values, tol, direct) of the parameter a spec derives from"""
    return truth(c, sp.source(), fi, ts1norm)


def expected_fields(sp, n, vals, tol, f):
    """list of (value, numeric tolerance, is_angle) per printed field, or None
    when a requested form is undefined / ill conditioned at these values"""
    out = []
    form = sp.form
    with np.errstate(all="ignore"):
        if form in ("RI", "MA", "DB"):
            vv = np.asarray(vals).reshape(-1)
            tt = np.asarray(tol).reshape(-1)
            for v, t in zip(vv, tt):
                v = complex(v)
                a = abs(v)
                if form == "RI":
                    out.append((v.real, t, False))
                    out.append((v.imag, t, False))
                    continue
                if a == 0:
                    if form == "DB":
                        return None
                    out.append((0.0, t, False))
                    out.append((None, 0.0, True))
                    continue
                rel = t / a
                if rel > 0.05 or a < 1e-290 or a > 1e290:
                    return None
                ang = math.degrees(math.atan2(v.imag, v.real))
                if form == "MA":
                    out.append((a, t + 4 * EPS * a, False))
                else:
                    db = 20.0 * math.log10(a)
                    out.append((db, 8.7 * rel * 1.1 + 64 * EPS *
                                max(1.0, abs(db)), False))
                out.append((ang, math.degrees(rel) * 1.1 + 1e-12, True))
            return out
        if form in ("IL", "RL"):
            mm = np.asarray(vals)
            tt = np.asarray(tol)
            cells = [(r, k) for r in range(n) for k in range(n) if r != k] \
                if form == "IL" else [(p, p) for p in range(n)]
            for r, k in cells:
                a = abs(mm[r, k])
                if a == 0 or a < 1e-290 or a > 1e290 or tt[r, k] / a > 0.05:
                    return None
                db = -20.0 * math.log10(a)
                out.append((db, 8.7 * 1.1 * tt[r, k] / a + 64 * EPS *
                            max(1.0, abs(db)), False))
            return out
        if form == "VSWR":
            mm = np.asarray(vals)
            tt = np.asarray(tol)
            for p in range(n):
                a = abs(mm[p, p])
                if a >= 0.95:
                    return None
                x = (1 + a) / (1 - a)
                out.append((x, 2.2 * tt[p, p] / (1 - a) ** 2 + 16 * EPS * x,
                            False))
            return out
        # PRC PRL SRC SRL
        if not f > 0:
            return None
        zz = np.asarray(vals).reshape(-1)
        tt = np.asarray(tol).reshape(-1)
        for z, t in zip(zz, tt):
            z = complex(z)
            a = abs(z)
            if a == 0 or not math.isfinite(a) or t / a > 0.01:
                return None
            if form in ("PRC", "PRL") and (abs(z.real) < 1e-3 * a or
                                           abs(z.imag) < 1e-3 * a):
                return None
            if form == "SRC" and abs(z.imag) < 1e-3 * a:
                return None
            base = TS.derive_fields(sp, 1, None, [z], f)
            d = [0.0, 0.0]
            if t > 0:
                for u in (1, 1j, -1, -1j):
                    alt = TS.derive_fields(sp, 1, None, [z + 1.5 * t * u], f)
                    d = [max(d[i], abs(alt[i] - base[i])) for i in (0, 1)]
            for i in (0, 1):
                if not math.isfinite(base[i]):
                    return None
                out.append((base[i], d[i] * 1.5 + 64 * EPS * abs(base[i]),
                            False))
        return out


def all_defined(c, kind):
    """generator-side exclusion: every requested form defined and every
    reference conversion well conditioned"""
    ts1norm = kind == "ts1" and c.z0 is not None and c.z0[0] != 1.0
    for sp in c.specs:
        if sp.param in TWO_PORT and c.n != 2:
            return False
        for fi in range(c.F):
            r = block_reference(c, sp, fi, ts1norm)
            if r is None:
                return False
            if expected_fields(sp, c.n, r[0], r[1], c.freqs[fi]) is None:
                return False
    return True


# ----------------------------------------------------------------------
# script
# ----------------------------------------------------------------------
def build_script(c):
    s = R.Script()
    L = {}
    rows = 1 if c.xtype == "ZIN" else c.n
    s.op("vd=vnadata_alloc_and_init", c.xtype, rows, c.n, c.F)
    s.rvec("f", c.freqs)
    s.op("vnadata_set_frequency_vector", "$vd", "@f")
    for fi in range(c.F):
        s.cvec("m%d" % fi, list(c.data[fi].reshape(-1)))
        s.op("vnadata_set_matrix", "$vd", fi, "@m%d" % fi)
    if c.fz0 is not None:
        for fi in range(c.F):
            s.cvec("z%d" % fi, c.fz0[fi])
            s.op("vnadata_set_fz0_vector", "$vd", fi, "@z%d" % fi)
    elif all(z == c.z0[0] for z in c.z0) and c.idx % 2 == 0:
        s.op("vnadata_set_all_z0", "$vd", R.cx(c.z0[0]))
    else:
        s.cvec("z", c.z0)
        s.op("vnadata_set_z0_vector", "$vd", "@z")
    if c.ft is not None:
        L["set_filetype"] = s.op("vnadata_set_filetype", "$vd", c.ft)
    if c.format_text is not None:
        L["set_format"] = s.op("vnadata_set_format", "$vd", R.qs(c.format_text))
    if c.fp is not None:
        L["set_fp"] = s.op("vnadata_set_fprecision", "$vd", c.fp)
    if c.dp is not None:
        L["set_dp"] = s.op("vnadata_set_dprecision", "$vd", c.dp)
    base = "k%d" % c.idx
    if getattr(c, "presave", None):
        # the same object was saved before, in other file types: what an
        # earlier save resolved (file type by extension, untyped format
        # entries) must not leak into what this one writes.  The file type
        # setting is put back to what the case asks for.
        for k, ext in enumerate(c.presave):
            s.op("vnadata_save", "$vd", R.qs("%sp%d%s" % (base, k, ext)))
            s.op("unlink", R.qs("%sp%d%s" % (base, k, ext)))
        s.op("vnadata_set_filetype", "$vd", c.ft if c.ft is not None else 0)
    names = [base + "a" + c.ext, base + "b" + c.ext, base + "c" + c.ext]
    c.names = names
    c.fsave_path = names[2]
    if c.fsave_alias:
        c.fsave_path = base + "c.out"
    for which in c.order:
        if which == 0:
            L["cksave"] = s.op("vnadata_cksave", "$vd", R.qs(names[0]))
        elif which == 1:
            L["save"] = s.op("vnadata_save", "$vd", R.qs(names[1]))
        else:
            if c.fsave_alias:
                L["fsave"] = s.op("vnadata_fsave", "$vd", R.qs(c.fsave_path),
                                  R.qs(names[2]))
            else:
                L["fsave"] = s.op("vnadata_fsave", "$vd", R.qs(names[2]))
    L["read_save"] = s.op("read_file", R.qs(names[1]))
    L["read_fsave"] = s.op("read_file", R.qs(c.fsave_path))
    s.op("v2=vnadata_alloc")
    lft = None
    if expected_kinds(c.ext, None, c.n, c.z0, c.fz0) == {"npd"} and \
            expected_kinds(c.ext, c.ft, c.n, c.z0, c.fz0) != {"npd"}:
        lft = c.ft      # the name says nothing: the loader needs the type
    if lft is not None:
        s.op("vnadata_set_filetype", "$v2", lft)
    if c.use_fload:
        L["load"] = s.op("vnadata_fload", "$v2", R.qs(c.fsave_path),
                         R.qs(names[2]))
        c.load_src = "fsave"
    else:
        L["load"] = s.op("vnadata_load", "$v2", R.qs(names[1]))
        c.load_src = "save"
    L["dump"] = s.op("dump_vnadata", "$v2")
    for nm in set(names + [c.fsave_path]):
        s.op("unlink", R.qs(nm))
    c.lines = L
    return s.text()


# ----------------------------------------------------------------------
# judging
# ----------------------------------------------------------------------
def half_ulp(x, p):
    if x == 0 or p == MAXP:
        return 0.0
    e = math.floor(math.log10(abs(x)))
    return 0.5 * 10.0 ** (e - p + 1)


def cmp_num(num, x, delta, p):
    """None if the token agrees with x printed to p significant digits
    (maximum precision: with x itself, whatever the spelling)"""
    tol = half_ulp(x, p) * (1 + 1e-9) + delta + \
        (0.0 if p == MAXP else 4 * EPS * abs(x))
    if not abs(num.v - x) <= tol:
        return "printed %s, value %r (allowed error %.3g, precision %s)" % (
            num.text, x, tol, p)
    return None


def cmp_angle(num, x, delta, dp, is_zin):
    if x is None:
        return None
    if dp == MAXP:
        tol = delta + 1e-12
    else:
        if num.dec is None:
            return "angle %s is not printed in fixed notation" % num.text
        want = max(dp, 3) - (3 if is_zin else 1)
        if num.dec < want:
            return "angle %s has %d decimals, expected %d for precision %d" % (
                num.text, num.dec, want, dp)
        tol = 0.5 * 10.0 ** (-num.dec) * (1 + 1e-9) + delta + 1e-12
    d = abs(num.v - x) % 360.0
    d = min(d, 360.0 - d)
    if not d <= tol:
        return "printed angle %s, value %r (allowed error %.3g)" % (
            num.text, x, tol)
    return None


def spec_label(sp):
    if sp.form in ("RI", "MA", "DB"):
        return (sp.param.capitalize() if sp.param == "ZIN" else sp.param) + \
            sp.form.lower()
    return sp.form


def describe(c):
    return ("type=%s ports=%d F=%d z0=%s scale=%.3g ext=%r filetype=%s "
            "format=%r fprecision=%s dprecision=%s" % (
                c.xtype, c.n, c.F, c.zkind, c.scale, c.ext,
                FT_NAMES.get(c.ft, "unset"), c.format_text, c.fp, c.dp))


def judge_case(c, res, text, part):
    cnt = part["counters"]

    def bump(k, v=1):
        cnt[k] = cnt.get(k, 0) + v

    def viol(what, shape, desc):
        part["violations"].append(dict(
            key="%s:%s:%s" % (PROP, what, shape),
            desc="%s\n%s" % (desc, describe(c)), script=text))

    def mx(k, v):
        if v == v:
            part["maxima"][k] = max(part["maxima"].get(k, 0.0), v)

    L = c.lines
    for k in ("set_filetype", "set_format", "set_fp", "set_dp"):
        if k in L:
            e = res.ev(L[k])
            if e is None or e.get("ret") != 0:
                if e is not None and k == "set_format":
                    viol("set-format-rejects", "+".join(sorted(set(
                        spec_label(sp) for sp in c.specs))),
                        "vnadata_set_format(%r) returned %s %s" % (
                            c.format_text, e.get("ret"), e.get("cb")))
                else:
                    part["inconclusive"].append(dict(key="setup:" + k))
                return
    ek = res.ev(L["cksave"])
    es = res.ev(L["save"])
    ef = res.ev(L["fsave"])
    if ek is None or es is None or ef is None or "ret" not in ek or \
            "ret" not in es or "ret" not in ef:
        return
    part["evaluations"] += 1
    fp = c.fp if c.fp is not None else 7
    dp = c.dp if c.dp is not None else 6
    rets = (ek["ret"], es["ret"], ef["ret"])
    bump("triples")
    # (1) cksave <=> save <=> fsave
    if len(set(rets)) != 1 or rets[0] not in (0, -1):
        viol("cksave-save-disagree", c.kind_wanted,
             "vnadata_cksave=%s vnadata_save=%s vnadata_fsave=%s (call order "
             "%s)\ncksave cb=%s\nsave cb=%s\nfsave cb=%s" % (
                 rets[0], rets[1], rets[2], c.order, ek.get("cb"),
                 es.get("cb"), ef.get("cb")))
        return
    if rets[0] != 0:
        bump("refused_by_all_three")
        if not c.misuse:
            bump("refused_unexpectedly")
            part.setdefault("refused", []).append(
                "%s: %s" % (describe(c), ek.get("cb")))
        part["distinct"].add(("refused", c.xtype, c.n, c.zkind, c.ext, c.ft,
                              (c.format_text or "").lower()))
        return
    bump("accepted")
    bump("cov:ports:%d" % c.n)
    bump("cov:type:" + c.xtype)
    bump("cov:z0:" + c.zkind)
    bump("cov:name:%s/filetype:%s" % (c.ext or "(none)",
                                      FT_NAMES.get(c.ft, "unset")))
    bump("cov:fprecision:%s" % c.fp)
    bump("cov:dprecision:%s" % c.dp)
    bump("cov:magnitude:" + ("1" if c.scale == 1.0 else
                             "1e%+03d" % (3 * round(math.log10(c.scale) / 3))))
    allowed = expected_kinds(c.ext, c.ft, c.n, c.z0, c.fz0)
    blobs = []
    for nm, key in (("save", "read_save"), ("fsave", "read_fsave")):
        e = res.ev(L[key])
        if e is None or e.get("ret") is None:
            viol("no-file", nm, "vnadata_%s returned 0 but the file is "
                 "missing" % nm)
            return
        blobs.append((nm, e["ret"].encode("latin-1")))
    if blobs[0][1] != blobs[1][1]:
        bump("save_fsave_bytes_differ")
    files = {}
    seen = {}
    for nm, data in blobs:
        if data in seen:
            files[nm] = seen[data]
            continue
        fd = judge_file(c, nm, data, allowed, fp, dp, viol, bump, mx, part)
        seen[data] = fd
        files[nm] = fd
    fd = files.get(c.load_src)
    if fd is None:
        return
    judge_load(c, res, fd, fp, dp, viol, bump, mx, part)
    part["distinct"].add((c.xtype, c.n, c.zkind, fd.kind, c.ext, c.ft,
                          (c.format_text or "").lower(), fp, dp,
                          c.scale != 1.0))
    if len(part["samples"]) < 2:
        part["samples"].append(dict(
            case=describe(c), file_kind=fd.kind,
            file_head=blobs[0][1].decode("latin-1").split("\n")[:3],
            data_line=blobs[0][1].decode("latin-1").rstrip("\n")
            .split("\n")[-2 if fd.kind == "ts2" else -1][:200]))


def judge_file(c, nm, data, allowed, fp, dp, viol, bump, mx, part):
    """(2): the bytes, read independently, denote the object"""
    sn = TS.sniff(data)
    try:
        fd = TS.read_npd(data) if sn == "npd" else TS.read_touchstone(data)
    except (TS.FormatError, ValueError, IndexError) as ex:
        viol("file-unreadable", sn, "the file written by vnadata_%s is not "
             "well formed: %s\n%s" % (nm, ex, data[:600].decode("latin-1")))
        return None
    bump("files_read:" + fd.kind)
    shape = fd.kind
    if fd.kind not in allowed:
        viol("wrong-filetype", "%s-for-%s" % (fd.kind, "+".join(sorted(allowed))),
             "file is %s, the manual maps name/filetype to %s" % (
                 fd.kind, sorted(allowed)))
        return None
    for slug, note in fd.notes:
        viol("file-nonstandard", fd.kind + ":" + slug,
             "file deviates from the format: %s\n%s" % (
                 note, data[:400].decode("latin-1")))
    if fd.ports != c.n:
        viol("file-ports", shape, "file says %d ports, object has %d" % (
            fd.ports, c.n))
        return None
    if len(fd.freqs) != c.F:
        viol("file-frequencies", shape, "file has %d frequencies, object %d" %
             (len(fd.freqs), c.F))
        return None
    # frequencies
    for fi in range(c.F):
        msg = cmp_num(fd.freq_nums[fi], c.freqs[fi] / (
            TS.UNIT_MULT[fd.unit] if fd.kind != "npd" else 1.0), 0.0, fp)
        if msg:
            viol("file-frequency", shape, "frequency %d: %s" % (fi, msg))
            break
    # reference impedances
    ok = judge_file_z0(c, fd, dp, viol)
    if not ok:
        return fd
    # parameter blocks
    if fd.kind == "npd":
        if fd.fprecision != fp or fd.dprecision != dp:
            viol("file-precision-header", "npd", "#:fprecision %s #:dprecision "
                 "%s, object has %s %s" % (fd.fprecision, fd.dprecision, fp, dp))
        got = [(sp.param, sp.form) for sp in fd.specs]
        want = [(sp.param, sp.form) for sp in c.specs]
        if got != want:
            viol("file-parameters", "npd", "#:parameters %s, requested %s" % (
                fd.param_text, c.format_text))
            return fd
        for bi, blk in enumerate(fd.blocks):
            sp = c.specs[bi]
            judge_block(c, fd, sp, blk["nums"], False, dp, viol, bump, mx)
    else:
        sp = c.specs[0]
        if len(c.specs) != 1 or (fd.ptype, fd.coord) != (sp.param, sp.form):
            viol("file-parameters", shape, "option line says %s %s, requested "
                 "%s" % (fd.ptype, fd.coord, c.format_text))
            return fd
        if fd.version == 2 and fd.matrix_format != "FULL":
            bump("ts2_non_full_written")
        nums = []
        for fi in range(c.F):
            row = []
            for r in range(c.n):
                for k in range(c.n):
                    row += list(fd.raw[fi][r][k])
            nums.append(row)
        judge_block(c, fd, sp, nums, fd.kind == "ts1", dp, viol, bump, mx)
    return fd


def judge_file_z0(c, fd, dp, viol):
    if c.fz0 is not None:
        if fd.kind != "npd" or fd.fz0 is None:
            viol("file-z0", fd.kind, "object has per-frequency z0, file does "
                 "not")
            return False
        for fi in range(c.F):
            for p in range(c.n):
                a, b = fd.fz0_nums[fi][p]
                z = complex(c.fz0[fi][p])
                msg = cmp_num(a, z.real, 0.0, dp) or cmp_num(b, z.imag, 0.0, dp)
                if msg:
                    viol("file-z0", "npd:per-frequency",
                         "z0 at frequency %d port %d: %s" % (fi, p + 1, msg))
                    return False
        return True
    if fd.kind == "npd":
        if fd.z0 is None or fd.z0_nums is None:
            viol("file-z0", "npd", "file has %s, object has ordinary z0" % (
                "per-frequency z0" if fd.z0 is None else "no #:z0"))
            return False
        for p in range(c.n):
            a, b = fd.z0_nums[p]
            z = complex(c.z0[p])
            msg = cmp_num(a, z.real, 0.0, dp) or cmp_num(b, z.imag, 0.0, dp)
            if msg:
                viol("file-z0", "npd", "z0 of port %d: %s" % (p + 1, msg))
                return False
        return True
    # Touchstone: real references only
    for p in range(c.n):
        z = complex(c.z0[p])
        if z.imag != 0:
            viol("file-z0", fd.kind + ":complex", "object z0 %s is complex but "
                 "a Touchstone file was written" % z)
            return False
        num = fd.z0_nums[p] if fd.z0_nums is not None else fd.R_num
        if num is None:
            if z.real != 50.0:
                viol("file-z0", fd.kind, "no R in the option line, z0 is %s" %
                     z)
                return False
            continue
        msg = cmp_num(num, z.real, 0.0, dp)
        if msg:
            viol("file-z0", fd.kind, "reference of port %d: %s" % (p + 1, msg))
            return False
    if fd.kind == "ts2" and fd.z0_nums is not None and fd.R_num is not None:
        pass
    return True


def judge_block(c, fd, sp, nums, ts1, dp, viol, bump, mx):
    label = spec_label(sp)
    shape = "%s:%s" % (fd.kind, label)
    ts1norm = ts1 and c.z0[0] != 1.0
    is_zin = sp.param == "ZIN"
    for fi in range(c.F):
        ref = block_reference(c, sp, fi, ts1norm)
        if ref is None:
            bump("excluded_ill_conditioned_block")
            return
        vals, tol, direct = ref
        exp = expected_fields(sp, c.n, vals, tol, c.freqs[fi])
        if exp is None:
            bump("excluded_undefined_form_block")
            return
        row = nums[fi]
        if len(row) != len(exp):
            viol("file-field-count", shape, "%d fields for %s, expected %d" % (
                len(row), label, len(exp)))
            return
        for k, (num, (x, delta, is_angle)) in enumerate(zip(row, exp)):
            if is_angle:
                msg = cmp_angle(num, x, delta, dp, is_zin)
            else:
                msg = cmp_num(num, x, delta, dp)
                if dp == MAXP and direct and sp.form == "RI" and \
                        not (num.v == x):
                    msg = "hexadecimal %s is not the stored value %s" % (
                        num.text, float(x).hex())
                if not direct and x is not None and dp == MAXP and \
                        sp.form == "RI":
                    t = np.asarray(tol).reshape(-1)[k // 2]
                    if t > 0:
                        mx("max_converted_error_over_allowance",
                           abs(num.v - x) / t)
            if msg:
                viol("file-value", ("%s:%s:normalised" % (fd.kind, sp.param))
                     if ts1norm and sp.param != "S" else shape,
                     "frequency %d field %d of %s (%s%s): %s" % (
                         fi, k, label, "stored value" if direct else
                         "reference conversion from %s" % c.xtype,
                         ", Touchstone 1 normalisation to R" if ts1norm and
                         sp.param != "S" else "", msg))
                return
        bump("blocks_judged")
        bump("form:" + label)


def judge_load(c, res, fd, fp, dp, viol, bump, mx, part):
    """(3): vnadata_load of the file reproduces what the file denotes"""
    L = c.lines
    el = res.ev(L["load"])
    ed = res.ev(L["dump"])
    if el is None or "ret" not in el:
        return
    fn = "vnadata_fload" if c.use_fload else "vnadata_load"
    loadable = [sp for sp in (c.specs if fd.kind == "npd" else c.specs[:1])
                if sp.is_complex()]
    if fd.kind == "npd" and not loadable:
        bump("load_not_judged_no_complex_parameter")
        return
    bump("loads")
    if el["ret"] != 0:
        msg = ""
        if el.get("cb"):
            msg = el["cb"][0][1]
            msg = msg.split(") error: ")[-1] if ") error: " in msg else msg
        viol("load-fails", "%s:%s" % (fd.kind, R._norm_msg(msg)[:48]),
             "%s of the file just saved returned %s: %s\nformat %s" % (
                 fn, el["ret"], el.get("cb"),
                 "+".join(spec_label(sp) for sp in c.specs)))
        return
    if ed is None or "out" not in ed:
        return
    d = ed["out"]
    shape = fd.kind
    ltype = CODE_TYPE.get(d["type"], "?")
    if fd.kind == "npd":
        cands = [(bi, sp) for bi, sp in enumerate(c.specs) if sp.is_complex()
                 and sp.source() == ltype]
        if not cands:
            viol("load-type", shape, "loaded type %s is none of the listed "
                 "parameters %s" % (ltype, fd.param_text))
            return
    else:
        if ltype != fd.ptype:
            viol("load-type", shape, "loaded type %s, file holds %s" % (
                ltype, fd.ptype))
            return
    rows = 1 if ltype == "ZIN" else c.n
    if (d["rows"], d["cols"], d["F"]) != (rows, c.n, c.F):
        viol("load-dimensions", shape, "loaded %dx%d F=%d, expected %dx%d F=%d"
             % (d["rows"], d["cols"], d["F"], rows, c.n, c.F))
        return
    if [float(x) for x in d["freq"]] != [float(x) for x in fd.freqs]:
        viol("load-frequencies", shape, "loaded %s, file holds %s" % (
            d["freq"], fd.freqs))
        return
    if fp == MAXP and [float(x) for x in d["freq"]] != list(c.freqs):
        viol("load-frequencies-exact", shape, "maximum precision: loaded %s, "
             "object had %s" % (d["freq"], c.freqs))
        return
    # impedances
    if fd.kind == "npd" and fd.fz0 is not None:
        if not d["has_fz0"]:
            viol("load-z0", shape + ":per-frequency", "file has per-frequency "
                 "z0, loaded object has not")
            return
        got = [[complex(*z) for z in row] for row in d["fz0"]]
        if got != [[complex(z) for z in row] for row in fd.fz0]:
            viol("load-z0", shape + ":per-frequency", "loaded %s, file holds "
                 "%s" % (got, fd.fz0))
            return
        if dp == MAXP and got != [[complex(z) for z in row] for row in c.fz0]:
            viol("load-z0-exact", shape + ":per-frequency", "maximum "
                 "precision: loaded %s, object had %s" % (got, c.fz0))
            return
    else:
        if d["has_fz0"]:
            viol("load-z0", shape, "loaded object has per-frequency z0")
            return
        got = [complex(*z) for z in d["z0"]]
        if got != [complex(z) for z in fd.z0]:
            viol("load-z0", shape, "loaded %s, file holds %s" % (got, fd.z0))
            return
        if dp == MAXP and got != [complex(z) for z in c.z0]:
            viol("load-z0-exact", shape, "maximum precision: loaded %s, object "
                 "had %s" % (got, c.z0))
            return
    # data
    loaded = [np.array([complex(*z) for z in row], dtype=complex).reshape(
        rows, c.n) for row in d["data"]]
    if fd.kind == "npd":
        best = None
        for bi, sp in cands:
            worst = 0.0
            for fi in range(c.F):
                worst = max(worst, data_margin(
                    loaded[fi], fd.blocks[bi]["values"][fi], sp.form, False))
            if best is None or worst < best[0]:
                best = (worst, bi, sp)
        worst, bi, sp = best
        form = sp.form
        label = spec_label(sp)
        normalised = False
    else:
        sp = c.specs[0]
        form = fd.coord
        label = spec_label(sp)
        normalised = fd.normalised
        worst = 0.0
        for fi in range(c.F):
            worst = max(worst, data_margin(loaded[fi], fd.values[fi], form,
                                           normalised))
    mx("max_load_margin:" + ("exact" if form == "RI" and not normalised
                             else form), worst)
    if not worst <= 1.0:
        viol("load-value", "%s:%s" % (shape, label) +
             (":normalised" if normalised else ""),
             "loaded data differ from what the file denotes (margin %.3g of "
             "the allowance for %s)\nloaded %s\nfile   %s" % (
                 worst, form, loaded[0].reshape(-1)[:6],
                 (fd.blocks[bi]["values"][0] if fd.kind == "npd" else
                  fd.values[0]).reshape(-1)[:6]))
        return
    bump("loads_judged")
    bump("load_form:" + label)
    # end to end exactness
    if dp == MAXP and form == "RI" and ltype == c.xtype and not normalised:
        same = all(np.array_equal(loaded[fi].reshape(-1),
                                  c.data[fi].reshape(-1)) for fi in range(c.F))
        bump("exact_round_trips")
        if not same:
            viol("load-not-exact", "%s:%s" % (shape, label),
                 "maximum precision, rectangular form of the object's own "
                 "type: loaded data are not bit-identical\nloaded %s\nobject %s"
                 % (loaded[0].reshape(-1)[:6], c.data[0].reshape(-1)[:6]))


def data_margin(got, want, form, normalised):
    """max |got-want| over the allowance for decoding `form` (1 = limit);
    rectangular un-normalised values must be identical"""
    got = np.asarray(got, dtype=complex).reshape(-1)
    want = np.asarray(want, dtype=complex).reshape(-1)
    worst = 0.0
    for g, w in zip(got, want):
        if form == "RI" and not normalised:
            if not (g == w):
                return float("inf")
            continue
        a = abs(w)
        if a == 0:
            if g != 0:
                return float("inf")
            continue
        # decoding costs a few eps (worst seen on the repaired tree: RI*R 1,
        # MA 1, DB 10, PRx/SRx 2 eps); three decades of head-room
        k = {"RI": 1.0e3, "MA": 1.0e3, "DB": 1.0e4}.get(form, 2.0e3)
        if form == "DB":
            k += 1.0e3 * abs(math.log(a))
        if not (math.isfinite(g.real) and math.isfinite(g.imag)):
            return float("inf")
        worst = max(worst, abs(g - w) / (k * EPS * a))
    return worst


# ----------------------------------------------------------------------
def run_chunk(chunk_id, payload):
    seed, tier, ncases, binary, workroot = payload
    rng = np.random.default_rng([seed, chunk_id, 606])
    part = dict(evaluations=0, counters={}, maxima={}, distinct=set(),
                samples=[], violations=[], inconclusive=[], harness_errors=[])
    cases = []
    objs = {}
    for i in range(ncases):
        c = gen_case(rng, chunk_id * 100000 + i)
        text = build_script(c)
        cid = "c%d" % c.idx
        cases.append((cid, text))
        objs[cid] = c
    wd = os.path.join(workroot, "w%d" % chunk_id)
    results = R.run_cases(binary, cases, wd, timeout=1800)
    for cid, text in cases:
        res = results[cid]
        v, inc = R.standard_violations(res, text, PROP)
        part["violations"] += v
        part["inconclusive"] += inc
        try:
            judge_case(objs[cid], res, text, part)
        except Exception:
            import traceback
            part["harness_errors"].append("judge %s: %s" % (
                cid, traceback.format_exc()[-1200:]))
    refused = part.pop("refused", [])
    if os.environ.get("C06_DEBUG"):
        for r_ in refused:
            print("REFUSED", r_)
    if refused and len(part["samples"]) < 3:
        part["samples"].append(dict(refused_example=refused[0][:400]))
    return part


def main():
    chk = R.Check(PROP)
    binary = chk.build("asan")
    total = 6000 if chk.tier == "quick" else 60000
    total = max(16, int(total * chk.args.scale))
    nchunks = 16 if chk.tier == "quick" else 96
    per = (total + nchunks - 1) // nchunks
    payloads = [(chk.seed, chk.tier, per, binary, chk.workroot)
                for _ in range(nchunks)]
    for part in R.pmap(run_chunk, payloads):
        chk.merge(part)
    forms = {k[5:]: v for k, v in chk.counters.items() if k.startswith("form:")}
    lforms = {k[10:]: v for k, v in chk.counters.items()
              if k.startswith("load_form:")}
    cov = {}
    for k in list(chk.counters):
        if k.startswith("form:") or k.startswith("load_form:"):
            del chk.counters[k]
        elif k.startswith("cov:"):
            _, dim, val = k.split(":", 2)
            cov.setdefault(dim, {})[val] = chk.counters.pop(k)
    chk.finish(
        rule="one evaluation = one object (all parameter types, 1..6 ports, "
             "1..4 frequencies, z0 equal/unequal/complex/per-frequency, value "
             "scale 1 or 1e-12..1e12) configured by extension and/or "
             "vnadata_set_filetype, vnadata_set_format (single ri/ma/dB with "
             "or without letter; NPD lists incl. IL RL VSWR PRC PRL SRC SRL "
             "Zin), fprecision/dprecision unset, 1..17 or 1000; "
             "cksave/save/fsave called in random order and compared; the "
             "bytes of both files parsed by pylib/tsnpd.py and every printed "
             "field compared with the netparams reference to the printed "
             "precision (exact for hexadecimal stored values); the file "
             "loaded (load or fload) into a fresh object and compared with "
             "what the file denotes (identical for rectangular form). "
             "8% of cases are combinations the saver must refuse. Forms "
             "undefined at the drawn values and ill-conditioned reference "
             "conversions (kappa>1e4) are re-drawn by the generator. "
             "distinct = distinct (type, ports, z0 kind, file kind, "
             "extension, filetype, format list, precisions) tuples judged.",
        min_events=total // 2,
        assumptions=[
            "numpy.linalg is the trusted numerical base of the reference "
            "conversions",
            "Touchstone 1.1/2.0 semantics as published by the IBIS Open Forum; "
            "NPD semantics from vnadata(3) and the self-describing header",
            "angles are printed with a fixed number of decimals "
            "(max(dprecision,3)-1, Zin: -3) as in the distributed example "
            "file; the tolerance is half a unit of the last printed decimal",
            "a list holding only IL/RL/VSWR carries no complex data: loading "
            "it back is not judged"],
        extra=dict(file_forms_judged=forms, load_forms_judged=lforms,
                   accepted_cases_by=cov))


if __name__ == "__main__":
    main()
