#!/usr/bin/env python3-vt
"""C04: every vnaconv_* function yields the same physical network.

Monitor: the real functions (table generated from /repo/src/vnaconv.h) are
called by the driver under ASan/UBSan with generated inputs; an offline checker
judges every recorded output against the defining port relations of
vnaconv(3) (pylib/netparams.py), never against libvna itself.
"""
import os
import re
import sys

import numpy as np

sys.path.insert(0, os.path.join(os.path.dirname(os.path.abspath(__file__)),
                                "..", "pylib"))
import netparams as NP  # noqa: E402
import runner as R  # noqa: E402

PROP = "C04"
# margins are in units of eps * (|ref| + sensitivity); the worst value seen on
# the unchanged tree over 2e6 calls was < 2e3 (see evidence max_margin)
TOL_MARGIN = 2.0e6
TOL_RESID = 1.0e-9
KAPPA_MAX = 1.0e4


def parse_fn(name):
    m = re.match(r"vnaconv_([a-z])to([a-z])(i?)(n?)$", name)
    if not m:
        return None
    return m.group(1).upper(), m.group(2).upper(), bool(m.group(3)), bool(m.group(4))


def rand_z0(rng, n):
    kind = rng.integers(0, 6)
    if kind >= 4:
        # partly equal impedances: every port takes one of two values (so some
        # ports agree exactly and others do not); kind 5 keeps the real parts
        # from the pool and gives each port its own imaginary part
        pool = 10 ** rng.uniform(0, 3, 2)
        pick = rng.integers(0, 2, n)
        if n >= 2 and len(set(pick.tolist())) == 1:
            pick[int(rng.integers(0, n))] ^= 1
        re_ = pool[pick]
        if kind == 4:
            z = re_.astype(complex)
        else:
            z = re_ + 1j * re_ * rng.uniform(-1, 1, n)
        return z, int(kind)
    if kind == 0:
        z = np.full(n, 50.0, dtype=complex)
    elif kind == 1:
        z = np.full(n, 10 ** rng.uniform(-2, 4), dtype=complex)
    elif kind == 2:
        z = (10 ** rng.uniform(-1, 3, n)).astype(complex)
    else:
        re_ = 10 ** rng.uniform(0, 3, n)
        im = re_ * rng.uniform(-2, 2, n)
        z = re_ + 1j * im
    return z, int(kind)


def rand_input(rng, ftype, n, z0):
    """random matrix of type ftype describing a generic network: start from a
    random S (entries up to ~1.2) or from a random matrix scaled to the
    impedance level, so that the result is not systematically singular"""
    how = rng.integers(0, 3)
    if ftype in ("Y", "Z") and n >= 2 and rng.random() < 0.15:
        # lumped networks whose own matrix is singular although the network
        # is perfectly ordinary: a floating mesh of series elements (every
        # row of Y sums to zero) or a single shunt element seen from every
        # port (Z = z . ones).  Conversions that need the inverse are skipped
        # by the conditioning filter; S and the input impedances are defined.
        zl = float(np.sqrt(np.mean(np.abs(z0))))
        m = np.zeros((n, n), dtype=complex)
        if ftype == "Y":
            for i in range(n):
                for j in range(i + 1, n):
                    if n == 2 or rng.random() < 0.7:
                        y = (rng.uniform(0.2, 3) + 1j * rng.standard_normal()) \
                            / zl ** 2
                        m[i, i] += y
                        m[j, j] += y
                        m[i, j] -= y
                        m[j, i] -= y
        else:
            z = (rng.uniform(0.2, 3) + 1j * rng.standard_normal()) * zl ** 2
            m[:, :] = z
        return m
    if ftype in ("Z", "Y") and n >= 2 and rng.random() < 0.1:
        # lossless reactive networks: a purely imaginary, symmetric matrix,
        # some of whose diagonal entries are exactly zero (a series L-C at
        # resonance); perfectly regular as a whole
        zl = np.sqrt(np.abs(z0))
        x = rng.standard_normal((n, n))
        x = (x + x.T) / 2
        for i in range(n):
            if rng.random() < 0.5:
                x[i, i] = 0.0
        m = 1j * x
        return (m * np.outer(zl, zl) if ftype == "Z"
                else m / np.outer(zl, zl)).astype(complex)
    if ftype in ("S", "Z", "Y") and n >= 2 and rng.random() < 0.06:
        # uncoupled ports: an exactly diagonal matrix (separate one-port
        # terminations on every port)
        zl = np.sqrt(np.abs(z0))
        d = (rng.standard_normal(n) + 1j * rng.standard_normal(n)) * 0.6
        if ftype == "Z":
            d = d * zl * zl
        elif ftype == "Y":
            d = d / (zl * zl)
        return np.diag(d).astype(complex)
    if how < 2:
        s = (rng.standard_normal((n, n)) + 1j * rng.standard_normal((n, n))) \
            * rng.uniform(0.1, 0.8)
        if ftype == "S" and n >= 2 and rng.random() < 0.1:
            # one-way devices (ideal isolator, unilateral amplifier): one
            # transmission term is exactly zero
            i, j = [int(x) for x in rng.choice(n, 2, replace=False)]
            s[i, j] = 0.0
        if ftype == "S":
            return s
        try:
            return NP.convert("S", ftype, s, z0)
        except np.linalg.LinAlgError:
            return None
    m = (rng.standard_normal((n, n)) + 1j * rng.standard_normal((n, n)))
    zl = np.sqrt(np.abs(z0))
    if ftype == "Z":
        m = m * np.outer(zl, zl)
    elif ftype == "Y":
        m = m / np.outer(zl, zl)
    elif ftype in ("H",):
        m = m * np.array([[zl[0] * zl[0], 1], [1, 1 / (zl[1] * zl[1])]])
    elif ftype in ("G",):
        m = m * np.array([[1 / (zl[0] * zl[0]), 1], [1, zl[1] * zl[1]]])
    elif ftype in ("A", "B"):
        m = m * np.array([[1, zl[0] * zl[1]], [1 / (zl[0] * zl[1]), 1]])
    return m


def reference(fname, info, m, z0):
    ft, tt, is_zi, is_n = info
    if is_zi:
        return NP.zin(ft, m, z0)
    return NP.convert(ft, tt, m, z0)


def gen_chunk(chunk_id, payload):
    seed, tier, funcs, per_fn, binary, workroot = payload
    rng = np.random.default_rng([seed, chunk_id, 404])
    part = dict(evaluations=0, counters={}, maxima={}, distinct=set(),
                samples=[], violations=[], inconclusive=[], harness_errors=[])
    cnt = part["counters"]

    def bump(k, n=1):
        cnt[k] = cnt.get(k, 0) + n

    cases = []
    metas = {}
    for fname, kind in funcs:
        info = parse_fn(fname)
        if info is None:
            continue
        ft, tt, is_zi, is_n = info
        s = R.Script()
        meta = []
        tries = 0
        while len(meta) < per_fn and tries < per_fn * 20:
            tries += 1
            n = int(rng.integers(1, 7)) if is_n else 2
            if is_n and rng.random() < 0.25:
                n = 2
            z0, zk = rand_z0(rng, n)
            m = rand_input(rng, ft, n, z0)
            if m is None or not np.all(np.isfinite(m)):
                continue
            try:
                ref, delta = NP.sensitivity(
                    lambda x: reference(fname, info, x, z0), m, rng=rng)
            except np.linalg.LinAlgError:
                continue
            if not np.all(np.isfinite(ref)) or not np.all(np.isfinite(delta)):
                bump("skipped_nonfinite_reference")
                continue
            kappa = float(np.max(delta) / (np.max(np.abs(ref)) + 1e-300))
            if kappa > KAPPA_MAX:
                bump("skipped_ill_conditioned")
                continue
            for alias in (0, 1):
                toks = ["conv", fname, n, alias] + \
                    [R.cx(v) for v in m.reshape(-1)]
                if kind not in (0, 3):  # K22, KN take no z0
                    toks += [R.cx(v) for v in z0]
                ln = s.op(*toks)
                if alias == 0:
                    meta.append(dict(line=ln, n=n, m=m, z0=z0, zk=zk, ref=ref,
                                     delta=delta, kappa=kappa))
        cid = "%s.%d" % (fname, chunk_id)
        cases.append((cid, s.text()))
        metas[cid] = (fname, info, kind, meta)
    wd = os.path.join(workroot, "w%d" % chunk_id)
    results = R.run_cases(binary, cases, wd, timeout=600)
    back = []  # second phase: convert back
    for cid, text in cases:
        res = results[cid]
        fname, info, kind, meta = metas[cid]
        ft, tt, is_zi, is_n = info
        v, inc = R.standard_violations(res, text, PROP)
        part["violations"] += v
        part["inconclusive"] += inc
        for md in meta:
            e0 = res.ev(md["line"])
            e1 = res.ev(md["line"] + 1)
            if e0 is None or e1 is None or "ret" not in e0 or "ret" not in e1:
                continue
            part["evaluations"] += 1
            bump("calls", 2)
            bump("fn:" + fname)
            out = np.array([complex(a, b) for a, b in e0["ret"]])
            out1 = np.array([complex(a, b) for a, b in e1["ret"]])
            ref = md["ref"]
            shaped = out.reshape(ref.shape)
            part["distinct"].add((fname, md["n"], md["zk"],
                                  round(float(abs(md["m"].flat[0])), 9)))
            if len(part["samples"]) < 2:
                part["samples"].append(dict(
                    fn=fname, n=md["n"], z0=[str(z) for z in md["z0"]],
                    input=[str(x) for x in md["m"].reshape(-1)],
                    output=[str(x) for x in out]))
            mg = NP.margin(shaped, ref, md["delta"])
            part["maxima"]["max_margin"] = max(
                part["maxima"].get("max_margin", 0.0), mg if mg == mg else 0)
            line = text.split("\n")[md["line"] - 1]
            if not (mg <= TOL_MARGIN):
                part["violations"].append(dict(
                    key="%s:wrong-result:%s" % (PROP, fname),
                    desc="%s n=%d z0=%s: output differs from the network "
                         "defined by vnaconv(3): margin %.3g (x eps x scale)\n"
                         "got  %s\nwant %s" % (fname, md["n"], md["z0"], mg,
                                               shaped, ref),
                    script=line + "\n"))
            elif not is_zi:
                rr = NP.relation_residual(ft, md["m"], tt, shaped, md["z0"])
                part["maxima"]["max_relation_residual_over_kappa"] = max(
                    part["maxima"].get("max_relation_residual_over_kappa", 0),
                    rr / (1 + md["kappa"]))
                if rr > TOL_RESID * (1 + md["kappa"]):
                    part["violations"].append(dict(
                        key="%s:relation-residual:%s" % (PROP, fname),
                        desc="%s: output violates its defining relation on the "
                             "input's states: residual %.3g kappa %.3g" % (
                                 fname, rr, md["kappa"]),
                        script=line + "\n"))
            # in-place must equal out-of-place bit for bit
            same = all((a == b) or (a != a and b != b)
                       for a, b in zip(np.concatenate([out.real, out.imag]),
                                       np.concatenate([out1.real, out1.imag])))
            bump("alias_pairs")
            if not same:
                line1 = text.split("\n")[md["line"]]
                part["violations"].append(dict(
                    key="%s:alias-differs:%s" % (PROP, fname),
                    desc="%s: in-place result differs from out-of-place\n"
                         "separate %s\nin-place %s" % (fname, out, out1),
                    script=line + "\n" + line1 + "\n"))
            if not is_zi and mg <= TOL_MARGIN:
                back.append((fname, info, md, shaped))
    # phase 2: convert back with the library's own inverse function and
    # n-port vs two-port agreement
    names = {f for f, _ in funcs}
    allfn = payload_all_functions(binary)
    s = R.Script()
    meta2 = []
    for fname, info, md, out in back:
        ft, tt, is_zi, is_n = info
        inv = "vnaconv_%sto%s%s" % (tt.lower(), ft.lower(), "n" if is_n else "")
        if inv in allfn:
            kind = allfn[inv]
            toks = ["conv", inv, md["n"], 0] + [R.cx(v) for v in out.reshape(-1)]
            if kind not in (0, 3):
                toks += [R.cx(v) for v in md["z0"]]
            ln = s.op(*toks)
            meta2.append(("back", ln, fname, inv, md, out))
        if is_n and md["n"] == 2:
            two = fname[:-1]
            if two in allfn:
                kind = allfn[two]
                toks = ["conv", two, 2, 0] + [R.cx(v) for v in md["m"].reshape(-1)]
                if kind not in (0, 3):
                    toks += [R.cx(v) for v in md["z0"]]
                ln = s.op(*toks)
                meta2.append(("two", ln, fname, two, md, out))
    if meta2:
        cid = "phase2.%d" % chunk_id
        res = R.run_cases(binary, [(cid, s.text())], wd, timeout=600)[cid]
        v, inc = R.standard_violations(res, s.text(), PROP)
        part["violations"] += v
        part["inconclusive"] += inc
        lines = s.text().split("\n")
        for what, ln, fname, other, md, out in meta2:
            e = res.ev(ln)
            if e is None or "ret" not in e:
                continue
            got = np.array([complex(a, b) for a, b in e["ret"]]).reshape(
                md["n"], md["n"])
            if what == "back":
                bump("round_trips")
                # sensitivity of the inverse map at the forward output
                ft, tt, _, _ = parse_fn(fname)
                try:
                    ref, delta = NP.sensitivity(
                        lambda x: NP.convert(tt, ft, x, md["z0"]), out)
                except np.linalg.LinAlgError:
                    continue
                kap = float(np.max(delta) / (np.max(np.abs(ref)) + 1e-300))
                if kap > KAPPA_MAX or not np.all(np.isfinite(delta)):
                    bump("round_trip_skipped_ill_conditioned")
                    continue
                # forward rounding error propagated through the inverse
                mg = NP.margin(got, md["m"],
                               delta * (1 + md["kappa"]) + np.abs(md["m"]) *
                               md["kappa"])
                part["maxima"]["max_roundtrip_margin"] = max(
                    part["maxima"].get("max_roundtrip_margin", 0.0), mg)
                if not (mg <= TOL_MARGIN):
                    part["violations"].append(dict(
                        key="%s:round-trip:%s" % (PROP, fname),
                        desc="%s then %s does not return the input: margin "
                             "%.3g\nin  %s\nout %s" % (fname, other, mg,
                                                        md["m"], got),
                        script=lines[ln - 1] + "\n"))
            else:
                bump("nport_vs_2port")
                mg = NP.margin(got, out, md["delta"])
                part["maxima"]["max_n_vs_2_margin"] = max(
                    part["maxima"].get("max_n_vs_2_margin", 0.0), mg)
                if not (mg <= TOL_MARGIN):
                    part["violations"].append(dict(
                        key="%s:nport-vs-2port:%s" % (PROP, fname),
                        desc="%s at n=2 disagrees with %s: margin %.3g\n%s\n%s"
                             % (fname, other, mg, out, got),
                        script=lines[ln - 1] + "\n"))
    return part


_ALLFN = None


def payload_all_functions(binary):
    global _ALLFN
    if _ALLFN is None:
        _ALLFN = dict(list_functions(binary))
    return _ALLFN


def list_functions(binary):
    wd = os.path.join(R.scratch_root(), "C04-list-%d" % os.getpid())
    res = R.run_cases(binary, [("list", "conv_list\n")], wd)["list"]
    import shutil
    shutil.rmtree(wd, ignore_errors=True)
    if not res.events:
        return []
    return [(a, b) for a, b in res.events[0]["ret"]]


def main():
    chk = R.Check(PROP)
    binary = chk.build("asan")
    funcs = list_functions(binary)
    if len(funcs) < 10:
        print("HARNESS-ERROR: no vnaconv functions found")
        sys.exit(2)
    per_fn = 40 if chk.tier == "quick" else 600
    per_fn = max(1, int(per_fn * chk.args.scale))
    nchunks = 16
    payloads = [(chk.seed, chk.tier, funcs, per_fn, binary, chk.workroot)
                for _ in range(nchunks)]
    for part in R.pmap(gen_chunk, payloads):
        chk.merge(part)
    chk.counters["functions_in_header"] = len(funcs)
    chk.counters["functions_exercised"] = sum(
        1 for k in chk.counters if k.startswith("fn:"))
    # compact the per-function counters
    fnc = {k[3:]: v for k, v in chk.counters.items() if k.startswith("fn:")}
    for k in list(chk.counters):
        if k.startswith("fn:"):
            del chk.counters[k]
    missing = [f for f, _ in funcs if f not in fnc and parse_fn(f)]
    if missing:
        chk.harness_errors.append("functions never exercised: %s" % missing[:5])
    chk.finish(
        rule="for every function declared in vnaconv.h: random generic networks "
             "(random S mapped to the input type by the reference, or random "
             "matrices at the impedance level), z0 equal/scaled/unequal real/"
             "complex with Re>0, n=1..6 for n-port functions, kept when the "
             "reference's measured sensitivity kappa<=1e4; each input is run "
             "out-of-place and in-place; outputs judged against the state-basis "
             "oracle (value margin, defining-relation residual), converted back "
             "with the library's inverse function, and n-port functions at n=2 "
             "compared with the two-port ones. distinct = distinct (function, n, "
             "z0 kind, input) tuples judged.",
        min_events=len(funcs),
        assumptions=["numpy.linalg (LAPACK) is the trusted numerical base",
                     "port relations transcribed from vnaconv(3)"],
        extra=dict(calls_per_function=fnc))


if __name__ == "__main__":
    main()
