#!/usr/bin/env python3-vt
"""C05: vnadata_convert applies the right conversion with the right impedances.

Monitor: for every (from, to) pair of the 11 parameter types x shapes x
impedance configurations x frequency counts the driver builds the source
object through the public API, converts it into a second (pre-filled) object
and in place, converts the result on to a third type, and then runs a random
resize / convert / access history on the results.  Offline:

  * structure (type, dimensions, frequencies, z0 / fz0 and mode carried over;
    source and bystanders untouched; refusals leave everything unchanged)
    is judged by pylib/datamodel.py after every operation,
  * values are judged per frequency against pylib/netparams.py (the port
    relations of vnaconv(3)) with that frequency's matrix and that frequency's
    reference impedances,
  * in-place must equal out-of-place bit for bit, A->B->C must equal A->C,
  * a refusal must be -1 / EINVAL with exactly one USAGE callback,
  * after a conversion to Zin the object must behave as a fresh 1 x ports
    object under later resizes (the model predicts 0 / 0 / 50 ohm for whatever
    a resize exposes).
"""
import os
import sys

import numpy as np

sys.path.insert(0, os.path.join(os.path.dirname(os.path.abspath(__file__)),
                                "..", "pylib"))
import datamodel as DM  # noqa: E402
import netparams as NP  # noqa: E402
import runner as R  # noqa: E402

PROP = "C05"
# margins are in units of eps * (|ref| + sensitivity); worst value seen on the
# tree with the findings repaired: see evidence max_margin (< 1e3)
TOL_MARGIN = 2.0e6
KAPPA_MAX = 1.0e4
TN = DM.TYPE_NAMES
OBJS = ("a", "b", "c", "d", "e")
ZKINDS = ["z0-equal", "z0-unequal", "z0-complex", "fz0-per-frequency"]


# ----------------------------------------------------------------------
# inputs
# ----------------------------------------------------------------------
def rand_z0(rng, n, kind):
    if kind == 0:
        v = float(rng.choice([50.0, 75.0, 10 ** rng.uniform(0, 3)]))
        return np.full(n, v, dtype=complex)
    re_ = 10 ** rng.uniform(0.5, 2.5, n)
    if n >= 3 and rng.random() < 0.35:
        # partly equal: some ports agree exactly (in the real part), others
        # do not
        for _ in range(int(rng.integers(1, n))):
            i, j = rng.choice(n, 2, replace=False)
            re_[j] = re_[i]
        if len(set(re_.tolist())) == 1:
            re_[0] *= 2.0
    if kind == 1:
        return re_.astype(complex)
    return re_ + 1j * re_ * rng.uniform(-1.5, 1.5, n)


def rand_matrix(rng, t, n, z0):
    """a generic network of n ports expressed in type t"""
    tn = TN[t]
    for _ in range(20):
        s = (rng.standard_normal((n, n)) + 1j * rng.standard_normal((n, n))) \
            * rng.uniform(0.1, 0.7)
        if tn == "S":
            return s
        try:
            m = NP.convert("S", tn, s, z0)
        except np.linalg.LinAlgError:
            continue
        if np.all(np.isfinite(m)):
            return m
    return s


def sens_abs(fn, x, scale, rng, trials=3, rel=1e-8):
    """absolute sensitivity of fn at x per unit of an entrywise perturbation
    of size `scale`"""
    y0 = np.asarray(fn(x))
    d = np.zeros(y0.shape)
    for _ in range(trials):
        p = rng.standard_normal(x.shape) + 1j * rng.standard_normal(x.shape)
        y = np.asarray(fn(x + rel * scale * p))
        with np.errstate(invalid="ignore"):
            d = np.maximum(d, np.abs(y - y0) / rel)
    return d


def reference(ft, tt, m, z0):
    if tt == DM.T_ZIN:
        return NP.zin(TN[ft], m, z0)
    return NP.convert(TN[ft], TN[tt], m, z0)


# ----------------------------------------------------------------------
# one case
# ----------------------------------------------------------------------
class Case(object):
    def __init__(self, rng, spec):
        self.rng = rng
        self.spec = spec
        self.mon = DM.Monitor(PROP, OBJS)
        self.gen = DM.Gen(rng, maxdim=5, objects=OBJS, weights=[
            ("resize", 14), ("set_type", 2), ("add_frequency", 2),
            ("set_cell", 3), ("get_cell", 3), ("set_matrix", 3),
            ("get_matrix", 2), ("get_to_vector", 1), ("set_z0", 2),
            ("get_z0", 1), ("set_fz0", 2), ("get_fz0", 2),
            ("get_fz0_vector", 1), ("set_all_z0", 1), ("has_fz0", 1),
            ("convert", 8)])
        self.script = R.Script()
        self.first = self.mon.prologue(self.script)
        self.steps = []
        self.tags = {}

    def add(self, op, tag=None, dump=None):
        if dump is None:
            dump = op[0] in DM.MUTATORS
        ln, dl = DM.emit(self.script, op, dump)
        self.steps.append((op, ln, dl))
        if tag:
            self.tags[ln] = tag
        self.gen.advance(op)
        while self.gen.pending:
            f = self.gen.pending.pop(0)
            ln2, dl2 = DM.emit(self.script, f, True)
            self.steps.append((f, ln2, dl2))
            self.gen.advance(f)
        return ln

    def build_source(self, name, t, rows, cols, F, zk, freqs, mats, z0s):
        """the same public calls build the source and its in-place twin"""
        ports = max(rows, cols)
        if zk == 3 and F == 0:
            # per-frequency mode with no frequency left: establish it with
            # one frequency, then drop the frequency
            self.add(("vnadata_init", name, t, rows, cols, 1))
            self.add(("vnadata_set_fz0_vector", name, 0,
                      [complex(60 + p, p) for p in range(ports)]))
            self.add(("vnadata_resize", name, t, rows, cols, 0))
            return
        self.add(("vnadata_init", name, t, rows, cols, F))
        self.add(("vnadata_set_frequency_vector", name, list(freqs)))
        for f in range(F):
            self.add(("vnadata_set_matrix", name, f,
                      [complex(v) for v in mats[f].reshape(-1)]))
        if zk == 0:
            self.add(("vnadata_set_all_z0", name, complex(z0s[0][0])
                      if ports else 50 + 0j))
        elif zk in (1, 2):
            self.add(("vnadata_set_z0_vector", name,
                      [complex(v) for v in z0s[0]]))
        else:
            for f in range(F):
                self.add(("vnadata_set_fz0_vector", name, f,
                          [complex(v) for v in z0s[f]]))


def make_case(rng, spec):
    ft, tt, rows, cols, zk, F = spec
    case = Case(rng, spec)
    ports = max(rows, cols)
    freqs = np.cumsum(rng.uniform(1e6, 1e9, F)) if F else []
    if zk == 3:
        z0s = [rand_z0(rng, ports, 2) for _ in range(max(F, 1))]
    else:
        z = rand_z0(rng, ports, zk)
        z0s = [z for _ in range(max(F, 1))]
    mats = []
    for f in range(F):
        if ft in DM.MATRIX_TYPES and rows == cols and rows > 0:
            mats.append(rand_matrix(rng, ft, rows, z0s[f]))
        else:
            mats.append(rng.standard_normal((rows, cols)) +
                        1j * rng.standard_normal((rows, cols)))
    case.build_source("a", ft, rows, cols, F, zk, freqs, mats, z0s)
    case.build_source("b", ft, rows, cols, F, zk, freqs, mats, z0s)
    # the destination holds something else before the call
    g = case.gen
    case.add(g.valid_init("c"))
    vc = g.M["c"]
    for f in range(vc.F):
        case.add(("vnadata_set_matrix", "c", f,
                  [g.rcplx() for _ in range(vc.cells)]))
    if vc.F and rng.random() < 0.5:
        case.add(("vnadata_set_fz0_vector", "c", int(rng.integers(0, vc.F)),
                  [g.rz0() for _ in range(vc.ports)]))
    else:
        case.add(("vnadata_set_z0_vector", "c",
                  [g.rz0() for _ in range(vc.ports)]))
    # the conversions under test
    case.add(("vnadata_convert", "a", "c", tt), tag="out")
    case.add(("vnadata_convert", "b", "b", tt), tag="in")
    acc, is_zin, same = DM.convert_accepts(g.M["a"], tt)
    if acc and 0 <= tt < DM.NTYPES and tt in DM.MATRIX_TYPES:
        # chain: (a -> c as B) -> d as C   versus   a -> e as C
        cands = [t for t in range(DM.NTYPES)
                 if t != tt and t != ft and DM.convert_accepts(g.M["c"], t)[0]]
        if cands:
            t3 = int(rng.choice(cands))
            case.add(("vnadata_convert", "c", "d", t3), tag="chain")
            case.add(("vnadata_convert", "a", "e", t3), tag="direct")
    # afterwards: random histories on the results (resizes re-expose cells)
    if acc and is_zin:
        n = min(rows, cols)
        for o in ("b", "c"):
            case.add(("vnadata_resize", o, DM.T_UNDEF, n, n, F))
            case.add(("vnadata_resize", o, DM.T_UNDEF, 5, 5, max(F, 1)))
        ntail = 12
    else:
        ntail = 4
    k = 0
    while k < ntail:
        case.add(g.next_ops(names=("b", "c")))
        k += 1
    for o in ("b", "c"):
        case.add(("vnadata_resize", o, DM.T_UNDEF, 5, 5, 4))
    return case


def judge_values(ft, tt, n, mats, z0s, outs, acc, rng, extra_fn=None):
    """per-frequency comparison with the reference.  Returns (worst margin,
    None) or (margin, description of the first frequency out of tolerance);
    refs[f] = (ref, delta) for the frequencies judged"""
    worst = 0.0
    refs = {}

    def bump(k):
        acc[k] = acc.get(k, 0) + 1
    for f in range(len(mats)):
        m = np.array(mats[f], dtype=complex).reshape(n, n)
        z0 = np.array(z0s[f], dtype=complex)
        out = np.array(outs[f], dtype=complex)
        if not (np.all(np.isfinite(m)) and np.all(np.isfinite(z0)) and
                np.all(z0.real != 0)):
            bump("skipped_nonfinite")
            continue
        mags = np.abs(np.concatenate([m.reshape(-1), z0]))
        nz = mags[mags != 0]
        if nz.size == 0 or nz.max() > 1e100 or nz.min() < 1e-100:
            # overflow / underflow territory: not what the property is about
            bump("skipped_extreme_magnitude")
            continue
        try:
            with np.errstate(all="ignore"):
                ref, delta = NP.sensitivity(
                    lambda x: reference(ft, tt, x, z0), m, rng=rng)
                if np.any(m == 0):
                    # a relative perturbation is blind to entries that are
                    # exactly zero (cells exposed by a resize): perturb
                    # those absolutely, at the scale of the matrix
                    delta = delta + sens_abs(
                        lambda x: reference(ft, tt, x, z0), m,
                        np.where(m == 0, np.max(np.abs(m)), 0.0), rng)
                extra = extra_fn(f, z0) if extra_fn else 0.0
        except (np.linalg.LinAlgError, ZeroDivisionError):
            bump("skipped_singular")
            continue
        if extra is None or not (np.all(np.isfinite(ref)) and
                                 np.all(np.isfinite(delta)) and
                                 np.all(np.isfinite(extra))):
            bump("skipped_singular")
            continue
        kappa = float(np.max(delta + extra) / (np.max(np.abs(ref)) + 1e-300))
        if kappa > KAPPA_MAX:
            bump("skipped_ill_conditioned")
            continue
        size = np.abs(ref) + delta + extra
        if np.max(size) == 0 or np.min(size) < 1e-12 * np.max(size):
            # an entry that is (nearly) exactly zero and insensitive, next
            # to entries of ordinary size (zero blocks after a resize): no
            # meaningful entrywise tolerance exists
            bump("skipped_degenerate")
            continue
        shaped = out.reshape(ref.shape)
        mg = NP.margin(shaped, ref, delta + extra)
        if mg != mg:
            mg = float("inf")
        worst = max(worst, mg)
        refs[f] = (ref, delta)
        bump("frequencies_judged")
        if not (mg <= TOL_MARGIN):
            return mg, "frequency index %d z0=%s: margin %.3g\ngot  %s\n" \
                "want %s" % (f, z0, mg, shaped, ref), refs
    return worst, None, refs


def make_hook(case, acc):
    """value checks on every accepted conversion + callback contract on
    every refusal; acc collects measurements"""
    mem = {}
    rng = np.random.default_rng(12345)

    def hook(op, alt, ev, before, M, obs):
        if op[0] != "vnadata_convert":
            return None
        _, sname, dname, tt = op
        tag = case.tags.get(ev.get("i"))
        src = before[sname]
        if not alt.ok:
            acc["refusals"] = acc.get("refusals", 0) + 1
            cb = ev.get("cb") or []
            if len(cb) != 1 or cb[0][0] != "USAGE":
                return dict(key="%s:refusal-callback:vnadata_convert" % PROP,
                            desc="refused conversion %s -> %s must call the "
                                 "error function once with category USAGE; "
                                 "callbacks: %s" % (TN[src.type], tt, cb))
            return None
        dst = M[dname]
        ft = src.type
        if tag == "out":
            mem["out"] = obs[dname][0]
        if tag == "in":
            acc["inplace_pairs"] = acc.get("inplace_pairs", 0) + 1
            o, i = mem.get("out"), obs[dname][0]
            if o is not None:
                keys = ["type", "rows", "cols", "F", "freq", "data"]
                if src.F > 0:
                    keys += ["has_fz0", "z0", "fz0"]
                for k in keys:
                    if not DM.eq(o.get(k), i.get(k)):
                        return dict(
                            key="%s:inplace-differs:%s" % (PROP, k),
                            desc="%s -> %s %dx%d: in-place result differs "
                                 "from conversion into a second object in "
                                 "'%s'\nsecond object: %s\nin place     : %s"
                                 % (TN[ft], TN[tt], src.rows, src.cols, k,
                                    o.get(k), i.get(k)))
        if ft == tt or ft not in DM.MATRIX_TYPES or src.rows == 0:
            acc["copies"] = acc.get("copies", 0) + 1
            return None
        n = src.rows
        z0s = [src.zvec(f) for f in range(src.F)]
        if tag is None:
            # conversions of the random tail work on whatever the history
            # left (zero blocks, stale mixtures of scales): the margin is
            # measured and reported but carries no verdict; their structure
            # is judged like everything else
            tacc = {}
            worst, bad, refs = judge_values(ft, tt, n, src.data, z0s,
                                            dst.data, tacc, rng)
            acc["tail_conversions"] = acc.get("tail_conversions", 0) + 1
            if bad is None:
                acc["max_tail_margin"] = max(acc.get("max_tail_margin", 0.0),
                                             worst)
            else:
                acc["tail_out_of_tolerance"] = \
                    acc.get("tail_out_of_tolerance", 0) + 1
            return None
        worst, bad, refs = judge_values(ft, tt, n, src.data, z0s, dst.data,
                                        acc, rng)
        if bad:
            return dict(
                key="%s:wrong-result:%sto%s" % (PROP, TN[ft], TN[tt]),
                desc="%s -> %s n=%d (%s impedances): result is not the "
                     "network defined by vnaconv(3) for this frequency's "
                     "matrix and impedances: %s" % (
                         TN[ft], TN[tt], n,
                         "per-frequency" if src.fz else "ordinary", bad))
        acc["max_margin"] = max(acc.get("max_margin", 0.0), worst)
        acc["conversions_judged"] = acc.get("conversions_judged", 0) + 1
        if tag == "out":
            mem["first"] = (ft, tt, refs)
        if tag == "chain" and "first" in mem:
            # A -> B -> C must describe the same network as A -> C: judge
            # the chained result against the reference for the ORIGINAL
            # matrix; the tolerance adds the rounding of the first step
            # propagated through the second
            fa, fb, refs_ab = mem["first"]
            orig = before["a"]

            def extra_fn(f, z0):
                if f not in refs_ab:
                    return None
                bref, bdelta = refs_ab[f]
                return sens_abs(lambda x: reference(fb, tt, x, z0), bref,
                                np.abs(bref) + bdelta, rng)
            zs = [orig.zvec(f) for f in range(orig.F)]
            worst2, bad2, _ = judge_values(fa, tt, orig.rows, orig.data, zs,
                                           dst.data, acc, rng, extra_fn)
            acc["chains"] = acc.get("chains", 0) + 1
            acc["max_chain_margin"] = max(acc.get("max_chain_margin", 0.0),
                                          worst2 if not bad2 else 0.0)
            if bad2:
                return dict(
                    key="%s:chain:%sto%sto%s" % (PROP, TN[fa], TN[fb], TN[tt]),
                    desc="%s -> %s -> %s is not the network of %s -> %s: %s"
                         % (TN[fa], TN[fb], TN[tt], TN[fa], TN[tt], bad2))
        return None

    return hook


# ----------------------------------------------------------------------
# worker
# ----------------------------------------------------------------------
def run_chunk(chunk_id, payload):
    seed, tier, binary, workroot, specs = payload
    part = dict(evaluations=0, counters={}, maxima={}, distinct=set(),
                samples=[], violations=[], inconclusive=[], harness_errors=[])
    cnt = part["counters"]
    cases = []
    info = {}
    for k, (spec, rep) in enumerate(specs):
        rng = np.random.default_rng([seed, 5, rep] + [int(x) + 2 for x in spec])
        case = make_case(rng, spec)
        cid = "c%d.%d" % (chunk_id, k)
        cases.append((cid, case.script.text()))
        info[cid] = case
    wd = os.path.join(workroot, "w%d" % chunk_id)
    results = R.run_cases(binary, cases, wd, timeout=1800)
    stats = {}
    for cid, text in cases:
        res = results[cid]
        case = info[cid]
        acc = {}
        hook = make_hook(case, acc)
        viol, judged, last_line, M = case.mon.judge(
            res, text, case.steps, case.first, stats, hook=hook)
        ft, tt, rows, cols, zk, F = case.spec
        nconv = stats.get("ok:vnadata_convert", 0) + \
            stats.get("refused:vnadata_convert", 0)
        cnt["cases"] = cnt.get("cases", 0) + 1
        for k in ("refusals", "inplace_pairs", "copies", "conversions_judged",
                  "frequencies_judged", "chains", "skipped_nonfinite",
                  "skipped_singular", "skipped_ill_conditioned",
                  "skipped_extreme_magnitude", "skipped_degenerate",
                  "tail_conversions", "tail_out_of_tolerance"):
            if k in acc:
                cnt[k] = cnt.get(k, 0) + acc[k]
        for k in ("max_margin", "max_chain_margin", "max_tail_margin"):
            if k in acc:
                part["maxima"][k] = max(part["maxima"].get(k, 0.0), acc[k])
        if judged:
            part["distinct"].add((ft, tt, rows, cols, zk, F,
                                  DM.text_id(text)))
        sv, inc = R.standard_violations(res, text, PROP)
        lines = text.split("\n")
        for v in sv:
            m = None
            tool = ""
            for r in res.reports:
                if r["key"] == v["key"]:
                    m = r.get("i")
                    tool = r["tool"]
                    break
            if viol is not None and tool != "lsan" and \
                    (v["key"].startswith(("asan:", "ubsan:", "abort:",
                                          "crash:")) and
                     (m is None or m > viol["line"])):
                cnt["reports_after_divergence"] = \
                    cnt.get("reports_after_divergence", 0) + 1
                continue
            if m is not None:
                v = dict(v, script="\n".join(lines[:m]) + "\n")
            part["violations"].append(v)
        part["inconclusive"] += inc
        if viol is not None:
            part["violations"].append(viol)
        if len(part["samples"]) < 1 and judged > 6 and \
                acc.get("frequencies_judged", 0) >= 3:
            part["samples"].append(dict(
                from_type=TN[ft], to_type=TN[tt] if 0 <= tt < 11 else tt,
                rows=rows, cols=cols, z0=ZKINDS[zk], frequencies=F,
                operations=[DM.op_text(op) for op, _, _ in case.steps[:40]
                            if op[0] in ("vnadata_convert", "vnadata_resize",
                                         "vnadata_init")][:14],
                source_matrix_f0=[str(v) for v in M["a"].data[0]]
                if M["a"].F else [],
                source_z0_f0=[str(v) for v in M["a"].zvec(0)]
                if M["a"].F else [],
                max_margin=acc.get("max_margin"),
                final_state={o: M[o].brief() for o in M}))
    part["evaluations"] = stats.get("ok:vnadata_convert", 0) + \
        stats.get("refused:vnadata_convert", 0)
    cnt["operations_judged"] = sum(v for k, v in stats.items()
                                   if not k.startswith("why:"))
    cnt["convert_accepted"] = stats.get("ok:vnadata_convert", 0)
    cnt["convert_refused"] = stats.get("refused:vnadata_convert", 0)
    return part


def all_specs():
    """(from, to, rows, cols, z0 kind, F)"""
    specs = []
    tos = list(range(DM.NTYPES))
    for ft in range(DM.NTYPES):
        if ft in DM.SQUARE_TYPES:
            shapes = [(n, n) for n in (1, 2, 3, 4, 5)]
        elif ft in DM.TWO_PORT_TYPES:
            shapes = [(2, 2)]
        elif ft == DM.T_ZIN:
            shapes = [(1, 1), (1, 2), (1, 4)]
        else:
            shapes = [(2, 2), (3, 2), (1, 3)]
        for tt in tos:
            for (r, c) in shapes:
                for zk in range(4):
                    for F in (0, 1, 3):
                        specs.append((ft, tt, r, c, zk, F))
    # new types outside the enumeration
    for ft, (r, c) in ((DM.T_S, (2, 2)), (DM.T_Z, (3, 3)), (DM.T_UNDEF, (2, 2)),
                       (DM.T_ZIN, (1, 2))):
        for tt in (-1, DM.NTYPES, 100):
            specs.append((ft, tt, r, c, 1, 1))
    return specs


def main():
    chk = R.Check(PROP)
    binary = DM.private_copy(chk.build("asan"), chk.workroot)
    specs = all_specs()
    reps = 3 if chk.tier == "quick" else 14
    reps = max(1, int(round(reps * chk.args.scale))) if chk.args.scale >= 1 \
        else 1
    work = [(s, rep) for rep in range(reps) for s in specs]
    if chk.args.scale < 1:
        rng = np.random.default_rng([chk.seed, 5, 0])
        idx = rng.choice(len(work), size=max(32, int(len(work) *
                                                     chk.args.scale)),
                         replace=False)
        work = [work[i] for i in sorted(idx)]
    nchunk = 64 if chk.tier == "quick" else 256
    # interleave so that every chunk sees all kinds of cases
    payloads = [(chk.seed, chk.tier, binary, chk.workroot, work[i::nchunk])
                for i in range(nchunk) if work[i::nchunk]]
    pairs = set()
    for part in R.pmap(run_chunk, payloads):
        chk.merge(part)
    for d in chk.distinct:
        pairs.add((d[0], d[1]))
    chk.counters["type_pairs_exercised"] = len(
        {p for p in pairs if 0 <= p[1] < DM.NTYPES})
    if chk.counters["type_pairs_exercised"] < 121 and chk.args.scale >= 1:
        chk.harness_errors.append("only %d of 121 type pairs exercised" %
                                  chk.counters["type_pairs_exercised"])
    chk.finish(
        rule="all 11x11 (from,to) pairs (+ new types -1, 11, 100) x shapes "
             "(NxN N=1..5 for S/Z/Y, 2x2 for two-port types, 1xN for Zin, "
             "rectangular for undefined) x {z0 equal, unequal, complex, "
             "per-frequency fz0 different at every frequency} x F in {0,1,3}; "
             "each case: generic network built through the public API twice, "
             "converted into a pre-filled second object and in place, chained "
             "A->B->C against A->C, then a random resize/convert/access "
             "history on the results; every operation judged against the "
             "array model, every accepted conversion with finite "
             "well-conditioned reference (kappa<=1e4) judged per frequency "
             "against the state-basis oracle. evaluations = conversions "
             "judged (accepted + refused); distinct = distinct (from, to, "
             "shape, z0 kind, F, script) tuples.",
        min_events=len(specs) // 4 if chk.args.scale >= 1 else 10,
        assumptions=["numpy.linalg (LAPACK) is the trusted numerical base",
                     "port relations transcribed from vnaconv(3); the set of "
                     "supported conversions from vnadata(3): 72 + 9 + copies",
                     "conversions of 0x0 matrices and the impedance mode of "
                     "a result with no frequencies are left open by the "
                     "manual and accepted either way"],
        extra=dict(tolerance_margin=TOL_MARGIN))


if __name__ == "__main__":
    main()
