#!/usr/bin/env python3-vt
"""C09: every file parser is total.

Monitor: structure-aware mutations of valid files of every kind (.s1p-.s4p,
.ts, .npd, .vnacal, YAML text) are fed to the real loaders under
ASan/UBSan/LSan with a per-operation watchdog.  Offline oracle on the event
log: a failing load returns -1/NULL with errno EBADMSG / ENOPROTOOPT / a system
errno and at least one single-line message, leaves a usable destination and no
leak; a succeeding load yields a self-consistent object that can be saved and
re-loaded to the same content.
"""
import json
import math
import os
import sys

import numpy as np

sys.path.insert(0, os.path.join(os.path.dirname(os.path.abspath(__file__)),
                                "..", "pylib"))
import calgen  # noqa: E402
import gen_files  # noqa: E402
import physics  # noqa: E402
import runner as R  # noqa: E402
from runner import Script, cx, hx, qs  # noqa: E402

PROP = "C09"
OK_ERRNO = {"EBADMSG", "ENOPROTOOPT", "ENOENT", "EACCES", "EISDIR", "ENOMEM",
            "EIO", "ENOTDIR", "ENAMETOOLONG", "EFBIG", "ENOSPC"}


# ----------------------------------------------------------------------
# seeds written by the library itself
# ----------------------------------------------------------------------
def seed_script(seed):
    rng = np.random.default_rng([seed, 909])
    s = Script()
    names = []
    k = 0
    for (ptype, ports, ext, fmt, fz0) in [
            ("S", 1, ".s1p", "Sma", False), ("S", 2, ".s2p", "SdB", False),
            ("S", 3, ".s3p", "Sri", False), ("S", 4, ".s4p", "Sma", False),
            ("Z", 2, ".s2p", "Zri", False), ("Y", 2, ".s2p", "Yma", False),
            ("H", 2, ".s2p", "Hri", False), ("G", 2, ".s2p", "Gri", False),
            ("S", 2, ".ts", "Sri", True), ("S", 3, ".ts", "Sma", False),
            ("Z", 5, ".ts", "ZdB", False),
            ("S", 2, ".npd", "Sri,Zma,IL,RL,VSWR", False),
            ("S", 2, ".npd", "SdB,Tri,Zin", True),
            ("Z", 3, ".npd", "Zri,Yri,Sma", False),
            ("S", 2, ".npd", "PRC,PRL,SRC,SRL", False),
            ("T", 2, ".npd", "Tma,Uma,Ari,Bri", False)]:
        vd = "v%d" % k
        F = int(rng.integers(1, 4))
        s.op("%s=vnadata_alloc" % vd)
        s.op("vnadata_init $%s %s %d %d %d" % (vd, ptype, ports, ports, F))
        s.rvec("f%d" % k, np.linspace(1e9, 3e9, F))
        s.op("vnadata_set_frequency_vector $%s @f%d" % (vd, k))
        for fi in range(F):
            m = (rng.standard_normal(ports * ports) +
                 1j * rng.standard_normal(ports * ports)) * 0.5
            s.cvec("m%d_%d" % (k, fi), m)
            s.op("vnadata_set_matrix $%s %d @m%d_%d" % (vd, fi, k, fi))
        if fz0:
            for fi in range(F):
                s.op("vnadata_set_fz0 $%s %d 0 %s" % (vd, fi, cx(50 + 5 * fi + 2j)))
        else:
            s.op("vnadata_set_z0 $%s 0 %s" % (vd, cx(75.0)))
        s.op("vnadata_set_format $%s %s" % (vd, qs(fmt)))
        path = "seed%d%s" % (k, ext)
        s.op("vnadata_save $%s %s" % (vd, qs(path)))
        ln = s.op("read_file %s" % qs(path))
        names.append((ln, "l_%d%s" % (k, ext)))
        k += 1
    # calibration files
    for j, (ctype, r, c) in enumerate([("T8", 2, 2), ("U8", 2, 1), ("TE10", 1, 2),
                                       ("UE10", 2, 2), ("T16", 2, 2),
                                       ("U16", 2, 2), ("UE14", 2, 2),
                                       ("E12", 2, 2), ("E12", 3, 1)]):
        sc = None
        for _ in range(30):
            sc = calgen.Scenario(ctype, r, c, 2, rng, form="m")
            sc.sufficient_recipe(extras=0)
            sc.choose_entries()
            if sc.well_determined(1e4)[0]:
                break
        vc, vn = "c%d" % j, "n%d" % j
        sc.emit_header(s, vc=vc, vn=vn)
        uid = [j * 1000]
        for i, st in enumerate(sc.stds):
            sc.emit_std(s, st, j * 100 + i, vc=vc, vn=vn, uid=uid)
        s.op("vnacal_new_solve $%s" % vn)
        s.op("vnacal_add_calibration $%s %s $%s" % (vc, qs("cal%d" % j), vn))
        if j % 2 == 0:
            s.op("vnacal_add_calibration $%s %s $%s" % (vc, qs("second"), vn))
            s.op("vnacal_new_solve $%s" % vn)
            s.op("vnacal_add_calibration $%s %s $%s" % (vc, qs("second"), vn))
        s.op("vnacal_property_set $%s -1 %s" % (vc, qs("global.list[1]=x y")))
        s.op("vnacal_property_set $%s 0 %s" % (vc, qs("per.cal=text\nline2")))
        if j == 3:
            s.op("vnacal_set_dprecision $%s 1000" % vc)
            s.op("vnacal_set_fprecision $%s 1000" % vc)
        path = "seedc%d.vnacal" % j
        s.op("vnacal_save $%s %s" % (vc, qs(path)))
        ln = s.op("read_file %s" % qs(path))
        names.append((ln, "l_c%d.vnacal" % j))
    # yaml
    s.op("pr=proot")
    for d in ("a.b=1", "list[2]=x", "m.k#", "q=multi\nline", "u=\xc3\xa9",
              "n=~", "w=  sp  "):
        s.op("vnaproperty_set $pr %s" % qs(d))
    s.op("vnaproperty_export_yaml_to_file $pr \"seedp.yaml\"")
    ln = s.op("read_file \"seedp.yaml\"")
    names.append((ln, "l_p.yaml"))
    return s.text(), names


def collect_seeds(binary, workroot, seed):
    text, names = seed_script(seed)
    res = R.run_cases(binary, [("seeds", text)], os.path.join(workroot, "seeds"),
                      timeout=300)["seeds"]
    seeds = dict(gen_files.HAND_SEEDS)
    for ln, nm in names:
        ev = res.ev(ln)
        if ev is not None and isinstance(ev.get("ret"), str):
            seeds[nm] = ev["ret"].encode("latin-1")
    compat = "/repo/src/tests/compat-V2.vnacal"
    repo = os.environ.get("VERIF_REPO", "/repo")
    compat = os.path.join(repo, "src", "tests", "compat-V2.vnacal")
    if os.path.exists(compat):
        seeds["compat.vnacal"] = open(compat, "rb").read()[:3000]
    v, _ = R.standard_violations(res, text, PROP)
    return seeds, v


# ----------------------------------------------------------------------
# case scripts
# ----------------------------------------------------------------------
# contents a destination may hold before the load ("loaded whole": what a
# successful load leaves must not depend on them)
USED = ["vnadata_init $vd Z 1 1 2\nvnadata_set_frequency_vector $vd auto\n"
        "vnadata_set_matrix $vd 0 auto\nvnadata_set_matrix $vd 1 auto",
        "vnadata_init $vd S 3 3 1\nvnadata_set_matrix $vd 0 auto\n"
        "vnadata_set_fz0 $vd 0 2 0x1.2cp+6 0x1p+1",
        "vnadata_init $vd H 2 2 5\nvnadata_set_frequency_vector $vd auto\n"
        "vnadata_set_matrix $vd 4 auto\nvnadata_set_z0 $vd 1 0x1.2cp+6 0x0p+0",
        "vnadata_init $vd ZIN 1 4 2\nvnadata_set_frequency_vector $vd auto"]


def case_script(name, data, use_f, used=None):
    s = Script()
    L = {}
    ext = os.path.splitext(name)[1]
    kind = gen_files.loader_for(name)
    inp = "in" + ext
    if kind == "vnadata":
        s.op("write_file %s %s" % (qs(inp), qs(data)))
        s.op("vd=vnadata_alloc")
        if used is not None:
            for ln in USED[used % len(USED)].split("\n"):
                s.op(ln)
            # the same file into a fresh object: the reference
            s.op("vf=vnadata_alloc")
            L["loadfresh"] = s.op("%s $vf %s" % (
                "vnadata_fload" if use_f else "vnadata_load", qs(inp)))
            L["dumpfresh"] = s.op("dump_vnadata $vf")
            s.op("vnadata_free $vf")
        L["load"] = s.op("%s $vd %s" % ("vnadata_fload" if use_f else
                                        "vnadata_load", qs(inp)))
        L["dump"] = s.op("dump_vnadata $vd")
        s.op("vnadata_set_fprecision $vd 1000")
        s.op("vnadata_set_dprecision $vd 1000")
        L["resave"] = s.op("vnadata_save $vd %s" % qs("re" + ext))
        s.op("v2=vnadata_alloc")
        L["reload"] = s.op("vnadata_load $v2 %s" % qs("re" + ext))
        L["dump2"] = s.op("dump_vnadata $v2")
        L["reinit"] = s.op("vnadata_init $vd S 1 1 1")
        s.op("vnadata_set_format $vd \"Sri\"")
        L["save3"] = s.op("vnadata_save $vd \"after.s1p\"")
        s.op("unlink %s" % qs("re" + ext))
    elif kind == "vnacal":
        s.op("write_file %s %s" % (qs(inp), qs(data)))
        L["load"] = s.op("vc=vnacal_load %s" % qs(inp))
        L["dump"] = s.op("dump_vnacal $vc")
        s.op("vnacal_set_fprecision $vc 1000")
        s.op("vnacal_set_dprecision $vc 1000")
        L["resave"] = s.op("vnacal_save $vc \"re.vnacal\"")
        L["reload"] = s.op("v2=vnacal_load \"re.vnacal\"")
        L["dump2"] = s.op("dump_vnacal $v2")
        L["text2"] = s.op("read_file \"re.vnacal\"")
        s.op("vnacal_set_fprecision $v2 1000")
        s.op("vnacal_set_dprecision $v2 1000")
        L["resave2"] = s.op("vnacal_save $v2 \"re2.vnacal\"")
        L["text3"] = s.op("read_file \"re2.vnacal\"")
        s.op("unlink \"re.vnacal\"")
    else:
        s.op("pr=proot")
        if use_f:
            s.op("write_file %s %s" % (qs(inp), qs(data)))
            L["load"] = s.op("vnaproperty_import_yaml_from_file $pr %s" % qs(inp))
        else:
            L["load"] = s.op("vnaproperty_import_yaml_from_string $pr %s" %
                             qs(data.split(b"\x00")[0]))
        L["dump"] = s.op("dump_property $pr")
        L["resave"] = s.op("vnaproperty_export_yaml_to_file $pr \"re.yaml\"")
        s.op("p2=proot")
        L["reload"] = s.op("vnaproperty_import_yaml_from_file $p2 \"re.yaml\"")
        L["dump2"] = s.op("dump_property $p2")
    return s.text(), L, kind


def finite_tree(x):
    if isinstance(x, float):
        return math.isfinite(x)
    if isinstance(x, list):
        return all(finite_tree(y) for y in x)
    if isinstance(x, dict):
        return all(finite_tree(y) for y in x.values())
    return True


def close(a, b, tol=1e-9):
    """structural comparison of two dumps with relative tolerance on floats"""
    if isinstance(a, float) or isinstance(b, float):
        if not (isinstance(a, (int, float)) and isinstance(b, (int, float))):
            return False
        if a == b:
            return True
        return abs(a - b) <= tol * max(abs(a), abs(b), 1e-300)
    if isinstance(a, list):
        if not isinstance(b, list) or len(a) != len(b):
            return False
        # complex pair: compare by magnitude
        if len(a) == 2 and all(isinstance(x, (int, float)) for x in a + b):
            za, zb = complex(*a), complex(*b)
            if za == zb:
                return True
            return abs(za - zb) <= tol * max(abs(za), abs(zb), 1e-300)
        return all(close(x, y, tol) for x, y in zip(a, b))
    if isinstance(a, dict):
        if not isinstance(b, dict) or set(a) != set(b):
            return False
        return all(close(a[k], b[k], tol) for k in a)
    return a == b


T_TYPES = {0, 2, 4}     # VNACAL_T8, TE10, T16 enum values
U_TYPES = {1, 3, 5, 6, 8}


def judge(name, data, text, L, kind, res, part):
    viol = part["violations"]
    cnt = part["counters"]

    def bad(what, desc):
        viol.append(dict(key="%s:%s:%s" % (PROP, what, kind), desc=desc,
                         script=text))
    ev = res.ev(L["load"])
    if ev is None or "ret" not in ev:
        return False
    failed = (ev["ret"] == -1 or ev["ret"] is None)
    cbs = ev.get("cb", [])
    if failed and "loadfresh" in L:
        ef = res.ev(L["loadfresh"])
        if ef is not None and ef.get("ret") == 0:
            bad("outcome-depends-on-destination",
                "the file loads into a fresh object but not into a used one: "
                "%s" % str(ev)[:300])
    if failed:
        cnt["rejected:" + kind] = cnt.get("rejected:" + kind, 0) + 1
        part["distinct"].add((kind, "fail", cbs[0][1][-40:] if cbs else ""))
        if ev.get("errno") not in OK_ERRNO:
            bad("errno-class", "loader failed with errno %s (not EBADMSG / "
                "ENOPROTOOPT / system): %s" % (ev.get("errno"), ev))
        msgs = [c for c in cbs if c[0] != "WARNING"]
        if len(msgs) < 1:
            bad("no-message", "loader failed without calling the error "
                "function: %s" % ev)
        for c in cbs:
            if "\n" in c[1]:
                bad("message-newline", "error message contains a newline: %r"
                    % c[1])
        if len(msgs) > 1:
            cnt["multiple_error_messages"] = cnt.get(
                "multiple_error_messages", 0) + 1
        if kind == "vnadata":
            for key in ("dump", "reinit", "save3"):
                e2 = res.ev(L[key])
                if e2 is None or "ret" not in e2:
                    return False
            if res.ev(L["reinit"])["ret"] != 0 or res.ev(L["save3"])["ret"] != 0:
                bad("unusable-after-failure", "after a failed load the object "
                    "could not be re-initialised and saved: %s / %s" % (
                        res.ev(L["reinit"]), res.ev(L["save3"])))
        return True
    # ---- success
    cnt["accepted:" + kind] = cnt.get("accepted:" + kind, 0) + 1
    if "loadfresh" in L:
        # loaded whole: the same file gives the same object whatever the
        # destination held before (precisions are not part of a load)
        ef, df, du = res.ev(L["loadfresh"]), res.ev(L["dumpfresh"]), \
            res.ev(L["dump"])
        if ef is not None and df is not None and du is not None and \
                "out" in df and "out" in du:
            cnt["reused_destination_loads"] = cnt.get(
                "reused_destination_loads", 0) + 1
            if ef.get("ret") != 0:
                bad("outcome-depends-on-destination",
                    "the file loads into a used object but not into a fresh "
                    "one: %s" % str(ef)[:300])
            else:
                a = {k: v for k, v in df["out"].items()
                     if k not in ("fprec", "dprec")}
                b = {k: v for k, v in du["out"].items()
                     if k not in ("fprec", "dprec")}
                if json.dumps(a, sort_keys=True) != json.dumps(b,
                                                               sort_keys=True):
                    bad("result-depends-on-destination",
                        "the same file loaded into a fresh object and into "
                        "one that held other data:\n fresh %s\n used  %s" % (
                            str(a)[:600], str(b)[:600]))
    for c in cbs:
        if c[0] != "WARNING":
            bad("message-on-success", "loader succeeded but called the error "
                "function: %s" % c)
    d1 = res.ev(L["dump"])
    if d1 is None or "out" not in d1:
        return False
    out = d1["out"]
    if kind == "vnadata":
        part["distinct"].add((kind, "ok", out["type"], out["rows"], out["cols"],
                              out["F"], out["has_fz0"], out["filetype"]))
        t, r, c = out["type"], out["rows"], out["cols"]
        if t in (2, 3, 6, 7, 8, 9) and (r, c) != (2, 2):
            bad("inconsistent-dims", "type %d with %dx%d" % (t, r, c))
        if t in (1, 4, 5) and r != c:
            bad("inconsistent-dims", "type %d with %dx%d" % (t, r, c))
        if t == 10 and r != 1 and c != 1:
            bad("inconsistent-dims", "Zin with %dx%d" % (r, c))
        if len(out["freq"]) != out["F"] or len(out["data"]) != out["F"]:
            bad("inconsistent-dims", "frequency count")
        if r >= 1 and c >= 1 and out["F"] >= 1 and t != 0:
            rs = res.ev(L["resave"])
            if rs is None or "ret" not in rs:
                return False
            if not finite_tree(out["data"]) or not finite_tree(out["freq"]) \
                    or not finite_tree(out.get("z0", [])) \
                    or not finite_tree(out.get("fz0", [])):
                cnt["nonfinite_loaded"] = cnt.get("nonfinite_loaded", 0) + 1
                return True
            if rs["ret"] != 0:
                bad("resave-failed", "a successfully loaded object (type %d "
                    "%dx%d F=%d) could not be saved: %s" % (t, r, c, out["F"], rs))
                return True
            rl = res.ev(L["reload"])
            d2 = res.ev(L["dump2"])
            if rl is None or d2 is None or "ret" not in rl:
                return False
            if rl["ret"] != 0:
                bad("reload-failed", "the file written from a loaded object "
                    "does not load: %s" % rl)
                return True
            a = {k: out[k] for k in ("type", "rows", "cols", "F", "freq",
                                     "data", "has_fz0")}
            b = {k: d2["out"][k] for k in a}
            for zk in ("z0", "fz0"):
                if zk in out:
                    a[zk] = out[zk]
                    b[zk] = d2["out"].get(zk)
            cnt["roundtrips:" + kind] = cnt.get("roundtrips:" + kind, 0) + 1
            fmt = (out.get("format") or "").lower()
            undefined_form = any(t_ in fmt for t_ in (
                "prc", "prl", "src", "srl", "il", "rl", "vswr", "db")) and \
                any(abs(complex(*z)) == 0 for row in out["data"] for z in row)
            # an R-C / R-L equivalent has no defined C or L at 0 Hz either
            # (C = Im(Y) / omega = 0 / 0): the saved field is NaN by arithmetic
            if any(t_ in fmt for t_ in ("prc", "prl", "src", "srl")) and \
                    any(f_ == 0 for f_ in out["freq"]):
                undefined_form = True
            if undefined_form:
                cnt["undefined_form_not_compared"] = cnt.get(
                    "undefined_form_not_compared", 0) + 1
            elif not close(a, b):
                bad("reload-differs", "save+load of a loaded object changed "
                    "it:\nfirst  %s\nsecond %s" % (str(a)[:700], str(b)[:700]))
    elif kind == "vnacal":
        part["distinct"].add((kind, "ok", out["end"], tuple(
            (sl["type"], sl["rows"], sl["cols"], sl["F"]) if sl else None
            for sl in out["slots"])))
        for sl in out["slots"]:
            if sl is None:
                continue
            t, r, c = sl["type"], sl["rows"], sl["cols"]
            if (t in T_TYPES and r > c) or (t in U_TYPES and r < c) or \
                    r < 1 or c < 1 or t not in (T_TYPES | U_TYPES):
                bad("inconsistent-dims", "calibration type %d with %dx%d"
                    % (t, r, c))
            fr = sl["freq"]
            if fr is None or len(fr) != sl["F"]:
                bad("inconsistent-dims", "frequency vector length")
            elif any(not (fr[i] < fr[i + 1]) for i in range(len(fr) - 1)) or \
                    any(not (x >= 0) for x in fr):
                bad("frequencies-not-ascending", "calibration frequencies %s"
                    % fr[:8])
        rs = res.ev(L["resave"])
        if rs is None or "ret" not in rs:
            return False
        if rs["ret"] != 0:
            bad("resave-failed", "a successfully loaded vnacal_t could not be "
                "saved: %s" % rs)
            return True
        rl = res.ev(L["reload"])
        d2 = res.ev(L["dump2"])
        t2, t3 = res.ev(L["text2"]), res.ev(L["text3"])
        if rl is None or d2 is None or "ret" not in rl:
            return False
        if rl["ret"] is None:
            bad("reload-failed", "the file written from a loaded vnacal_t "
                "does not load: %s" % rl)
            return True
        cnt["roundtrips:" + kind] = cnt.get("roundtrips:" + kind, 0) + 1
        if finite_tree(out) and not close(out, d2["out"]):
            bad("reload-differs", "save+load changed the calibration table:\n"
                "%s\n%s" % (str(out)[:600], str(d2["out"])[:600]))
        if t2 is not None and t3 is not None and t2.get("ret") != t3.get("ret") \
                and "nan" not in str(t2.get("ret")).lower():
            a_ = str(t2.get("ret")).split("\n")
            b_ = str(t3.get("ret")).split("\n")
            d_ = [(x, y) for x, y in zip(a_, b_) if x != y][:3]
            bad("reload-differs", "second-generation save differs from the "
                "first (error terms not preserved at maximum precision): "
                "%d vs %d lines; first differences %s" % (len(a_), len(b_), d_))
    else:
        part["distinct"].add((kind, "ok", str(out)[:60]))
        rs = res.ev(L["resave"])
        rl = res.ev(L["reload"])
        d2 = res.ev(L["dump2"])
        if rs is None or rl is None or d2 is None or "ret" not in rs:
            return False
        if rs["ret"] != 0 or rl.get("ret") != 0:
            bad("resave-failed", "imported tree could not be exported and "
                "re-imported: %s / %s" % (rs, rl))
            return True
        cnt["roundtrips:" + kind] = cnt.get("roundtrips:" + kind, 0) + 1
        if d2.get("out") != out:
            cnt["yaml_roundtrip_differs(C14)"] = cnt.get(
                "yaml_roundtrip_differs(C14)", 0) + 1
    return True


def gen_inputs(seed, chunk_id, ncases, seeds, exhaustive_trunc):
    """the inputs of one chunk: a pure function of its arguments"""
    rng = np.random.default_rng([seed, chunk_id, 99])
    names = sorted(seeds)
    inputs = []
    if exhaustive_trunc:
        # truncation at every byte offset of the small seeds (striped)
        for nm in names:
            d = seeds[nm]
            if len(d) <= 1500:
                for off in range(chunk_id, len(d), 16 * exhaustive_trunc):
                    inputs.append((nm, d[:off], "trunc"))
    for k in range(ncases):
        nm = names[int(rng.integers(0, len(names)))]
        d = seeds[nm]
        nm_ = nm
        for _ in range(int(rng.choice([1, 1, 1, 2, 3]))):
            if rng.random() < 0.12:
                # lines of another seed file with the same extension
                ext = os.path.splitext(nm)[1]
                same = [x for x in names if x.endswith(ext) and x != nm]
                if same:
                    d = gen_files.splice(d, seeds[same[int(rng.integers(
                        0, len(same)))]], rng)
                    continue
            d = gen_files.mutate(d, rng)
        if rng.random() < 0.03:
            d = bytes(rng.integers(0, 256, int(rng.integers(0, 200)),
                                   dtype=np.uint8))
        if rng.random() < 0.02:
            d = seeds[nm]   # unmutated: must load
        if rng.random() < 0.03:
            # a well-formed calibration file of a random type and random
            # dimensions, allowed or not (sometimes mutated once)
            nm_ = "synth.vnacal"
            d = gen_files.synth_cal_file(rng)
            if rng.random() < 0.3:
                d = gen_files.mutate(d, rng)
        inputs.append((nm_, d[:20000], "mut"))
    return inputs


def work(chunk_id, payload):
    seed, tier, ncases, binary, workroot, seeds, exhaustive_trunc, membin, \
        nmem = payload
    part = dict(evaluations=0, counters={}, maxima={}, distinct=set(),
                samples=[], violations=[], inconclusive=[], harness_errors=[])
    cases = []
    meta = {}
    inputs = gen_inputs(seed, chunk_id, ncases, seeds, exhaustive_trunc)
    for k, (nm, d, how) in enumerate(inputs):
        text, L, kind = case_script(nm, d, use_f=(k % 3 == 0),
                                    used=(k // 2 if k % 2 else None))
        cid = "i%d_%d" % (chunk_id, k)
        cases.append((cid, text))
        meta[cid] = (nm, d, L, kind)
    wd = os.path.join(workroot, "w%d" % chunk_id)
    import time as _t
    t0 = _t.time()
    results = R.run_cases(binary, cases, wd, timeout=3600, watchdog=20)
    part["maxima"]["slowest_chunk_s"] = _t.time() - t0
    for cid, text in cases:
        res = results[cid]
        nm, d, L, kind = meta[cid]
        v, inc = R.standard_violations(res, text, PROP)
        # key hangs by loader
        part["violations"] += v
        part["inconclusive"] += inc
        if res.status in ("driver_error", "notrun"):
            part["harness_errors"].append("%s %s %s" % (cid, res.status,
                                                        res.detail))
            continue
        for e_ in res.events:
            if e_.get("ms", 0) >= 2000:
                part["counters"]["slow_ops(>2s)"] = part["counters"].get(
                    "slow_ops(>2s)", 0) + 1
                if len(part["samples"]) < 3:
                    part["samples"].append(dict(slow_op=e_["op"], ms=e_["ms"],
                                                script=text[:1500]))
        if judge(nm, d, text, L, kind, res, part):
            part["evaluations"] += 1
        if len(part["samples"]) < 1 and len(d) < 400:
            part["samples"].append(dict(seed_file=nm, bytes=d.decode("latin-1")))
    # memcheck sample (plain build): uninitialised-value use in the parsers
    if membin and nmem > 0:
        sub = cases[-nmem:]
        mres = R.run_cases(membin, sub, wd + "m", timeout=3600, watchdog=300,
                           valgrind=True)
        for cid, text in sub:
            part["counters"]["memcheck_inputs"] = part["counters"].get(
                "memcheck_inputs", 0) + 1
            v, inc = R.standard_violations(mres[cid], text, PROP)
            part["violations"] += [x for x in v
                                   if x["key"].startswith("memcheck:")]
    return part


def main():
    chk = R.Check(PROP)
    binary = chk.build("asan")
    seeds, v = collect_seeds(binary, chk.workroot, chk.seed)
    for x in v:
        chk.violation(x["key"], "while writing seed files: " + x["desc"],
                      x["script"])
    if len(seeds) < 20:
        chk.harness_errors.append("only %d seed files" % len(seeds))
    total = 20000 if chk.tier == "quick" else 300000
    total = int(total * chk.args.scale)
    nchunks = 16 if chk.tier == "quick" else 128
    per = max(1, total // nchunks)
    trunc = 8 if chk.tier == "quick" else 1
    membin = chk.build("plain")
    nmem = 12 if chk.tier == "quick" else 80
    payloads = [(chk.seed, chk.tier, per, binary, chk.workroot, seeds,
                 trunc if i < 16 else 0, membin, nmem) for i in range(nchunks)]
    for part in R.pmap(work, payloads):
        chk.merge(part)
    chk.counters["seed_files"] = len(seeds)
    chk.finish(
        rule="seed files of every kind written by the library itself plus "
             "hand-written Touchstone 1/2 and YAML files and the repository's "
             "legacy V2 calibration file; inputs = 1..3 stacked structure-aware "
             "mutations (truncate, token delete/dup/swap, number and keyword "
             "substitution, line edits, byte flips, invalid UTF-8, YAML node "
             "type and indentation changes, chunk repetition, block deletion, "
             "lines spliced in from another seed of the same kind), every "
             "second vnadata load into an object that held other data "
             "(differential against a fresh one), truncation at "
             "byte offsets of the small seeds, and random bytes; distinct = "
             "distinct (loader, outcome, error-message tail or loaded shape)",
        min_events=100,
        assumptions=["termination is judged by a 20 s per-operation watchdog",
                     "uninitialised reads are only seen where they change "
                     "behaviour or on the memcheck sample (not run in quick)"])


if __name__ == "__main__":
    main()
