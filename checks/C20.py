#!/usr/bin/env python3-vt
"""C20: too few standards are reported; every determining set of standards
solves.

Monitor: standards of a pool are added one at a time in random order and
vnacal_new_solve is called after EVERY addition (the documented retry flow).
Each prefix is classified by an independent identifiability test
(pylib/identify.py: SVD of the documented matrix equation built with numpy):
  U  fewer (non-trivial) equations than unknown terms in some system
  D  every system determined (nullity 1, kappa <= 1e5) and every leakage cell
     observed
  G  anything else (nothing asserted except that the call returns)
U must fail with -1/EDOM and one MATH message; the first D prefix - and every
later one - must solve and correct an independent device.
"""
import os
import sys

import numpy as np

sys.path.insert(0, os.path.join(os.path.dirname(os.path.abspath(__file__)),
                                "..", "pylib"))
import calgen  # noqa: E402
import physics  # noqa: E402
import runner as R  # noqa: E402
from runner import Script, qs  # noqa: E402

PROP = "C20"
TOL = 1e-10
KMAX = 1e5


def classify(sc, stds):
    worst = 0.0
    under = False
    determined = True
    for f in range(sc.F):
        res, lk = sc.classify(f, stds)
        for a in res:
            if a["equations"] < a["unknowns"] - 1:
                under = True
            if a["nullity"] != 1 or not (a["kappa"] <= KMAX):
                determined = False
            else:
                worst = max(worst, a["kappa"])
        if not lk:
            determined = False
    if under:
        return "U", None
    if determined:
        return "D", worst
    return "G", None


DEBUG_META = {}


def sc_prefix(sc, steps, st):
    return [x["std"] for x in steps if x["n"] <= st["n"]]


def work(chunk_id, payload):
    seed, npools, binary, workroot = payload
    rng = np.random.default_rng([seed, chunk_id, 2020])
    part = dict(evaluations=0, counters={}, maxima={}, distinct=set(),
                samples=[], violations=[], inconclusive=[], harness_errors=[])
    cnt = part["counters"]

    def bump(k, n=1):
        cnt[k] = cnt.get(k, 0) + n
    cases, meta = [], {}
    shapes = {}
    for t in physics.TYPES:
        shapes[t] = [(r, c) for r in (1, 2, 3) for c in (1, 2, 3)
                     if physics.dims_ok(t, r, c) and
                     (r == c or (r, c) in ((1, 2), (2, 1)))]
    for k in range(npools):
        ctype = physics.TYPES[(chunk_id * 3 + k) % 8]
        r, c = shapes[ctype][int(rng.integers(0, len(shapes[ctype])))]
        if max(r, c) == 3 and ctype in ("T16", "U16") and rng.random() < 0.7:
            r = c = 2
        F = int(rng.choice([1, 1, 2]))
        sc = calgen.Scenario(ctype, r, c, F, rng)
        sc.prequery = rng.random() < 0.4
        if sc.prequery and rng.random() < 0.7:
            sc.offgrid = True
        # one-way family: multi-port standards whose zero pattern is not
        # reciprocal (isolator-like three-ports).  Such a standard makes some
        # cells the library counts as equations trivially 0 = 0, so "fewer
        # equations than unknowns" is not well defined for these pools: only
        # the determined side of the property is judged there.
        oneway = r == c == 3 and rng.random() < 0.5
        if oneway:
            sc.pre_sparse = int(rng.integers(1, 3))
        kit = (not oneway) and ctype in physics.LEAKAGE_OUTSIDE and \
            r == c == 2 and rng.random() < 0.5
        if kit:
            # characterised kit: every standard spans both ports and is
            # entered as a full S matrix with explicit zeros through
            # add_mapped_matrix; the reflect sets are the only leakage samples
            ports = [1, 2]
            for _ in range(int(rng.integers(2, 4))):
                sc.add_matrix(ports)
            for _ in range(int(rng.integers(3, 6))):
                sc.add_reflect(ports, [sc.rparam(1.0, False) for _q in ports])
            for st in sc.stds:
                st.form = sc.form
                st.entry = "mapped_matrix"
                st.full_rows = st.full_cols = True
                st.use_null_map = bool(rng.random() < 0.5)
            bump("kit_pools")
        else:
            sc.sufficient_recipe(extras=int(rng.integers(0, 3)))
            if sc.r != sc.c and sc.ctype in physics.LEAKAGE_OUTSIDE and \
                    rng.random() < 0.5:
                # measured on their own ports only wherever the API allows:
                # a leakage cell is then sampled only by the standards on
                # the other side of it
                sc.abbr_all = True
            sc.choose_entries()
        if not sc.well_determined(1e4)[0]:
            bump("pools_not_determining_skipped")
            continue
        # parameters of other users of the same vnacal_t, created before and
        # between the standards: the calibration's handles are sparse
        bursts = None
        if kit or rng.random() < 0.35:
            bursts = [int(x) for x in rng.integers(0, 14, 32)]
            bursts[0] = int(rng.integers(0, 45))
        order = list(rng.permutation(len(sc.stds)))
        # optional early insertion of the full-matrix leakage standards keeps
        # orders diverse; nothing else is arranged
        s = Script()
        sc.emit_header(s)
        s.op("vd=vnadata_alloc")
        uid = [0]
        steps = []
        prefix = []
        prev = None
        seenD = False
        nfail = 0
        for n, i in enumerate(order):
            st = sc.stds[i]
            if bursts:
                for j in range(bursts[n % len(bursts)]):
                    s.op("fz%d_%d=vnacal_make_scalar_parameter $vc %s" % (
                        n, j, R.cx(0.01 * (n + 1) + 0.02j * (j + 1))))
            ln_add = sc.emit_std(s, st, n, uid=uid)
            prefix.append(st)
            cls, kappa = classify(sc, prefix)
            ln_solve = s.op("vnacal_new_solve $vn")
            step = dict(n=n + 1, cls=cls, kappa=kappa, add=ln_add,
                        solve=ln_solve, failed_before=nfail, std=st)
            if cls == "D":
                step["addcal"] = s.op("ci=vnacal_add_calibration $vc %s $vn" %
                                      qs("k%d" % n))
                duts = sc.rand_dut()
                step["duts"] = duts
                step["apply"], step["dump"] = sc.emit_apply(
                    s, duts, "k", tag="d%d" % n)
                seenD = True
            else:
                if seenD:
                    step["after_D"] = True
                nfail += 1
            steps.append(step)
            # once determined, a few more additions are enough
            if seenD and sum(1 for x in steps if x["cls"] == "D") >= 3:
                break
        cid = "p%d_%d" % (chunk_id, k)
        cases.append((cid, s.text()))
        sc.oneway = oneway
        meta[cid] = (sc, steps)
    wd = os.path.join(workroot, "w%d" % chunk_id)
    results = R.run_cases(binary, cases, wd, timeout=1800, watchdog=60)
    DEBUG_META.update(meta)
    for cid, text in cases:
        res = results[cid]
        sc, steps = meta[cid]
        v, inc = R.standard_violations(res, text, PROP)
        part["violations"] += v
        part["inconclusive"] += inc
        if res.status != "ok":
            continue
        part["evaluations"] += 1

        def bad(what, desc):
            part["violations"].append(dict(
                key="%s:%s:%s" % (PROP, what, sc.ctype),
                desc="%s %dx%d F=%d form=%s: %s" % (
                    sc.ctype, sc.r, sc.c, sc.F, sc.form, desc),
                script=text))
        for st in steps:
            ea = res.ev(st["add"])
            es = res.ev(st["solve"])
            if ea is None or es is None or "ret" not in es:
                break
            if ea.get("ret") != 0:
                bad("add-refused", "valid standard refused: %s" % ea)
                break
            part["distinct"].add((sc.ctype, sc.r, sc.c, sc.form, st["cls"],
                                  st["n"], min(st["failed_before"], 3)))
            bump("solve_calls:" + st["cls"] + (":one-way" if sc.oneway
                                               else ""))
            if st["cls"] == "U" and sc.oneway:
                pass
            elif st["cls"] == "U":
                cbs = [c_ for c_ in es.get("cb", []) if c_[0] != "WARNING"]
                if es["ret"] != -1 or es.get("errno") != "EDOM":
                    det = [[(a["equations"], a["unknowns"], a["nullity"])
                            for a in sc.classify(f_, sc_prefix(sc, steps, st))[0]]
                           for f_ in range(sc.F)]
                    bad("underdetermined-accepted",
                        "solve with %d standards (fewer equations than "
                        "unknowns: %s) returned %s errno %s instead of "
                        "-1/EDOM" % (st["n"], det, es["ret"], es.get("errno")))
                elif len(cbs) != 1 or cbs[0][0] != "MATH":
                    bad("underdetermined-report",
                        "expected exactly one MATH message, got %s" % cbs)
            elif st["cls"] == "D":
                if es["ret"] != 0:
                    bad("determined-refused",
                        "standards %d..: set determines the error terms "
                        "(kappa %.3g) after %d failed attempts but solve "
                        "returned %s errno %s cb %s" % (
                            st["n"], st["kappa"], st["failed_before"],
                            es["ret"], es.get("errno"), es.get("cb")))
                    continue
                eap = res.ev(st["apply"])
                ed = res.ev(st["dump"])
                if eap is None or ed is None or "out" not in ed:
                    continue
                if eap.get("ret") != 0:
                    bad("apply-failed", str(eap))
                    continue
                p = sc.p
                worst = 0.0
                for f in range(sc.F):
                    got = np.array([complex(a, b) for a, b in
                                    ed["out"]["data"][f]]).reshape(p, p)
                    e = float(np.max(np.abs(got - st["duts"][f]))) \
                        if np.all(np.isfinite(got)) else float("inf")
                    worst = max(worst, e)
                rel = worst / (TOL * (1 + st["kappa"]))
                part["maxima"]["max_err_over_tol"] = max(
                    part["maxima"].get("max_err_over_tol", 0.0), rel)
                if st["failed_before"]:
                    bump("solved_after_failed_attempts")
                if not (rel <= 1.0):
                    bad("wrong-correction",
                        "after %d standards (kappa %.3g, %d failed attempts "
                        "before) the calibration corrects the device with "
                        "error %.3g" % (st["n"], st["kappa"],
                                        st["failed_before"], worst))
            else:
                if es["ret"] == -1 and es.get("errno") not in ("EDOM",):
                    bad("grey-errno", "solve failed with errno %s: %s" % (
                        es.get("errno"), es))
        if len(part["samples"]) < 1:
            part["samples"].append(dict(
                type=sc.ctype, rows=sc.r, cols=sc.c, form=sc.form,
                steps=[dict(n=x["n"], cls=x["cls"],
                            kappa=x["kappa"]) for x in steps]))
    return part


def main():
    chk = R.Check(PROP)
    binary = chk.build("asan")
    total = 1600 if chk.tier == "quick" else 8000
    total = max(16, int(total * chk.args.scale))
    nchunks = 16 if chk.tier == "quick" else 64
    per = max(1, total // nchunks)
    payloads = [(chk.seed, per, binary, chk.workroot) for _ in range(nchunks)]
    for part in R.pmap(work, payloads):
        chk.merge(part)
    chk.finish(
        rule="pool = a sufficient recipe (+0..2 extras) per type x shape "
             "(1x1..3x3, 1x2, 2x1) x m/ab; standards added in a random order "
             "with vnacal_new_solve after each addition; every prefix "
             "classified U/D/G by the independent identifiability test; "
             "D prefixes also apply a random DUT; a third of the pools with "
             "bursts of foreign parameters in the same vnacal_t (sparse "
             "handles), half of the 2x2 leakage-type pools characterised kits "
             "(full S matrices with explicit zeros); half of the 3x3 pools "
             "contain one or two three-port standards with a non-reciprocal "
             "zero pattern (only the determined side is judged there); "
             "distinct = distinct (type, "
             "rows, cols, form, class, prefix length, failed attempts before) "
             "tuples",
        min_events=10,
        assumptions=["identifiability classes come from numpy SVD of the "
                     "documented matrix equation on the true data",
                     "grey prefixes (enough equations, not determining, or "
                     "kappa > 1e5) are not asserted"])


if __name__ == "__main__":
    main()
