#!/usr/bin/env python3-vt
"""C08: equivalent spellings of a Touchstone / NPD file load to the same data.

pylib/tsnpd.py writes every ground truth in several spellings the formats
define as equivalent; the driver writes each to disk and loads it with
vnadata_load / vnadata_fload; the offline checker compares the dump of the
loaded object with the ground truth.  The oracle never calls libvna.
"""
import math
import os
import zlib
import sys

import numpy as np

sys.path.insert(0, os.path.join(os.path.dirname(os.path.abspath(__file__)),
                                "..", "pylib"))
import netparams as NP  # noqa: E402
import runner as R  # noqa: E402
import tsnpd as TS  # noqa: E402

PROP = "C08"
TOL_RI = 1.0e-12
TOL_POLAR = 1.0e-10
TOL_F = 1.0e-12
TYPE_CODE = {"S": 1, "T": 2, "U": 3, "Z": 4, "Y": 5, "H": 6, "G": 7, "A": 8,
             "B": 9, "ZIN": 10}
CODE_TYPE = {v: k for k, v in TYPE_CODE.items()}
TWO_PORT = ("T", "U", "H", "G", "A", "B")


def wchoice(rng, items, weights):
    w = np.asarray(weights, dtype=float)
    return items[int(rng.choice(len(items), p=w / w.sum()))]


def gen_freqs(rng, F):
    mode = int(rng.integers(0, 3))
    if mode == 0:
        start = float(wchoice(rng, [1e3, 1e6, 1e8, 1e9, 2.4e9, 300e3],
                              [1, 2, 2, 3, 1, 1]))
        step = start * float(wchoice(rng, [0.1, 0.5, 1.0, 10.0], [1, 1, 1, 1]))
        fr = [start + i * step for i in range(F)]
    elif mode == 1:
        fr = sorted(float(10 ** rng.uniform(1, 11)) for _ in range(F))
    else:
        f0 = float(10 ** rng.uniform(2, 10))
        fr = [f0]
        for _ in range(F - 1):
            fr.append(fr[-1] * (1 + float(10 ** rng.uniform(-4, 0.5))))
    if rng.random() < 0.05:
        fr[0] = 0.0
    if any(not b > a * (1 + 1e-9) for a, b in zip(fr, fr[1:])):
        fr = [1e6 * (i + 1) for i in range(F)]
    return fr


def gen_network(rng, ptype, n, z0, symmetric):
    """generic network as a matrix of type ptype (via a random S)"""
    for _ in range(20):
        s = (rng.standard_normal((n, n)) + 1j * rng.standard_normal((n, n))) \
            * rng.uniform(0.05, 0.5) / math.sqrt(n)
        if symmetric:
            s = (s + s.T) / 2
        if ptype == "S":
            return s
        try:
            m = NP.convert("S", ptype, s, np.asarray(z0, dtype=complex))
        except np.linalg.LinAlgError:
            continue
        if np.all(np.isfinite(m)) and np.min(np.abs(m)) > 0:
            if symmetric and ptype in ("Z", "Y"):
                m = (m + m.T) / 2
            return m
    raise RuntimeError("cannot draw a network")


# ----------------------------------------------------------------------
# Touchstone classes
# ----------------------------------------------------------------------
def gen_ts_class(rng, idx):
    ptype = wchoice(rng, ["S", "Z", "Y", "H", "G"], [45, 17, 16, 11, 11])
    if ptype in ("H", "G"):
        n = 2
    else:
        n = int(wchoice(rng, [1, 2, 3, 4, 5, 6, 7, 8],
                        [12, 26, 16, 18, 8, 8, 6, 6]))
    F = int(wchoice(rng, [1, 2, 3, 4], [2, 4, 3, 2]))
    equal = n == 1 or rng.random() < 0.7
    if equal:
        r = wchoice(rng, [50.0, 75.0, 1.0, None], [5, 1, 1, 3])
        r = float(r) if r is not None else float(
            "%.6g" % 10 ** rng.uniform(0, 3))
        z0 = [r] * n
    else:
        z0 = [float("%.6g" % 10 ** rng.uniform(0.5, 2.5)) for _ in range(n)]
        if z0[0] == z0[1]:
            z0[1] = z0[0] + 1.0
    symmetric = ptype in ("S", "Z", "Y") and rng.random() < 0.45
    freqs = gen_freqs(rng, F)
    data = [gen_network(rng, ptype, n, z0, symmetric) for _ in range(F)]
    gt = dict(family="ts", ptype=ptype, ports=n, freqs=freqs, z0=z0,
              data=data, symmetric=symmetric, equal=equal)
    noise_ok = n == 2
    members = []
    nmem = int(rng.integers(4, 8))
    # make sure the interesting spellings occur in every class that allows them
    forced = []
    if equal and n <= 4:
        forced.append(dict(version=1))
        forced.append(dict(version=2))
    if symmetric:
        forced.append(dict(version=2, matrix_format=wchoice(
            rng, ["UPPER", "LOWER"], [1, 1])))
    if n == 2:
        forced.append(dict(version=2, two_port_order="21_12"))
    for k in range(nmem):
        force = forced[k] if k < len(forced) else {}
        members.append(gen_ts_member(rng, gt, idx, k, force, noise_ok))
    return gt, members


def gen_ts_member(rng, gt, idx, k, force, noise_ok):
    n = gt["ports"]
    can_v1 = gt["equal"] and n <= 4
    version = force.get("version", 1 if (can_v1 and rng.random() < 0.45)
                        else 2)
    unit = wchoice(rng, ["HZ", "KHZ", "MHZ", "GHZ"], [1, 1, 1, 1])
    coord = wchoice(rng, ["RI", "MA", "DB"], [2, 1, 1])
    order = [["unit", "param", "format", "R"][i] for i in rng.permutation(4)] \
        if rng.random() < 0.6 else None
    omit = rng.random() < 0.5
    st = dict(version=version, unit=unit, coord=coord, option_order=order,
              omit_defaults=omit)
    st["numstyle"] = wchoice(rng, ["r", "e", "E", "g"], [3, 1, 1, 1])
    level = float(wchoice(rng, [0.0, 1.0, 2.0], [2, 5, 2]))
    st["decor"] = TS.Decor(rng, "!", level)
    st["crlf"] = rng.random() < 0.08
    desc = ["v%d" % version, unit, coord]
    if version == 2:
        if n == 2:
            st["two_port_order"] = force.get(
                "two_port_order", wchoice(rng, ["12_21", "21_12"], [1, 1]))
            desc.append(st["two_port_order"])
        mf = force.get("matrix_format")
        if mf is None:
            mf = "FULL"
            if gt["symmetric"] and rng.random() < 0.5:
                mf = wchoice(rng, ["UPPER", "LOWER"], [1, 1])
        st["matrix_format"] = mf
        desc.append(mf.lower())
        st["reference"] = True if (not gt["equal"] or rng.random() < 0.3) \
            else False
        if st["reference"]:
            desc.append("reference")
        if rng.random() < 0.5:
            st["keyword_order"] = lambda m, rng=rng: list(rng.permutation(m))
            desc.append("kw-permuted")
    noise = None
    if noise_ok and rng.random() < 0.3:
        nn = int(rng.integers(1, 4))
        # Touchstone 1: the first noise frequency is not above the last
        # network frequency (that is how the block is recognised)
        f_hi = gt["freqs"][-1]
        f0 = gt["freqs"][0] if gt["freqs"][0] > 0 else f_hi * 0.5
        base = min(f0, f_hi) if f_hi > 0 else 1.0
        nf = [base * (1 + 0.37 * i) for i in range(nn)]
        noise = [(f, float("%.4g" % rng.uniform(0.2, 6)),
                  float("%.4g" % rng.uniform(0.05, 0.9)),
                  float("%.4g" % rng.uniform(-170, 170)),
                  float("%.4g" % rng.uniform(0.05, 2))) for f in nf]
        desc.append("noise")
    st["noise"] = noise
    if order:
        desc.append("opt:" + "".join(o[0] for o in order))
    if omit:
        desc.append("defaults-omitted")
    if st["crlf"]:
        desc.append("crlf")
    data = TS.write_touchstone(gt, **st)
    base = "q%dm%d" % (idx, k)
    r = rng.random()
    if version == 1:
        ext = ".s%dp" % n if r < 0.7 else (".ts" if r < 0.85 else "")
    else:
        ext = ".ts" if r < 0.75 else (".s%dp" % n if (r < 0.88 and n <= 9)
                                      else "")
    ft = None
    if ext == "":
        ft = int(wchoice(rng, [1, 2], [1, 1]))
        ext = wchoice(rng, ["", ".dat"], [1, 1])
    use_fload = rng.random() < 0.3
    return dict(name=base + ext, bytes=data, ft=ft, fload=use_fload,
                coord=coord, kind="ts%d" % version, desc=" ".join(desc),
                unit=unit, shape=("ts%d" % version) + (
                    ":" + st.get("matrix_format", "FULL").lower()
                    if version == 2 and st.get("matrix_format", "FULL") != "FULL"
                    else "") + (":21_12" if st.get("two_port_order") == "21_12"
                                else ""))


# ----------------------------------------------------------------------
# NPD classes
# ----------------------------------------------------------------------
def gen_npd_class(rng, idx):
    xtype = wchoice(rng, ["S", "Z", "Y", "T", "U", "H", "G", "A", "B", "ZIN"],
                    [30, 10, 10, 6, 6, 6, 6, 6, 6, 14])
    n = 2 if xtype in TWO_PORT else int(wchoice(rng, [1, 2, 3, 4, 5],
                                                [2, 4, 3, 2, 1]))
    F = int(wchoice(rng, [1, 2, 3], [2, 3, 2]))
    freqs = gen_freqs(rng, F)
    if freqs[0] == 0.0:
        freqs[0] = freqs[1] / 2 if F > 1 else 1e6
    zk = wchoice(rng, ["equal", "unequal", "complex", "perf"], [3, 2, 3, 3])
    fz0 = None
    if zk == "equal":
        z0 = [complex(float(wchoice(rng, [50.0, 75.0, 10.0], [3, 1, 1])))] * n
    elif zk == "unequal":
        z0 = [complex(float("%.5g" % 10 ** rng.uniform(1, 2.5)))
              for _ in range(n)]
    elif zk == "complex":
        z0 = [complex(float(10 ** rng.uniform(1, 2.5)),
                      float(rng.uniform(-40, 40))) for _ in range(n)]
    else:
        z0 = None
        fz0 = [[complex(float(10 ** rng.uniform(1, 2.5)),
                        float(rng.uniform(-40, 40))) for _ in range(n)]
               for _ in range(F)]
    data = []
    sdata = []
    zin = []
    for fi in range(F):
        z = np.asarray(fz0[fi] if fz0 is not None else z0, dtype=complex)
        for _ in range(200):
            s = (rng.standard_normal((n, n)) + 1j * rng.standard_normal((n, n)))\
                * rng.uniform(0.05, 0.45) / math.sqrt(n)
            try:
                zi = NP.zin("S", s, z)
                m = s if xtype in ("S", "ZIN") else NP.convert("S", xtype, s, z)
            except np.linalg.LinAlgError:
                continue
            ok = np.all(np.isfinite(m)) and np.all(np.isfinite(zi)) and \
                np.min(np.abs(zi.real)) > 1e-2 * np.max(np.abs(zi)) and \
                np.min(np.abs(zi.imag)) > 1e-2 * np.max(np.abs(zi)) and \
                np.min(np.abs(s)) > 1e-6 and np.max(np.abs(np.diag(s))) < 0.9
            if ok:
                break
        else:
            # this configuration rarely yields a network with input
            # impedances well away from the axes: draw another class
            return gen_npd_class(rng, idx)
        sdata.append(s)
        zin.append(zi)
        data.append(zi.reshape(1, n) if xtype == "ZIN" else m)
    gt = dict(family="npd", ptype=xtype, ports=n, freqs=freqs, z0=z0, fz0=fz0,
              data=data, zkind=zk)
    members = []
    nmem = int(rng.integers(4, 7))
    for k in range(nmem):
        members.append(gen_npd_member(rng, gt, sdata, zin, idx, k))
    return gt, members


def gen_npd_member(rng, gt, sdata, zin, idx, k):
    xtype, n = gt["ptype"], gt["ports"]
    if xtype == "ZIN":
        prim = wchoice(rng, ["Zinri", "Zinma", "Zin", "PRC", "PRL", "SRC", "SRL"],
                       [3, 2, 1, 1, 1, 1, 1])
    else:
        coords = ["ri", "ma", ""] + (["dB"] if xtype in ("S", "T", "U") else [])
        prim = xtype + coords[int(rng.integers(0, len(coords)))]
    extras = ["RL", "VSWR"] + (["IL"] if n >= 2 else [])
    specs = [prim]
    for _ in range(int(wchoice(rng, [0, 1, 2], [5, 3, 2]))):
        e = extras[int(rng.integers(0, len(extras)))]
        if rng.random() < 0.5:
            specs.insert(0, e)
        else:
            specs.append(e)
    spelled = []
    for s in specs:
        r = rng.random()
        spelled.append(s if r < 0.5 else (s.upper() if r < 0.75 else s.lower()))
    blocks = []
    for fi, f in enumerate(gt["freqs"]):
        row = []
        for s in specs:
            sp = TS.parse_spec(s)
            src = sp.source()
            m = sdata[fi] if src == "S" else (None if src == "ZIN"
                                              else gt["data"][fi])
            row.append(TS.derive_fields(sp, n, m, zin[fi], f))
        blocks.append(row)

    def permute(hdr, rng=rng):
        # "#:ports" stays ahead of "#:z0": the loader documents that order
        # in its diagnostics ("ports must come before #:z0")
        for _ in range(50):
            p = [hdr[i] for i in rng.permutation(len(hdr))]
            names = [a for a, _ in p]
            if "z0" not in names or \
                    names.index("ports") < names.index("z0"):
                return p
        return hdr
    level = float(wchoice(rng, [0.0, 1.0, 2.0], [2, 5, 2]))
    numstyle = wchoice(rng, ["r", "e", "g", "hex"], [3, 1, 1, 1])
    data = TS.write_npd(gt, spelled, blocks,
                        header_order=permute if rng.random() < 0.7 else None,
                        numstyle=numstyle, decor=TS.Decor(rng, "#", level),
                        with_key=rng.random() < 0.3,
                        extra_header=rng.random() < 0.6,
                        omit_default_z0=rng.random() < 0.6)
    r = rng.random()
    ext = ".npd" if r < 0.7 else wchoice(rng, ["", ".dat"], [1, 1])
    ft = None
    if ext != ".npd" and rng.random() < 0.5:
        ft = 3
    psp = TS.parse_spec(prim)
    return dict(name="q%dm%d%s" % (idx, k, ext), bytes=data, ft=ft,
                fload=rng.random() < 0.3, coord=psp.form, kind="npd",
                desc="npd %s %s" % (",".join(spelled), numstyle), unit="HZ",
                shape="npd:" + "+".join(sorted(set(
                    TS.parse_spec(s).form for s in specs))))


# ----------------------------------------------------------------------
USED = ["vnadata_init $vd Z 1 1 2\nvnadata_set_frequency_vector $vd auto\n"
        "vnadata_set_matrix $vd 0 auto\nvnadata_set_all_z0 $vd 0x1.9p+6 0x1p+2",
        "vnadata_init $vd S 3 3 1\nvnadata_set_matrix $vd 0 auto\n"
        "vnadata_set_fz0 $vd 0 2 0x1.2cp+6 0x1p+1",
        "vnadata_init $vd H 2 2 5\nvnadata_set_frequency_vector $vd auto\n"
        "vnadata_set_matrix $vd 4 auto\nvnadata_set_z0 $vd 1 0x1.2cp+6 0x0p+0",
        "vnadata_init $vd ZIN 1 6 7\nvnadata_set_frequency_vector $vd auto\n"
        "vnadata_set_fz0 $vd 3 1 0x1.2cp+6 0x1p+1\n"
        "vnadata_set_fz0 $vd 0 0 0x1p+3 0x0p+0"]


def build_script(m):
    s = R.Script()
    L = {}
    s.op("write_file", R.qs(m["name"]), R.qs(m["bytes"]))
    s.op("vd=vnadata_alloc")
    used = zlib.crc32(m["name"].encode()) % 10
    if used < len(USED):
        # the destination held something else before: other type and
        # dimensions, more frequencies, other (per-frequency) impedances
        for ln in USED[used].split("\n"):
            s.op(ln)
        m["used"] = used
    if m["ft"] is not None:
        s.op("vnadata_set_filetype", "$vd", m["ft"])
    if m["fload"]:
        L["load"] = s.op("vnadata_fload", "$vd", R.qs(m["name"]))
    else:
        L["load"] = s.op("vnadata_load", "$vd", R.qs(m["name"]))
    L["dump"] = s.op("dump_vnadata", "$vd")
    s.op("unlink", R.qs(m["name"]))
    m["lines"] = L
    return s.text()


def judge_member(gt, m, res, text, part):
    cnt = part["counters"]

    def bump(k, v=1):
        cnt[k] = cnt.get(k, 0) + v

    def viol(what, shape, desc):
        part["violations"].append(dict(
            key="%s:%s:%s" % (PROP, what, shape),
            desc="%s\nspelling: %s (%s)\nground truth: %s %d ports, %d "
                 "frequencies, z0 %s\n--- file ---\n%s" % (
                     desc, m["desc"], m["name"], gt["ptype"], gt["ports"],
                     len(gt["freqs"]), gt.get("z0") or "per-frequency",
                     m["bytes"][:700].decode("latin-1")),
            script=text))

    el = res.ev(m["lines"]["load"])
    ed = res.ev(m["lines"]["dump"])
    if el is None or "ret" not in el:
        return False
    bump("members_loaded")
    bump("kind:" + m["kind"])
    words = m["desc"].split()
    if m["kind"] == "npd":
        words = ["npd", "npd-numbers:" + words[-1]]
    for w in words:
        if not w.startswith("opt:"):
            bump("spelling:" + w)
    fn = "vnadata_fload" if m["fload"] else "vnadata_load"
    if el["ret"] != 0:
        msg = el["cb"][0][1] if el.get("cb") else ""
        msg = msg.split(") error: ")[-1] if ") error: " in msg else msg
        viol("load-fails", "%s:%s" % (m["kind"], R._norm_msg(msg)[:48]),
             "%s returned %s: %s" % (fn, el["ret"], el.get("cb")))
        return False
    if ed is None or "out" not in ed:
        return False
    d = ed["out"]
    n = gt["ports"]
    F = len(gt["freqs"])
    ltype = CODE_TYPE.get(d["type"], "?")
    if ltype != gt["ptype"]:
        viol("wrong-type", m["kind"], "loaded type %s, expected %s" % (
            ltype, gt["ptype"]))
        return False
    rows = 1 if ltype == "ZIN" else n
    if (d["rows"], d["cols"], d["F"]) != (rows, n, F):
        viol("wrong-dimensions", m["kind"], "loaded %dx%d with %d frequencies, "
             "expected %dx%d with %d" % (d["rows"], d["cols"], d["F"], rows, n,
                                         F))
        return False
    for fi in range(F):
        f = gt["freqs"][fi]
        if not abs(float(d["freq"][fi]) - f) <= TOL_F * abs(f):
            viol("wrong-frequency", "%s:%s" % (m["kind"], m["unit"].lower()),
                 "frequency %d loaded as %r, expected %r Hz" % (
                     fi, d["freq"][fi], f))
            return False
    if gt.get("fz0") is not None:
        if not d["has_fz0"]:
            viol("wrong-z0", m["kind"] + ":per-frequency",
                 "per-frequency z0 not loaded")
            return False
        got = [[complex(*z) for z in row] for row in d["fz0"]]
        want = gt["fz0"]
    else:
        if d["has_fz0"]:
            viol("wrong-z0", m["kind"], "loaded object has per-frequency z0")
            return False
        got = [[complex(*z) for z in d["z0"]]]
        want = [[complex(z) for z in gt["z0"]]]
    for grow, wrow in zip(got, want):
        for g, w in zip(grow, wrow):
            if not abs(g - w) <= TOL_RI * abs(w):
                viol("wrong-z0", m["kind"], "z0 loaded as %s, expected %s" % (
                    got, want))
                return False
    tol = TOL_RI if m["coord"] == "RI" else TOL_POLAR
    worst = 0.0
    for fi in range(F):
        g = np.array([complex(*z) for z in d["data"][fi]], dtype=complex)
        w = np.asarray(gt["data"][fi], dtype=complex).reshape(-1)
        err = np.abs(g - w) / np.abs(w)
        worst = max(worst, float(np.max(err)))
        if not np.all(err <= tol):
            k = int(np.argmax(err))
            viol("wrong-value", "%s:%s%s" % (m["shape"], gt["ptype"],
                                              m["coord"].lower()),
                 "frequency %d cell %d loaded as %s, ground truth %s (relative "
                 "error %.3g, allowed %.1g)\nloaded %s\ntruth  %s" % (
                     fi, k, g[k], w[k], err[k], tol, g[:8], w[:8]))
            return False
    key = "max_rel_error:" + ("ri" if m["coord"] == "RI" else "polar")
    part["maxima"][key] = max(part["maxima"].get(key, 0.0), worst)
    bump("members_equal_to_ground_truth")
    return True


def run_chunk(chunk_id, payload):
    seed, tier, nclasses, binary, workroot = payload
    rng = np.random.default_rng([seed, chunk_id, 808])
    part = dict(evaluations=0, counters={}, maxima={}, distinct=set(),
                samples=[], violations=[], inconclusive=[], harness_errors=[])
    cases = []
    meta = {}
    classes = []
    for i in range(nclasses):
        idx = chunk_id * 100000 + i
        if rng.random() < 0.78:
            gt, members = gen_ts_class(rng, idx)
        else:
            gt, members = gen_npd_class(rng, idx)
        classes.append((gt, members))
        for k, m in enumerate(members):
            text = build_script(m)
            cid = "q%d.%d" % (idx, k)
            cases.append((cid, text))
            meta[cid] = (gt, m, text)
    wd = os.path.join(workroot, "w%d" % chunk_id)
    results = R.run_cases(binary, cases, wd, timeout=1800)
    ok_by_class = {}
    for cid, text in cases:
        res = results[cid]
        gt, m, _ = meta[cid]
        v, inc = R.standard_violations(res, text, PROP)
        part["violations"] += v
        part["inconclusive"] += inc
        try:
            ok = judge_member(gt, m, res, text, part)
        except Exception:
            import traceback
            part["harness_errors"].append("judge %s: %s" % (
                cid, traceback.format_exc()[-1200:]))
            ok = False
        ok_by_class.setdefault(id(gt), []).append(ok)
    for gt, members in classes:
        part["evaluations"] += 1
        part["counters"]["spellings"] = part["counters"].get("spellings", 0) + \
            len(members)
        if all(ok_by_class.get(id(gt), [False])):
            part["counters"]["classes_all_members_equal"] = \
                part["counters"].get("classes_all_members_equal", 0) + 1
        part["distinct"].add((gt["family"], gt["ptype"], gt["ports"],
                              len(gt["freqs"]),
                              tuple(sorted(m["desc"] for m in members))))
        if len(part["samples"]) < 1:
            part["samples"].append(dict(
                ground_truth="%s %s %d ports %d frequencies" % (
                    gt["family"], gt["ptype"], gt["ports"], len(gt["freqs"])),
                spellings=[m["desc"] for m in members],
                first_member=members[0]["bytes"][:300].decode("latin-1")))
    return part


def main():
    chk = R.Check(PROP)
    binary = chk.build("asan")
    total = 2000 if chk.tier == "quick" else 20000
    total = max(16, int(total * chk.args.scale))
    nchunks = 16 if chk.tier == "quick" else 64
    per = (total + nchunks - 1) // nchunks
    payloads = [(chk.seed, chk.tier, per, binary, chk.workroot)
                for _ in range(nchunks)]
    for part in R.pmap(run_chunk, payloads):
        chk.merge(part)
    spell = {}
    for k in list(chk.counters):
        if k.startswith("spelling:"):
            spell[k[9:]] = chk.counters.pop(k)
    chk.finish(
        rule="one evaluation = one equivalence class: a ground truth (S/Z/Y/H/G "
             "1..8 ports for Touchstone; any type incl. Zin, complex and "
             "per-frequency z0 for NPD) written by pylib/tsnpd.py in 4..7 "
             "spellings: Touchstone 1 and 2 framing, units Hz/kHz/MHz/GHz, "
             "RI/MA/DB, option-line fields permuted or defaulted, 21_12 / "
             "12_21, Full/Upper/Lower for symmetric data, [Reference], "
             "permuted keywords, noise blocks, comments, blank lines, spacing, "
             "case, CRLF, number spellings; NPD header order, extra scalar "
             "blocks, hex floats. Every member is loaded (vnadata_load or "
             "vnadata_fload, type from the name or vnadata_set_filetype) and "
             "must equal the ground truth: type, dimensions, frequencies "
             "(1e-12), z0, values (1e-12 RI, 1e-10 MA/DB). distinct = distinct "
             "(family, type, ports, frequencies, set of spellings).",
        min_events=total // 2,
        assumptions=[
            "Touchstone 1.1/2.0 as published by the IBIS Open Forum; NPD from "
            "vnadata(3) and the header libvna writes",
            "NPD header lines are permuted with '#:ports' kept ahead of "
            "'#:z0' (the loader diagnoses the other order explicitly); NPD "
            "keywords are kept in lower case",
            "noise data are not part of vnadata_t: only their being skipped "
            "is checked"],
        extra=dict(members_by_spelling_feature=spell))


if __name__ == "__main__":
    main()
