#!/usr/bin/env python3-vt
"""C13: the vnaproperty tree behaves like a map/list/scalar document.

Monitor: the real vnaproperty_* / vnacal_property_* functions are driven by
scripts (harness/vnadrv.c) under ASan/UBSan/LSan with `prop_autohash 1`, so
that every operation's event carries the return value, errno and a 64-bit hash
of the canonical dump made through the public getters.  The offline checker
replays the same operations on the abstract document of pylib/docmodel.py
(written from vnaproperty(3)) and compares return value, errno class and tree
hash after *every* operation.  On a mismatch the sequence is replayed with full
dumps (and long histories are shrunk) to produce the witness.

Parts:
  A  bounded-exhaustive: every sequence of 4 operations over ALPHABET from the
     START trees (thorough), a stratified sample of them (quick); a sample of
     the same sequences through vnacal_property_* on the global root
  B  random histories of ~200 operations (two roots, copy in both directions)
  C  random histories through vnacal_property_* (ci = -1) + copy into the root
  D  every entry point x malformed / mismatching descriptor x start tree
  E  vnaproperty_quote_key on arbitrary valid UTF-8 keys, used as a descriptor
     component
"""
import hashlib
import os
import random
import sys

sys.path.insert(0, os.path.join(os.path.dirname(os.path.abspath(__file__)),
                                "..", "pylib"))
import docmodel as M  # noqa: E402
import runner as R  # noqa: E402

PROP = "C13"
HEADER_PLAIN = "prop_autohash 1"
# every library call is entered with errno holding a value no call produces
# (what an unrelated earlier failure leaves behind); a call that does not
# touch errno is reported as errno 0
HEADER_PRESET = "prop_autohash 1 4242"
# ... or ERANGE, which successful libm / strtod calls leave behind
HEADER_ERANGE = "prop_autohash 1 34"
HEADER = HEADER_PLAIN


def run_cases(binary, cases, wd, timeout=900):
    """R.run_cases, retried while the shared driver binary is being relinked
    by a concurrent build (exec fails with EACCES/ETXTBSY/ENOENT)"""
    import time
    for attempt in range(60):
        try:
            return R.run_cases(binary, cases, wd, timeout=timeout)
        except OSError:
            if attempt == 59:
                raise
            time.sleep(1.0)


# ----------------------------------------------------------------------
# steps, rendering
# ----------------------------------------------------------------------
# a step is (op, var, arg): op in new/set/set_subtree/delete/copy/type/count/
# keys/get/get_subtree; var is a root name ("p", "q": vnaproperty_t roots,
# "vc...": the global root of a vnacal_t); arg is the descriptor text (bytes)
# or, for copy, the name of the source root.
def isvc(var):
    return var.startswith("vc")


def fn_name(op, var):
    if op == "copy":
        return "vnacal_property_set_subtree+vnaproperty_copy" if isvc(var) \
            else "vnaproperty_copy"
    return ("vnacal_property_" if isvc(var) else "vnaproperty_") + op


def render(steps, with_dumps=False):
    """-> (lines, meta) ; meta[i] = (result line, hash line or None), 1-based
    within the returned lines"""
    lines = []
    meta = []
    for op, var, arg in steps:
        vc = isvc(var)
        if op == "new":
            lines.append("%s=%s" % (var, "vnacal_create" if vc else "proot"))
            meta.append((len(lines), None))
            continue
        if op == "copy":
            if vc:
                lines.append('vnacal_property_set_subtree $%s -1 "." $%s' % (
                    var, arg))
                r = len(lines)
                lines.append('vnacal_property_type $%s -1 "."' % var)
                h = len(lines)
            else:
                lines.append("vnaproperty_copy $%s $%s" % (var, arg))
                r = h = len(lines)
        elif vc:
            lines.append("vnacal_property_%s $%s -1 %s" % (op, var, R.qs(arg)))
            r = len(lines)
            if op == "set_subtree":
                lines.append('vnacal_property_type $%s -1 "."' % var)
                h = len(lines)
            elif op == "get_subtree":
                h = None
            else:
                h = r
        else:
            lines.append("vnaproperty_%s $%s %s" % (op, var, R.qs(arg)))
            r = len(lines)
            h = None if op == "get_subtree" else r
        if with_dumps:
            lines.append(("dump_vnacal_property $%s -1" if vc
                          else "dump_property $%s") % var)
        meta.append((r, h))
    return lines, meta


def build_steps(var, doc):
    """steps that build `doc` in the (empty) root `var` through the API"""
    out = []

    def rec(path, node):
        if isinstance(node, dict):
            if not node:
                out.append(("set_subtree", var, (path or b".") + b"{}"
                            if path else b"{}"))
            for k, v in node.items():
                rec((path + b"." if path else b"") + M.quote(k), v)
        elif isinstance(node, list):
            if not node:
                out.append(("set_subtree", var, path + b"[]"))
            for i, v in enumerate(node):
                rec(path + b"[%d]" % i, v)
        elif node is None:
            if path:
                out.append(("set", var, path + b"#"))
        else:
            out.append(("set", var, (path or b".") + b"=" + node))
    rec(b"", doc)
    return out


# ----------------------------------------------------------------------
# cached model
# ----------------------------------------------------------------------
class State(object):
    __slots__ = ("doc", "key", "hash")


class Model(object):
    def __init__(self):
        self.states = {}
        self.cache = {}

    def state(self, doc):
        key = M.canon(doc, True)
        s = self.states.get(key)
        if s is None:
            s = State()
            s.doc = doc
            s.key = key
            s.hash = "%016x" % M.fnv1a(key)
            self.states[key] = s
        return s

    def step(self, st, op, arg):
        """arg: bytes, or for copy the source State"""
        ck = (st.key, op, arg.key if op == "copy" else arg)
        r = self.cache.get(ck)
        if r is None:
            outs = M.apply(st.doc, op, arg.doc if op == "copy" else arg)
            if outs is M.UNSPECIFIED:
                r = outs
            else:
                r = [(o.ret, o.errnos, self.state(o.doc), o.sub, o.note)
                     for o in outs]
            self.cache[ck] = r
        return r


def shape(op, arg):
    """stable class of a descriptor for violation keys"""
    if op == "copy":
        return "tree"
    try:
        d = M.parse(arg, 0)
    except M.Malformed:
        return "malformed"
    k = d.last_kind()
    rest = arg[d.end:]
    if op == "set":
        if rest[:1] == b"=":
            return k
        if rest == b"#":
            return k + "#"
        return "junk-after-descriptor"
    return "junk-after-descriptor" if rest else k


def obs_ret(op, ev):
    """normalise the event's return value to the model's convention"""
    r = ev.get("ret")
    if op == "get":
        return None if r is None else r.encode("latin-1")
    if op == "keys":
        if r is None:
            return None
        ks = [k.encode("latin-1") for k in r]
        if len(set(ks)) != len(ks):
            return ("duplicate keys", tuple(ks))
        return frozenset(ks)
    return r


def judge_step(op, var, outs, ev, hev):
    """-> (index of the matching outcome, None) or (None, (what, detail))"""
    vc = isvc(var)
    if op == "copy" and vc:
        # vnacal_property_set_subtree "." + vnaproperty_copy in the driver
        o = ev.get("out") or {}
        ret = 0 if (ev.get("ret") == "addr" and o.get("set_rc") == 0) else -1
        err = o.get("set_errno", ev.get("errno"))
    else:
        ret = obs_ret(op, ev)
        err = ev.get("errno")
    if hev is None:
        h = None
    elif op == "get_subtree":
        h = None
    else:
        h = hev.get("out")
        if isinstance(h, dict) or h is None:
            h = "(no hash in event)"
    cands = [i for i, o in enumerate(outs) if o[0] == ret]
    if not cands:
        return None, ("wrong-return", "returned %r, model expects %s" % (
            ret, " or ".join(repr(o[0]) for o in outs)))
    fail = M.FAILRET.get(op, -1)
    c2 = []
    for i in cands:
        o = outs[i]
        if o[0] == fail and o[1] is not None and err not in o[1]:
            continue
        c2.append(i)
    if not c2:
        return None, ("wrong-errno", "returned %r with errno %s, model expects"
                      " errno in %s" % (ret, err, " / ".join(
                          str(sorted(outs[i][1])) for i in cands)))
    if op == "get_subtree":
        c3 = []
        for i in c2:
            if outs[i][0] is None:
                c3.append(i)
                continue
            got = M.from_dump(ev.get("out"))
            if got == outs[i][3]:
                c3.append(i)
        if not c3:
            return None, ("wrong-subtree", "get_subtree returned %s, model "
                          "expects %s" % (ev.get("out"),
                                          M.show(outs[c2[0]][3])))
        return c3[0], None
    if h is None:
        return c2[0], None
    for i in c2:
        if outs[i][2].hash == h:
            return i, None
    return None, ("tree", "tree after the call differs from the model "
                  "(hash %s, model %s = %s)" % (
                      h, outs[c2[0]][2].hash, M.show(outs[c2[0]][2].doc)))


def judge_seq(model, steps, meta, res, off, part, st=None):
    """walk one sequence.  `st` (root name -> State) carries roots that were
    created earlier in the same case.  Returns None when everything matched,
    else (index of the failing step, key, text)."""
    if st is None:
        st = {}
    cnt = part["counters"]
    for idx, (op, var, arg) in enumerate(steps):
        r, h = meta[idx]
        ev = res.ev(off + r)
        if op == "new":
            st[var] = model.state(None)
            if ev is None:
                cnt["steps_not_executed"] = \
                    cnt.get("steps_not_executed", 0) + len(steps) - idx
                return None
            continue
        hev = res.ev(off + h) if h is not None else None
        if ev is None or "skipped" in ev or (h is not None and hev is None) \
                or var not in st or (op == "copy" and arg not in st):
            cnt["steps_not_executed"] = \
                cnt.get("steps_not_executed", 0) + len(steps) - idx
            return None
        cur = st[var]
        outs = model.step(cur, op, st[arg] if op == "copy" else arg)
        if outs is M.UNSPECIFIED:
            cnt["unspecified_ops"] = cnt.get("unspecified_ops", 0) + 1
            return None
        i, bad = judge_step(op, var, outs, ev, hev)
        part["evaluations"] += 1
        if part.get("_distinct_on", True):
            part["distinct"].add(hashlib.blake2b(
                cur.key + b"\0" + op.encode() + b"\0" +
                (st[arg].key if op == "copy" else arg),
                digest_size=8).digest())
        if bad is not None:
            what, detail = bad
            if what == "tree":
                if op not in M.MODIFYING:
                    what = "query-changed-tree"
                elif all(o[2] is cur and o[0] == M.FAILRET[op] for o in outs):
                    what = "failed-call-changed-tree"
                else:
                    what = "wrong-tree"
            key = "%s:%s:%s:%s" % (PROP, what, fn_name(op, var),
                                   shape(op, arg))
            return idx, key, detail
        st[var] = outs[i][2]
    return None


# ----------------------------------------------------------------------
# witness production
# ----------------------------------------------------------------------
def run_one(binary, wd, steps, with_dumps=True):
    lines, meta = render(steps, with_dumps)
    text = HEADER + "\n" + "\n".join(lines) + "\n"
    res = run_cases(binary, [("w", text)], wd, timeout=120)["w"]
    return text, lines, meta, res


def failing_key(binary, wd, steps):
    """run `steps` alone; -> (key, idx) of the first model mismatch or None"""
    lines, meta = render(steps, False)
    text = HEADER + "\n" + "\n".join(lines) + "\n"
    res = run_cases(binary, [("m", text)], wd, timeout=120)["m"]
    part = dict(evaluations=0, counters={}, distinct=set(), _distinct_on=False)
    return judge_seq(Model(), steps, meta, res, 1, part)


def shrink(binary, wd, steps, key):
    """ddmin-like reduction of a long history: keep the last step, drop
    blocks of earlier steps while the same violation key fires at the end"""
    if len(steps) <= 2:
        return steps
    cur = list(steps)
    g = max(1, (len(cur) - 1) // 2)
    rounds = 0
    while g >= 1 and rounds < 40:
        rounds += 1
        body = cur[:-1]
        cands = []
        for a in range(0, len(body), g):
            c = body[:a] + body[a + g:] + [cur[-1]]
            # never drop a `new`
            if any(s[0] == "new" for s in body[a:a + g]):
                keep = [s for s in body[a:a + g] if s[0] == "new"]
                c = body[:a] + keep + body[a + g:] + [cur[-1]]
                if len(c) == len(cur):
                    continue
            cands.append(c)
        cases = []
        metas = []
        for ci, c in enumerate(cands):
            lines, meta = render(c, False)
            cases.append(("s%d" % ci, HEADER + "\n" + "\n".join(lines) + "\n"))
            metas.append(meta)
        results = run_cases(binary, cases, wd, timeout=300)
        took = False
        for ci, c in enumerate(cands):
            part = dict(evaluations=0, counters={}, distinct=set(),
                        _distinct_on=False)
            r = judge_seq(Model(), c, metas[ci], results["s%d" % ci], 1, part)
            if r is not None and r[1] == key and r[0] == len(c) - 1:
                cur = c
                took = True
                break
        if not took:
            if g == 1:
                break
            g = max(1, g // 2)
    return cur


def make_violation(binary, wd, steps, idx, key, detail):
    """replay the sequence up to the failing step with dumps"""
    steps = list(steps[:idx + 1])
    try:
        steps = shrink(binary, wd, steps, key)
    except Exception:
        pass
    text, lines, meta, res = run_one(binary, wd, steps, True)
    model = Model()
    st = {}
    desc = ["%s %s" % (fn_name(steps[-1][0], steps[-1][1]), detail), ""]
    for i, (op, var, arg) in enumerate(steps):
        r, h = meta[i]
        ev = res.ev(1 + r)
        if op == "new":
            st[var] = model.state(None)
            continue
        dump = res.ev(1 + r + (2 if (isvc(var) and op in ("copy",
                                                         "set_subtree"))
                               else 1))
        outs = model.step(st[var], op, st[arg] if op == "copy" else arg)
        line = lines[r - 1]
        got = "(not executed)" if ev is None else "ret=%s errno=%s" % (
            ev.get("ret"), ev.get("errno"))
        dtxt = "" if dump is None else " tree=%s" % (
            M.show(M.from_dump(dump.get("out")))
            if not isinstance(M.from_dump(dump.get("out")), M.Bad)
            else str(dump.get("out")))
        if outs is M.UNSPECIFIED:
            desc.append("%s\n   library: %s%s\n   model: unspecified" % (
                line, got, dtxt))
            break
        exp = " | ".join("ret=%r errno=%s tree=%s%s" % (
            (sorted(o[0]) if isinstance(o[0], frozenset) else o[0]),
            ("any" if o[1] is None else "/".join(sorted(o[1])))
            if o[0] == M.FAILRET.get(op) else "-",
            M.show(o[2].doc), (" (" + o[4] + ")") if o[4] else "")
            for o in outs)
        if i == len(steps) - 1 or len(steps) <= 12:
            desc.append("%s\n   library: %s%s\n   model  : %s" % (
                line, got, dtxt, exp))
        # follow the observed outcome when it matches one
        nxt = outs[0][2]
        if ev is not None:
            hev = res.ev(1 + h) if h is not None else None
            j, bad = judge_step(op, var, outs, ev, hev)
            if j is not None:
                nxt = outs[j][2]
        st[var] = nxt
    return dict(key=key, desc="\n".join(desc)[:6000], script=text)


def seq_violations(res, text, spans, pre_end, binary, wd, seen):
    """standard violations of a multi-sequence case, with the witness cut down
    to the sequence that produced the report (+ the case's prefix lines
    2..pre_end that create shared roots)"""
    v, inc = R.standard_violations(res, text, PROP)
    out = []
    lines = text.split("\n")
    pre = lines[:pre_end]           # header + shared prefix
    for viol in v:
        if viol["key"] in seen:
            viol = dict(viol)
            viol["script"] = None
            out.append(viol)
            continue
        seen.add(viol["key"])
        ln = None
        for r in res.reports:
            if r["key"] == viol["key"] and r.get("i") is not None:
                ln = r["i"]
                break
        sub = None
        if ln is not None:
            for a, b in spans:
                if a <= ln <= b:
                    sub = (a, b)
                    break
        elif viol["key"].startswith("lsan:") and len(spans) > 1:
            sub = bisect_leak(binary, wd, lines, pre, spans, viol["key"])
        if sub:
            a, b = sub
            viol = dict(viol)
            viol["script"] = "\n".join(pre + lines[a - 1:b]) + "\n"
        out.append(viol)
    return out, inc


def bisect_leak(binary, wd, lines, pre, spans, key):
    cur = list(spans)
    for _ in range(24):
        if len(cur) <= 1:
            break
        half = len(cur) // 2
        parts = [cur[:half], cur[half:]]
        cases = []
        for pi, pp in enumerate(parts):
            t = "\n".join(pre + [ln for a, b in pp
                                  for ln in lines[a - 1:b]]) + "\n"
            cases.append(("b%d" % pi, t))
        results = run_cases(binary, cases, wd, timeout=300)
        nxt = None
        for pi, pp in enumerate(parts):
            if any(r["key"] == key for r in results["b%d" % pi].reports):
                nxt = pp
                break
        if nxt is None:
            break
        cur = nxt
    return cur[0] if len(cur) == 1 else None


def new_part():
    return dict(evaluations=0, counters={}, maxima={}, distinct=set(),
                samples=[], violations=[], inconclusive=[], harness_errors=[])


def bump(part, k, n=1):
    part["counters"][k] = part["counters"].get(k, 0) + n


def run_sequences(binary, wd, seqs, part, model=None, per_case=400,
                  sample_tag=None, seen=None, prefix=None):
    """seqs: list of step lists.  Packs them into cases (each starting with
    the steps of `prefix`, which create roots shared by the sequences), runs
    and judges them.  model=None: a fresh model per sequence."""
    if seen is None:
        seen = set()
    prefix = prefix or []
    cases = []
    info = []
    for c0 in range(0, len(seqs), per_case):
        group = seqs[c0:c0 + per_case]
        lines = [HEADER]
        pl, pmeta = render(prefix, False)
        lines += pl
        pre_end = len(lines)
        spans = []
        metas = []
        for steps in group:
            l, meta = render(steps, False)
            off = len(lines)
            lines += l
            spans.append((off + 1, len(lines)))
            metas.append((off, meta))
        text = "\n".join(lines) + "\n"
        cid = "c%d" % len(cases)
        cases.append((cid, text))
        info.append((group, spans, metas, pmeta, pre_end))
    results = run_cases(binary, cases, wd, timeout=900)
    for (cid, text), (group, spans, metas, pmeta, pre_end) in zip(cases, info):
        res = results[cid]
        v, inc = seq_violations(res, text, spans, pre_end, binary, wd, seen)
        part["violations"] += v
        part["inconclusive"] += inc
        pmodel = model or Model()
        env = {}
        todo = []
        if prefix:
            todo.append((prefix, 1, pmeta, True))
        for steps, (off, meta) in zip(group, metas):
            todo.append((steps, off, meta, False))
        for steps, off, meta, ispre in todo:
            m = model or (pmodel if ispre else Model())
            st = env if ispre else dict(
                (k, m.state(s.doc)) for k, s in env.items())
            if not ispre:
                bump(part, "sequences")
            r = judge_seq(m, steps, meta, res, off, part, st)
            if r is not None:
                idx, key, detail = r
                bump(part, "mismatching_sequences")
                if key in seen:
                    part["violations"].append(dict(key=key, desc=detail,
                                                   script=None))
                else:
                    seen.add(key)
                    full = steps if ispre else needed_prefix(prefix, steps) \
                        + list(steps)
                    part["violations"].append(make_violation(
                        binary, wd, full, len(full) - len(steps) + idx, key,
                        detail))
            elif sample_tag and not ispre and len(part["samples"]) < 1:
                sl, _m = render(steps, False)
                part["samples"].append(dict(
                    part=sample_tag, operations=len(steps),
                    script=sl[:14] + (["... (%d more lines)" % (len(sl) - 14)]
                                      if len(sl) > 14 else [])))


def needed_prefix(prefix, steps):
    """the prefix steps of the roots that `steps` copies from"""
    made = {s[1] for s in steps if s[0] == "new"}
    used = {s[2] for s in steps if s[0] == "copy"} - made
    return [s for s in prefix if s[1] in used]


# ----------------------------------------------------------------------
# part A: bounded-exhaustive exploration
# ----------------------------------------------------------------------
E_ = "\u00e9".encode("utf-8")
START = [
    None,
    {b"a": {b"b": b"1", b"c d": [b"x", None, {b"e": b"2"}]}, b"s": b"v"},
    [b"x", {b"k": b"v"}, [None, b"z"]],
    {b"a": None, E_ + b".k ": {}, b"l": []},
]
SRC_A = {b"k": [b"1", {b"m": b"2"}], b"n": None}
SRC_B = [{}, [], b"s"]

ALPHABET = [
    # --- set
    ("set", b"a.b=2"),
    ("set", b"a=x=y#z"),
    ("set", b"a[1]=q"),
    ("set", b"[0+]=i"),
    ("set", b"[+]=n\nl"),
    ("set", b"[1]#"),
    ("set", b".a.c d[1+].e=v"),
    ("set", b"[2][0+]#"),
    ("set", b".=root"),
    ("set", b"a.#"),
    ("set", E_ + b"\\.k\\ =u"),
    ("set", b"s.t[+][+]=w"),
    # --- set_subtree
    ("set_subtree", b"a{}"),
    ("set_subtree", b"a.c d[]"),
    ("set_subtree", b"[4]"),
    ("set_subtree", b"[1].k."),
    # --- delete
    ("delete", b"a.b"),
    ("delete", b"a.c d[0]"),
    ("delete", b"[0]"),
    ("delete", b"[2]"),
    ("delete", b"a."),
    ("delete", b"."),
    ("delete", b"[1]."),
    ("delete", b"s"),
    # --- copy
    ("copy", "srca"),
    ("copy", "srcb"),
    ("copy", "@self"),
    # --- queries
    ("type", b"a"),
    ("type", b"[1]"),
    ("count", b"a.c d"),
    ("count", b"[]"),
    ("keys", b"{}"),
    ("keys", b"[1]"),
    ("get", b"a.b"),
    ("get", b"[0]"),
    ("get_subtree", b"a.c d[2]"),
    ("get_subtree", b"."),
    # --- malformed / mismatching
    ("get", b""),
    ("type", b"a..b"),
    ("count", b"[x]"),
    ("delete", b"[1"),
    ("get", b"[+]"),
    ("delete", b"[0+]"),
    ("keys", b"a]"),
    ("set", b"a.b"),
    ("set_subtree", b"zz.y}"),
    ("delete", b"[0]x"),
    ("type", b"a.b.c"),
    ("count", b"a[0]"),
]
# thorough explores depth 4 over the first N_THOROUGH letters after this
# permutation (most informative first); quick samples from all of them
ALPHA_THOROUGH = 40


def alphabet_for(tier):
    if tier == "quick":
        return list(range(len(ALPHABET)))
    # drop the letters whose effect is covered by a sibling letter
    drop = {("set", b"[2][0+]#"), ("set_subtree", b"[1].k."),
            ("delete", b"[2]"), ("type", b"[1]"), ("keys", b"[1]"),
            ("get", b"[0]"), ("count", b"[x]"), ("delete", b"[0]x"),
            ("set", b"a.#")}
    idx = [i for i, a in enumerate(ALPHABET) if a not in drop]
    return idx[:ALPHA_THOROUGH] if len(idx) > ALPHA_THOROUGH else idx


def prefix_steps():
    return [("new", "srca", None)] + build_steps("srca", SRC_A) + \
           [("new", "srcb", None)] + build_steps("srcb", SRC_B)


def seq_for(var, start_idx, letters):
    # (through vnacal_property_* a copy onto itself is not expressible: the
    # "@self" letter copies from srca there)
    steps = [("new", var, None)] + build_steps(var, START[start_idx])
    for li in letters:
        op, arg = ALPHABET[li]
        if arg == "@self":
            arg = "srca" if isvc(var) else var
        steps.append((op, var, arg))
    return steps


def explore_chunk(chunk_id, payload):
    seed, tier, binary, workroot, units, var, nsample = payload
    part = new_part()
    wd = os.path.join(workroot, "a%s%d" % (var, chunk_id))
    model = Model()
    seen = set()
    alpha = alphabet_for(tier)
    rng = random.Random("%d/A/%s/%d" % (seed, var, chunk_id))
    prefix = prefix_steps()
    for start_idx, o1 in units:
        groups = []
        for o2 in alpha:
            if nsample is None:
                tails = [(o3, o4) for o3 in alpha for o4 in alpha]
            else:
                tails = [(rng.choice(alpha), rng.choice(alpha))
                         for _ in range(nsample)]
            groups.append([seq_for(var, start_idx, (o1, o2, o3, o4))
                           for o3, o4 in tails])
        if nsample is None:
            # one case per (start, o1, o2); a few cases per driver process
            for g0 in range(0, len(groups), 6):
                seqs = [s for g in groups[g0:g0 + 6] for s in g]
                run_sequences(binary, wd, seqs, part, model=model,
                              per_case=len(groups[0]),
                              sample_tag="A:exhaustive:%s" % var, seen=seen,
                              prefix=prefix)
        else:
            # sampled: one case per (start, o1)
            seqs = [s for g in groups for s in g]
            run_sequences(binary, wd, seqs, part, model=model,
                          per_case=len(seqs),
                          sample_tag="A:exhaustive:%s" % var, seen=seen,
                          prefix=prefix)
    bump(part, "A_units_%s" % var, len(units))
    part["maxima"]["A_model_states"] = len(model.states)
    return part


# ----------------------------------------------------------------------
# parts B, C: random histories
# ----------------------------------------------------------------------
KEYS = [b"a", b"b", b"c d", b"k-1", b"_u", E_, "\u65e5\u672c".encode(),
        b"x.y", b"sp ", b" lead", b"[k]", b"{m}", b"a=b", b"h#", b"1st",
        b"two  words", b"back\\slash", b'q"t', b"nl\nx", b"tab\there", b"-m",
        b"A", b"a b", b"a.b", b"+", b"  ", "\u00e9 \u00e9".encode(),
        b"k" * 70, b"%s%n", b"\x01\x7f", b"yvnyclg", b"anrietm"]
VALUES = [b"1", b"", b"x=y", b"#h", b"a#b=c", b" lead", b"trail ",
          b"multi\nline\n", b"~", b"null", "\u00e9\U0001f600".encode(),
          b"long " * 30, b"\ttab", b"%s %d %n", b"=", b"#", b"a.b[0]{}",
          b"\n", b"\\", b'"q"']
JUNK = [b"]", b"}", b"x", b"..x", b"[", b"{", b"+", b"[x]", b"[1", b"[-1]",
        b"{x}", b"\\", b"[1+", b"[+", b"[]]", b"{}{}", b"[0]]", b"!", b"$",
        b"@k", b"/", b"()", b"*", b",", b":", b";", b"<", b">", b"?", b"^",
        b"`", b"|", b"~", b"'", b'"', b"&", b"%%"]


def rand_elems(rng, doc, for_set, maxlen=5):
    """random path; mostly along existing nodes"""
    elems = []
    node = doc
    n = rng.choice((1, 1, 2, 2, 2, 3, 3, 4, maxlen))
    for _ in range(n):
        follow = rng.random() < 0.8
        if isinstance(node, dict) and node and follow:
            k = rng.choice(list(node))
            elems.append(("k", k))
            node = node[k]
        elif isinstance(node, list) and follow:
            r = rng.random()
            if for_set and r < 0.15:
                elems.append(("app",))
                node = None
            elif for_set and r < 0.35:
                i = rng.randrange(0, len(node) + 2)
                elems.append(("ins", i))
                node = None
            else:
                i = rng.randrange(0, len(node) + (2 if r < 0.6 else 0) + 1) \
                    if node or for_set else 0
                elems.append(("i", i))
                node = node[i] if i < len(node) else None
        else:
            r = rng.random()
            if r < 0.6:
                elems.append(("k", rng.choice(KEYS)))
            elif r < 0.85 or not for_set:
                elems.append(("i", rng.randrange(0, 4)))
            elif r < 0.93:
                elems.append(("ins", rng.randrange(0, 3)))
            else:
                elems.append(("app",))
            node = None
    return elems


def quote_all(key):
    out = bytearray()
    for c in key:
        if c < 0x80 or c >= 0xc0:
            out.append(0x5c)
        out.append(c)
    return bytes(out)


def render_path(rng, elems):
    out = bytearray()
    if rng.random() < 0.2:
        out += b"."
    first = True
    for el in elems:
        if el[0] == "k":
            if not first:
                out += b"."
            out += quote_all(el[1]) if rng.random() < 0.05 else M.quote(el[1])
        else:
            if not first and rng.random() < 0.1:
                out += b"."
            # subscripts are decimal: zero padding ("%02d") changes nothing
            pad = rng.choice((b"%d", b"%d", b"%d", b"%d", b"%d", b"%d", b"%d",
                              b"%02d", b"%03d", b"0%d"))
            if el[0] == "i":
                out += b"[" + pad % el[1] + b"]"
            elif el[0] == "ins":
                out += b"[" + pad % el[1] + b"+]"
            else:
                out += b"[+]"
        first = False
    return bytes(out)


QUERY_OPS = ("type", "count", "keys", "get", "get_subtree")


def rand_step(rng, var, doc, other, enable_gs_junk):
    """one random (op, var, arg) for the root `var` whose model document is
    `doc`"""
    r = rng.random()
    if r < 0.30:
        el = rand_elems(rng, doc, True)
        d = render_path(rng, el)
        if rng.random() < 0.1:
            d += b"."
        if rng.random() < 0.15:
            return ("set", var, d + b"#")
        return ("set", var, d + b"=" + rng.choice(VALUES))
    if r < 0.38:
        el = rand_elems(rng, doc, True)
        d = render_path(rng, el) + rng.choice((b"", b"", b".", b"{}", b"[]"))
        return ("set_subtree", var, d)
    if r < 0.53:
        if rng.random() < 0.03:
            return ("delete", var, b".")
        el = rand_elems(rng, doc, False)
        d = render_path(rng, el) + (b"." if rng.random() < 0.25 else b"")
        return ("delete", var, d)
    if r < 0.57 and other is not None:
        return ("copy", var, var if (rng.random() < 0.15 and not isvc(var))
                else other)
    if r < 0.87:
        op = rng.choice(QUERY_OPS)
        if rng.random() < 0.1:
            return (op, var, rng.choice((b".", b"{}", b"[]", b".{}", b".[]")))
        el = rand_elems(rng, doc, False)
        sfx = b""
        x = rng.random()
        if x < 0.12:
            sfx = b"."
        elif x < 0.24:
            sfx = b"{}"
        elif x < 0.36:
            sfx = b"[]"
        return (op, var, render_path(rng, el) + sfx)
    # malformed
    op = rng.choice(QUERY_OPS + ("set", "set_subtree", "delete", "delete"))
    if op == "get_subtree" and not enable_gs_junk:
        op = "type"
    x = rng.random()
    if x < 0.08:
        d = b""
    elif x < 0.2:
        d = rng.choice(JUNK)
    else:
        el = rand_elems(rng, doc, op in ("set", "set_subtree"))
        d = render_path(rng, el)
        y = rng.random()
        if y < 0.7:
            d += rng.choice(JUNK)
        elif y < 0.85:
            # junk in the middle
            cut = rng.randrange(0, len(d) + 1)
            d = d[:cut] + rng.choice(JUNK) + d[cut:]
        else:
            d = d.replace(b".", b"..", 1) if b"." in d else d + b".."
    if op == "set":
        y = rng.random()
        if y < 0.5:
            d += b"=" + rng.choice(VALUES)
        elif y < 0.6:
            d += b"#"
    return (op, var, d)


def gen_history(rng, n, main, enable_gs_junk):
    """state-aware random history on `main` (+ a second plain root "q")"""
    docs = {main: None, "q": None}
    steps = [("new", main, None), ("new", "q", None)]
    tries = 0
    while len(steps) < n + 2 and tries < n * 5:
        tries += 1
        var = main if rng.random() < 0.8 else "q"
        other = "q" if var == main else (None if isvc(main) else main)
        st = rand_step(rng, var, docs[var], other, enable_gs_junk)
        op, _, arg = st
        outs = M.apply(docs[var], op, docs[arg] if op == "copy" else arg)
        if outs is M.UNSPECIFIED:
            continue
        # keep the documents small
        nd = outs[0].doc
        if M.size(nd) > 160 or M.depth(nd) > 7:
            continue
        docs[var] = nd
        steps.append(st)
    return steps


_COLLIDING = None


def colliding_keys():
    """pairs of distinct keys with the same 32-bit hash value, found by brute
    force with the CRC table read from the library source (a hash table is
    only as good as its handling of equal hashes)"""
    global _COLLIDING
    if _COLLIDING is not None:
        return _COLLIDING
    pairs = [(b"daqicud", b"pucqfak")]
    try:
        import re
        import build
        src = open(os.path.join(build.REPO, "src", "vnaproperty.c")).read()
        body = src[src.index("crc32c_table[]"):]
        body = body[:body.index("};")]
        table = [int(x, 16) for x in re.findall(r"0x[0-9a-fA-F]+", body)]
        if len(table) == 256:
            r = random.Random(1313)
            seen = {}
            found = []
            letters = b"abcdefghijklmnopqrstuvwxyz"
            for _ in range(400000):
                k = bytes(r.choice(letters) for _ in range(7))
                v = 0xFFFFFFFF
                for b in k:
                    v = ((v << 8) & 0xFFFFFFFF) ^ table[(v >> 24) ^ b]
                o = seen.get(v)
                if o is not None and o != k:
                    found.append((o, k))
                    if len(found) >= 12:
                        break
                seen[v] = k
            if found:
                pairs = found
    except Exception:
        pass
    _COLLIDING = pairs
    return pairs


def gen_sized(rng, main):
    """a list and a map grown to a size around a power of two (where their
    vectors / hash tables are exactly full or have just grown), then deletes,
    inserts, gaps, appends and look-ups at the ends and in the middle"""
    docs = {main: None, "q": None}
    steps = [("new", main, None), ("new", "q", None)]

    def do(st):
        op, var, arg = st
        outs = M.apply(docs[var], op, docs[arg] if op == "copy" else arg)
        if outs is M.UNSPECIFIED:
            return
        docs[var] = outs[0].doc
        steps.append(st)
    n = rng.choice((6, 7, 8, 9, 15, 16, 17, 31, 32, 33))
    kind = rng.choice(("list", "list", "map", "nested"))
    base = {"list": b"", "map": b"", "nested": b"top.l"}[kind]
    special = []
    if kind == "map":
        if rng.random() < 0.6:
            # keys with equal hash values, entered before the table grows
            cp = colliding_keys()
            for a_, b_ in rng.sample(cp, min(len(cp), rng.choice((1, 1, 2)))):
                special += [a_, b_] if rng.random() < 0.5 else [b_, a_]
        for k_ in special:
            do(("set", main, k_ + b"=c"))
        for i in range(n):
            do(("set", main, b"key%d=%d" % (i, i)))
    else:
        for i in range(n):
            do(("set", main, base + b"[+]=e%d" % i))
    for _ in range(rng.randrange(6, 16)):
        if kind == "map":
            k = rng.randrange(0, n + 3)
            r = rng.random()
            if special and rng.random() < 0.4:
                ks = rng.choice(special)
                if r < 0.3:
                    do(("delete", main, ks))
                elif r < 0.55:
                    do(("set", main, ks + b"=again"))
                elif r < 0.8:
                    do(("get", main, ks))
                else:
                    do(("type", main, ks))
                continue
            if r < 0.35:
                do(("delete", main, b"key%d" % k))
            elif r < 0.6:
                do(("set", main, b"key%d=new" % k))
            elif r < 0.7:
                do(("set", main, b"key%d#" % k))
            elif r < 0.85:
                do((rng.choice(("count", "keys")), main, b"."))
            else:
                do(("get", main, b"key%d" % k))
            continue
        cur = docs[main]
        node = cur
        if kind == "nested" and isinstance(cur, dict):
            node = cur.get("top", {}).get("l") if isinstance(
                cur.get("top"), dict) else None
        ln = len(node) if isinstance(node, list) else 0
        i = rng.choice((0, 1, ln // 2, max(ln - 2, 0), max(ln - 1, 0), ln,
                        ln + 1, ln + 3))
        r = rng.random()
        if r < 0.3:
            do(("delete", main, base + b"[%d]" % i))
        elif r < 0.5:
            do(("set", main, base + b"[%d+]=ins" % min(i, ln)))
        elif r < 0.65:
            do(("set", main, base + b"[%d]=at" % i))
        elif r < 0.75:
            do(("set", main, base + b"[+]=app"))
        elif r < 0.8:
            do(("set_subtree", main, base + b"[%d]" % i))
        elif r < 0.85:
            if not isvc(main):
                # (the driver cannot copy out of a vnacal_t's root)
                do(("copy", "q", main))
        elif r < 0.92:
            do(("count", main, base if base else b"."))
        else:
            do(("get", main, base + b"[%d]" % i))
    return steps


def sized_chunk(chunk_id, payload):
    seed, tier, binary, workroot, count, main = payload
    part = new_part()
    wd = os.path.join(workroot, "z%s%d" % (main, chunk_id))
    seqs = []
    for i in range(count):
        rng = random.Random("%d/Z/%s/%d/%d" % (seed, main, chunk_id, i))
        seqs.append(gen_sized(rng, main))
    run_sequences(binary, wd, seqs, part, model=None, per_case=1,
                  sample_tag="F:sized:%s" % main, seen=set())
    bump(part, "sized_container_histories", count)
    return part


def history_chunk(chunk_id, payload):
    seed, tier, binary, workroot, count, length, main = payload
    part = new_part()
    wd = os.path.join(workroot, "h%s%d" % (main, chunk_id))
    seen = set()
    seqs = []
    for i in range(count):
        rng = random.Random("%d/H/%s/%d/%d" % (seed, main, chunk_id, i))
        seqs.append(gen_history(rng, length, main, enable_gs_junk=(i % 8 == 7)))
    run_sequences(binary, wd, seqs, part, model=None, per_case=1,
                  sample_tag="%s:history:%s" % (
                      "C" if isvc(main) else "B", main), seen=seen)
    bump(part, "histories_%s" % ("vnacal" if isvc(main) else "vnaproperty"),
         count)
    return part


# ----------------------------------------------------------------------
# part D: every entry point x malformed / mismatching descriptors
# ----------------------------------------------------------------------
BAD_DESCR = [
    b"", b"a..b", b"[x]", b"[1", b"[-1]", b"[1+", b"[+", b"{", b"{x}", b"a{",
    b"a\\", b"=", b"#", b"]", b"}", b"1a", b"-a", b"..", b"...", b"a.b..",
    # well-formed descriptors followed by extra tokens
    b"a]", b"a}", b"a.b]", b"[0]x", b"[0]]", b"a{}x", b"a{}.b", b"a[]x",
    b"a[][0]", b"a.b.=", b".]", b"[1]{}{}", b"a.c d[2].e!", b"s$", b"a+",
    b"[0]+", b"a[0]", b"[0].k", b"a.b.c", b"a.b[0]",
    # subscripts that are not plain decimal numbers / zero-padded ones
    b"[0x1]", b"[0x10]", b"[1e0]", b"[0b1]", b"[01]", b"[010]", b"[08]",
    b"l[09]", b"[00]", b"a.c d[002].e",
    # insert / append forms in non-set calls
    b"[+]", b"[0+]", b"a.c d[+]", b"a.c d[1+].e", b"l[+]", b"[2][0+]",
    # key on a list, subscript on a map, look-ups through null / scalars
    b"k", b"[0]", b"a.zz", b"a.c d[7]", b"a.k", b"s.t", b"s[0]", b"[1][0]",
    b"[2].q", b"{}", b"[]", b"a{}", b"a[]", b"[1]{}", b"[1][]", b"[2]{}",
    E_ + b"\\.k\\ ", E_ + b"\\.k\\ [0]", b"l[0]", b"l.k", b"a.",
]
ENTRY = ("type", "count", "keys", "get", "get_subtree", "set_subtree",
         "delete", "set")


def matrix_chunk(chunk_id, payload):
    seed, tier, binary, workroot, var, entries = payload
    part = new_part()
    wd = os.path.join(workroot, "d%s%d" % (var, chunk_id))
    seqs = []
    for op in entries:
        for si in range(len(START)):
            for d in BAD_DESCR:
                args = [d]
                if op == "set":
                    args = [d, d + b"=v", d + b"#"]
                for a in args:
                    outs = M.apply(START[si], op, a)
                    if outs is M.UNSPECIFIED:
                        bump(part, "D_unspecified_skipped")
                        continue
                    steps = [("new", var, None)] + \
                        build_steps(var, START[si]) + [(op, var, a)]
                    # a query after the call shows the tree once more
                    steps.append(("type", var, b"."))
                    seqs.append(steps)
    run_sequences(binary, wd, seqs, part, model=Model(), per_case=1,
                  sample_tag="D:matrix:%s" % var)
    bump(part, "D_cases", len(seqs))
    return part


# ----------------------------------------------------------------------
# part E: quote_key
# ----------------------------------------------------------------------
PIECES = [b".", b"[", b"]", b"{", b"}", b" ", b"  ", b"\\", b"=", b"#", b"+",
          b"-", b"_", b"0", b"9", b"a", b"Z", b"\n", b"\t", b"\r", b"\x01",
          b"\x7f", b'"', b"'", b":", b"~", b"!", b"%", b"%s", b"/", b"*",
          "\u00e9".encode(), "\u00a0".encode(), "\u0085".encode(),
          "\u2028".encode(), "\ufeff".encode(), "\u65e5".encode(),
          "\U0001f600".encode(), b"key", b"two words", b"x.y", b"[0]", b"{}"]


# pairs of distinct keys with equal hash in the map implementation at the time
# of writing (found by a birthday search over the library's CRC-32C variant):
# workload only - the oracle knows nothing about hashing
HASH_TWINS = [(b"yvnyclg", b"anrietm"), (b"yjlsppd", b"arpcvhn"),
              (b"jolyind", b"rwpiovn"), (b"tzkxmdf", b"wlpzxgv")]


def twin_sequences():
    seqs = []
    for a, b in HASH_TWINS:
        for x, y in ((a, b), (b, a)):
            seqs.append([
                ("new", "p", None),
                ("set", "p", x + b"=1"),
                ("get", "p", y),
                ("set", "p", y + b"=2"),
                ("get", "p", x), ("get", "p", y),
                ("keys", "p", b"{}"), ("count", "p", b"."),
                ("delete", "p", x),
                ("get", "p", y), ("get", "p", x), ("type", "p", y),
                ("set", "p", b"m." + x + b"[1]=3"),
                ("set", "p", b"m." + y + b".k=4"),
                ("get_subtree", "p", b"m"),
                ("delete", "p", b"m." + y),
                ("get_subtree", "p", b"m." + x),
                ("set_subtree", "p", y + b"."),
                ("delete", "p", y),
                ("keys", "p", b"{}")])
    return seqs


def rand_key(rng):
    n = rng.choice((1, 1, 2, 2, 3, 3, 4, 5, 6, 9))
    k = b"".join(rng.choice(PIECES) for _ in range(n))
    if rng.random() < 0.03:
        k = k * 40
    return k


def quote_chunk(chunk_id, payload):
    seed, tier, binary, workroot, count = payload
    part = new_part()
    wd = os.path.join(workroot, "e%d" % chunk_id)
    rng = random.Random("%d/E/%d" % (seed, chunk_id))
    keys = []
    fixed = [b" ", b"  ", b"a ", b" a", b"a  ", b".", b"a.b", b"\\", b"a\\",
             b"\\ ", b"1", b"-", b"[0]", b"{}", b"a=b", b"a#", b"+",
             b"a b", b"a  b ", E_ + b" ", b"\n", b" \n ", b"a\\ "]
    if chunk_id == 0:
        keys += fixed
    while len(keys) < count:
        k = rand_key(rng)
        if k and k not in keys:
            keys.append(k)
    # phase 1: ask the library
    s = R.Script()
    qlines = [s.op("vnaproperty_quote_key", R.qs(k)) for k in keys]
    t1 = s.text()
    res = run_cases(binary, [("q", t1)], wd, timeout=300)["q"]
    v, inc = R.standard_violations(res, t1, PROP)
    part["violations"] += v
    part["inconclusive"] += inc
    seqs = []
    for i, k in enumerate(keys):
        ev = res.ev(qlines[i])
        if ev is None:
            continue
        part["evaluations"] += 1
        part["distinct"].add(hashlib.blake2b(b"qk\0" + k,
                                             digest_size=8).digest())
        q = ev.get("ret")
        qb = None if q is None else q.encode("latin-1")
        if len(part["samples"]) < 1 and i > 3:
            part["samples"].append(dict(part="Q:quote_key",
                                        key=k.decode("latin-1"),
                                        quoted=q))
        if not M.quote_key_ok(k, qb):
            cls = "trailing-space" if k.endswith(b" ") else \
                "leading" if (qb is not None and qb[:1] != b"\\" and
                              not M._key_start(k[0])) else "other"
            part["violations"].append(dict(
                key="%s:quote-key-does-not-address-key:%s" % (PROP, cls),
                desc="vnaproperty_quote_key(%r) returned %r, which the "
                     "descriptor grammar of vnaproperty(3) does not read as "
                     "exactly that one key" % (k, qb),
                script="vnaproperty_quote_key %s\n" % R.qs(k)))
            continue
        # phase 2: use it as a descriptor component among look-alike keys
        alike = []
        for a in (k.strip(b" "), k + b" ", b" " + k, k.rstrip(b" ") + b"x",
                  k.replace(b"\\", b""), k.replace(b".", b"")):
            if a and a != k and a not in alike:
                alike.append(a)
        steps = [("new", "p", None)]
        for a in alike[:3]:
            steps.append(("set", "p", M.quote(a) + b"=other"))
        steps += [("set", "p", qb + b"=v1"),
                  ("get", "p", qb),
                  ("keys", "p", b"{}"),
                  ("set", "p", b"n." + qb + b"[1]." + qb + b"=v2"),
                  ("get", "p", b".n." + qb + b"[1]." + qb),
                  ("type", "p", qb + b"."),
                  ("delete", "p", b"n." + qb + b"[0]"),
                  ("get_subtree", "p", b"n." + qb + b"[0]"),
                  ("delete", "p", qb),
                  ("get", "p", qb),
                  ("set_subtree", "p", qb + b"{}"),
                  ("count", "p", qb)]
        seqs.append(steps)
    if chunk_id == 0:
        seqs += twin_sequences()
    run_sequences(binary, wd, seqs, part, model=None, per_case=50,
                  sample_tag="E:quote_key-as-descriptor")
    bump(part, "E_keys", len(keys))
    return part


# ----------------------------------------------------------------------
def dispatch(chunk_id, payload):
    import time
    kind = payload[0]
    fn = {"A": explore_chunk, "H": history_chunk, "D": matrix_chunk,
          "E": quote_chunk, "Z": sized_chunk}[kind]
    t0 = time.time()
    global HEADER
    HEADER = (HEADER_PLAIN, HEADER_PRESET, HEADER_ERANGE)[chunk_id % 3]
    part = fn(chunk_id, payload[1:])
    part["counters"]["chunks_errno_%s" % (
        ("zero", "4242", "ERANGE")[chunk_id % 3])] = 1
    part.pop("_distinct_on", None)
    part["counters"]["cpu_s_part_%s" % kind] = round(time.time() - t0, 2)
    return part


def main():
    chk = R.Check(PROP)
    binary = chk.build("asan")
    quick = chk.tier == "quick"
    sc = chk.args.scale
    seed, tier, wr = chk.seed, chk.tier, chk.workroot
    alpha = alphabet_for(tier)
    payloads = []
    # A: exploration through vnaproperty_*
    units = [(si, o1) for si in range(len(START)) for o1 in alpha]
    nsample = max(1, int(12 * sc)) if quick else None
    per = 2 if quick else 1
    for i in range(0, len(units), per):
        payloads.append(("A", seed, tier, binary, wr, units[i:i + per], "p",
                         nsample))
    # A': a sample of the same sequences through vnacal_property_*
    nvc = max(1, int((3 if quick else 40) * sc))
    for i in range(0, len(units), 8):
        payloads.append(("A", seed, "quick", binary, wr, units[i:i + 8], "vc",
                         nvc))
    # B, C: histories
    nh = max(1, int((20 if quick else 220) * sc))
    for c in range(16):
        payloads.append(("H", seed, tier, binary, wr, nh, 200, "p"))
    nhv = max(1, int((10 if quick else 80) * sc))
    for c in range(16):
        payloads.append(("H", seed, tier, binary, wr, nhv, 200, "vc"))
    # F: containers of sizes around powers of two
    nz = max(1, int((12 if quick else 150) * sc))
    for c in range(8):
        payloads.append(("Z", seed, tier, binary, wr, nz, "p"))
    for c in range(4):
        payloads.append(("Z", seed, tier, binary, wr, nz, "vc"))
    # D: matrix
    for var in ("p", "vc"):
        for e in ENTRY:
            payloads.append(("D", seed, tier, binary, wr, var, [e]))
    # E: quote_key
    nk = max(30, int((150 if quick else 4000) * sc))
    for c in range(16):
        payloads.append(("E", seed, tier, binary, wr, nk))
    # long jobs first
    order = {"A": 0, "H": 1, "E": 2, "D": 3, "Z": 2}
    payloads.sort(key=lambda p: order[p[0]])
    shown = set()
    for part in R.pmap(dispatch, payloads):
        # one sample per part of the check
        keep = []
        for s in part.get("samples", []):
            tag = s.get("part", "?")[:1]
            if tag not in shown:
                shown.add(tag)
                keep.append(s)
        part["samples"] = keep
        chk.merge(part)
    chk.counters["A_alphabet"] = len(alpha)
    chk.counters["A_start_trees"] = len(START)
    chk.finish(
        rule="A: %s 4-operation sequences over an alphabet of %d (operation, "
             "descriptor) pairs from %d start trees built through the API "
             "(%s), plus a sample through vnacal_property_* on the global "
             "root; B/C: state-aware random histories of 200 operations on "
             "two roots incl. copy, through vnaproperty_* and "
             "vnacal_property_*(ci=-1); D: each of the 8 entry points x %d "
             "malformed / mismatching descriptors x start trees x both APIs; "
             "E: vnaproperty_quote_key on random valid-UTF-8 keys, the result "
             "used as descriptor component among look-alike keys; F: lists "
             "and maps grown to 6..9, 15..17, 31..33 entries, then deletes, "
             "inserts, gaps and appends at the ends and in the middle.  After "
             "every operation: return value, errno class and FNV-1a hash of "
             "the canonical dump are compared with pylib/docmodel.py.  "
             "distinct = distinct (document state, operation, descriptor) "
             "triples judged (+ distinct keys quoted)." % (
                 "all" if not quick else "a stratified sample (every start x "
                 "first two operations, random tails) of the", len(alpha),
                 len(START), "bounded-exhaustive" if not quick else "sampled",
                 len(BAD_DESCR)),
        min_events=1000,
        assumptions=[
            "descriptor grammar and operation semantics transcribed from "
            "vnaproperty(3); combinations the manual leaves open are not "
            "generated or accepted either way (see pylib/docmodel.py)",
            "the tree is observed only through the public getters "
            "(type/keys/count/get/get_subtree/quote_key) in the driver's "
            "dump; per-calibration roots are not exercised (they need a "
            "solved calibration), only the global root ci=-1",
            "the empty key cannot be created through a descriptor and is "
            "excluded from the quote_key check",
            "a failing call is required to leave the tree unchanged (DESIGN "
            "C13/C11): reported under *:failed-call-changed-tree:*"])


if __name__ == "__main__":
    main()
