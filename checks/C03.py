#!/usr/bin/env python3-vt
"""C03: no API call sequence corrupts memory, invokes UB or leaks.

Monitor: ASan + UBSan (incl. VLA bounds) + LeakSanitizer queried after every
history, and valgrind memcheck on a sample (uninitialised-value use), over
generated call histories mixing every object kind with valid, boundary and
invalid arguments (pylib/gen_api.py).  Calls the generator marks "invalid by a
documented rule" must return the documented failure value.
"""
import math
import os
import re
import sys

import numpy as np

sys.path.insert(0, os.path.join(os.path.dirname(os.path.abspath(__file__)),
                                "..", "pylib"))
import gen_api  # noqa: E402
import runner as R  # noqa: E402

PROP = "C03"


def failed_as_documented(ev, kind):
    ret = ev.get("ret")
    if kind == gen_api.FAIL_INT:
        return ret == -1
    if kind == gen_api.FAIL_PTR:
        return ret is None
    if kind == gen_api.FAIL_REAL:
        return isinstance(ret, float) and math.isinf(ret)
    if kind == gen_api.FAIL_CPLX:
        return isinstance(ret, list) and math.isinf(ret[0])
    return True


def is_failure(ev):
    ret = ev.get("ret", 0)
    if ret == -1 or ret is None:
        return True
    if isinstance(ret, float) and math.isinf(ret):
        return True
    if isinstance(ret, list) and ret and isinstance(ret[0], float) and \
            math.isinf(ret[0]) and ev["op"].startswith(("vnadata_get", "vnacal_get")):
        return True
    return False


def work(chunk_id, payload):
    seed, nhist, nops, binary, workroot, memcheck_bin, nmem, clang_bin, \
        fibin, nio = payload
    part = dict(evaluations=0, counters={}, maxima={}, distinct=set(),
                samples=[], violations=[], inconclusive=[], harness_errors=[])
    cnt = part["counters"]
    cases = []
    gens = {}
    for k in range(nhist):
        rng = np.random.default_rng([seed, chunk_id, k, 303])
        g = gen_api.ApiGen(rng)
        w = [(0.3, 0.2, 0.5), (0.6, 0.2, 0.2), (0.1, 0.6, 0.3),
             (0.1, 0.05, 0.85)][k % 4]
        text = g.generate(nops, w)
        cid = "h%d_%d" % (chunk_id, k)
        cases.append((cid, text))
        gens[cid] = g
    wd = os.path.join(workroot, "w%d" % chunk_id)
    results = R.run_cases(binary, cases, wd, timeout=1800, watchdog=60)
    for cid, text in cases:
        res = results[cid]
        g = gens[cid]
        v, inc = R.standard_violations(res, text, PROP)
        part["violations"] += v
        part["inconclusive"] += inc
        if res.status in ("driver_error", "notrun"):
            part["harness_errors"].append("%s: %s %s" % (cid, res.status,
                                                         res.detail))
            continue
        part["evaluations"] += 1
        for ev in res.events:
            if "ret" not in ev:
                cnt["skipped_ops"] = cnt.get("skipped_ops", 0) + 1
                continue
            f = is_failure(ev)
            key = "op:%s:%s" % (ev["op"], "fail" if f else "ok")
            cnt[key] = cnt.get(key, 0) + 1
            if f and ev.get("cb"):
                part["distinct"].add((ev["op"], ev["cb"][0][1][:60]))
            else:
                part["distinct"].add((ev["op"], "ok" if not f else ev["errno"]))
        for line, (kind, why) in g.must_fail.items():
            ev = res.ev(line)
            if ev is None or "ret" not in ev:
                continue
            cnt["documented_invalid_calls"] = cnt.get(
                "documented_invalid_calls", 0) + 1
            if not failed_as_documented(ev, kind):
                part["violations"].append(dict(
                    key="%s:invalid-accepted:%s" % (PROP, ev["op"]),
                    desc="call invalid by a documented rule (%s) did not "
                         "return the failure value: line %d: %s\n-> %s" % (
                             why, line, text.split("\n")[line - 1][:300], ev),
                    script=text))
        if len(part["samples"]) < 1:
            part["samples"].append(dict(history=text.split("\n")[:25]))
    # second opinion: the same histories, plus handle / re-solve histories of
    # the C16 generator, under gcc's ASan/UBSan as well as clang's (the
    # primary build; gcc 12 does not instrument loads and stores of _Complex
    # values, clang does not have bounds-strict); only sanitizer reports,
    # crashes and hangs are judged here
    if clang_bin:
        import gen_handles
        extra = []
        for k in range(max(2, nhist // 3)):
            rng = np.random.default_rng([seed, chunk_id, k, 304])
            if k % 2 == 0:
                g2 = gen_handles.HandleGen(rng, nvc=2 if rng.random() < 0.2
                                           else 1)
                t2 = g2.generate(80)
            else:
                t2 = gen_handles.ResolveGen(rng).generate()
            if t2:
                extra.append(("x%d_%d" % (chunk_id, k), t2))
        for bin_, tag, sub in ((clang_bin, "c", cases + extra),
                               (binary, "g", extra)):
            xres = R.run_cases(bin_, sub, wd + tag, timeout=1800, watchdog=60)
            for cid, text in sub:
                res = xres[cid]
                v, inc = R.standard_violations(res, text, PROP)
                part["violations"] += v
                part["inconclusive"] += inc
                if res.status == "ok":
                    key = "gcc_asan_histories" if tag == "c" else \
                        "handle_histories"
                    cnt[key] = cnt.get(key, 0) + 1
                    cnt["operations_second_opinion"] = cnt.get(
                        "operations_second_opinion", 0) + len(res.events)
        cases = cases + extra
    # error paths behind I/O failures: every file function once under a
    # persistent stdio fault (fi build), judged on sanitizer reports, leaks,
    # crashes and hangs only (C11 judges what the calls report)
    if fibin and nio > 0:
        import gen_iofault
        iocases = []
        for k in range(nio):
            rng = np.random.default_rng([seed, chunk_id, k, 305])
            name, t3, _ = gen_iofault.generate(rng, chunk_id + k)
            iocases.append(("io%d_%d_%s" % (chunk_id, k, name), t3))
        ires = R.run_cases(fibin, iocases, wd + "io", timeout=1800,
                           watchdog=60)
        for cid, text in iocases:
            res = ires[cid]
            v, inc = R.standard_violations(res, text, PROP)
            part["violations"] += v
            part["inconclusive"] += inc
            if res.status == "ok":
                cnt["iofault_histories"] = cnt.get("iofault_histories", 0) + 1
                cnt["iofault_faults_delivered"] = cnt.get(
                    "iofault_faults_delivered", 0) + sum(
                        1 for e in res.events if e.get("iofired"))
    # memcheck sample on the plain build: uninitialised-value use, which
    # ASan cannot see
    if memcheck_bin and nmem > 0:
        sub = cases[:nmem] + cases[-nmem:]
        mres = R.run_cases(memcheck_bin, sub, wd + "m", timeout=3600,
                           watchdog=600, valgrind=True)
        for cid, text in sub:
            res = mres[cid]
            cnt["memcheck_histories"] = cnt.get("memcheck_histories", 0) + 1
            cnt["memcheck_operations"] = cnt.get("memcheck_operations", 0) + \
                len(res.events)
            v, inc = R.standard_violations(res, text, PROP)
            part["violations"] += [x for x in v
                                   if x["key"].startswith("memcheck:")]
    return part


def main():
    chk = R.Check(PROP)
    binary = chk.build(os.environ.get("VERIF_C03_VARIANT", "asan"))
    if chk.tier == "quick":
        nhist, nops, nmem = 400, 60, 0
    else:
        nhist, nops, nmem = 20000, 60, 0
    nhist = max(16, int(nhist * chk.args.scale))
    nchunks = 16 if chk.tier == "quick" else 64
    per = max(1, nhist // nchunks)
    membin = chk.build("plain")
    memper = 2 if chk.tier == "quick" else 16
    clang_bin = chk.build("gasan")
    fibin = chk.build("fi")
    # every monitor must be seen firing in the build that is used
    errs, seen = R.monitor_canaries(
        {"asan": binary, "gasan": clang_bin, "fi": fibin}, chk.workroot,
        memcheck_bin=membin)
    chk.harness_errors += errs
    chk.counters["monitor_canaries_noticed"] = sum(1 for v in seen.values()
                                                   if v)
    # the witness histories of every recorded finding of this property
    # (findings/C03-*.script: repaired ones and listed known ones) are
    # replayed in every run.  A repaired defect that returns is a violation
    # again; a listed known finding that is still there is reported as
    # KNOWN-FINDING; histories that need the fault-injection build are left
    # to C12 / C11
    import glob
    for wpath in sorted(glob.glob(os.path.join(R.VERIF, "findings",
                                               PROP + "-*.script"))):
        raw = open(wpath).read()
        if "fault arm" in raw or "iofault" in raw or "!faultretry" in raw:
            continue
        text = "\n".join(l for l in raw.split("\n")
                         if not l.startswith("#")) + "\n"
        res = R.run_cases(binary, [("finding", text)],
                          os.path.join(chk.workroot, "finding"))["finding"]
        v, inc = R.standard_violations(res, text, PROP)
        for x in v:
            chk.violation(x["key"], "%s: %s" % (os.path.basename(wpath),
                                                x["desc"]), x.get("script"))
        chk.counters["finding_histories_replayed"] = chk.counters.get(
            "finding_histories_replayed", 0) + 1
    nio = 18 if chk.tier == "quick" else 90
    payloads = [(chk.seed, per, nops, binary, chk.workroot, membin, memper,
                 clang_bin, fibin, nio) for i in range(nchunks)]
    for part in R.pmap(work, payloads):
        chk.merge(part)
    ops = {}
    for k in list(chk.counters):
        if k.startswith("op:"):
            _, name, what = k.split(":")
            ops.setdefault(name, {"ok": 0, "fail": 0})[what] = chk.counters[k]
            del chk.counters[k]
    chk.counters["api_functions_called"] = len(ops)
    chk.counters["operations_executed"] = sum(
        v["ok"] + v["fail"] for v in ops.values())
    chk.counters["operations_failed"] = sum(v["fail"] for v in ops.values())
    chk.finish(
        rule="call histories of ~60 operations over vnadata_t, property roots, "
             "vnacal_t with several vnacal_new_t, parameters and files; every "
             "argument drawn from valid / boundary (-1, 0, n-1, n, n+1) / "
             "invalid domains, buffers always truthful for the dimensions "
             "passed; all objects freed and LeakSanitizer queried after every "
             "history; plus every file-writing / -reading function under a "
             "persistent stdio fault (harness/failio.c); distinct = distinct "
             "(function, outcome or first error message) pairs observed",
        min_events=16,
        assumptions=["ASan red zones miss non-adjacent overflows; UBSan covers "
                     "the enabled checks only",
                     "calls with invalid object pointers are outside the "
                     "property and are not generated"],
        extra=dict(calls_per_function=ops))


if __name__ == "__main__":
    main()
